"""C06 - what is read does not depend on meaning-preserving choices of file layout.

Theorems: coq/Props/C06.v (lookup lists, offsets, row map, member order; chunking is C05's theorem).
Correspondence (extracted model C06Entry vs implementation):
  datalist-direct   DataLists.add_table / lookup_value called on generated TableDataLists (any key order, duplicates)
  rowmap-direct     row_storage_map / storage_buffers / storage_buffer called on generated table layouts
  split-direct      get_storage_buffers_for_row on generated rows, narrow and wide
  doc-datalist      every lookup list of every table of original and rewritten documents
  doc-rowmap        the whole table decode of original and rewritten documents (model on the rewritten layout must also
                    predict the implementation's reading of the ORIGINAL: doc-rowmap/rewritten-predicts-original)
  doc-store         object -> member map and member names of the ObjectStore
Oracle (implementation only, metamorphic): a document rewritten by harness/c06_rewrite.py (one layout transformation
or a composition) must read as the original: sheets and tables by name, every cell's type, value, formatted value,
formula, merge state; a lookup that reports a key missing must be about a key no entry carries; every stored row must
be reported at tileid * tile_size + tile_row_index."""
from __future__ import annotations

import hashlib
import json
import os
import random
import shutil
import warnings
from array import array
from pathlib import Path
from types import SimpleNamespace

from . import c06_rewrite as RW
from . import common
from .common import Ctx

warnings.filterwarnings("ignore")

LEVEL = "proof"
ENTRY = "C06Entry"

SIG = {"perm": "datalist-unsorted-entries", "headers": "header-record-on-empty-row", "rows": "stored-row-order"}
SINGLE_KINDS = ["perm", "rechunk", "order", "method", "form", "offsets", "headers", "rows"]
CORE_FIXTURES = ["issue-66-collab", "test-1", "test-empty-rows", "issue-14", "test-3", "test-6", "issue-80", "custom-formats1", "issue-32"]
SLOW_FIXTURES = {"duration_112", "custom-format-stress", "test-all-formulas", "test-all-formulas-13.1", "date_formats", "issue-67"}


def sig_of(kind):
    return SIG.get(kind, "layout-dependent:" + kind)


# ------------------------------------------------------------------ fallback observation (no change to /repo)
class LookupWatch:
    """Records every KeyError raised by DataLists.lookup_value (the event table_string turns into '')."""

    def __init__(self):
        self.events = []

    def __enter__(self):
        from numbers_parser.model import DataLists
        self.cls = DataLists
        self.orig = DataLists.lookup_value
        watch = self

        def lookup_value(self_, table_id, key):
            try:
                return watch.orig(self_, table_id, key)
            except KeyError:
                watch.events.append((self_._datalist_name, table_id, key))
                raise
        DataLists.lookup_value = lookup_value
        return self

    def __exit__(self, *a):
        self.cls.lookup_value = self.orig


# ------------------------------------------------------------------ reading a document
def cell_snap(c):
    out = [type(c).__name__]
    for attr in ("value", "formatted_value", "formula"):
        try:
            out.append(repr(getattr(c, attr)))
        except Exception as e:  # noqa: BLE001
            out.append("!" + type(e).__name__)
    try:
        out.append(repr((c.is_merged, c.size if c.is_merged else None)))
    except Exception as e:  # noqa: BLE001
        out.append("!" + type(e).__name__)
    return out


class Reading:
    """Everything the oracle and the correspondence need from one Document(path)."""

    def __init__(self, path):
        from numbers_parser import Document
        with LookupWatch() as w:
            self.doc = Document(path)
            self.snap = {}
            self.tables = []     # (sheet name, table name, Table)
            for s in self.doc.sheets:
                for t in s.tables:
                    rows = [[cell_snap(c) for c in row] for row in t.rows()]
                    self.snap.setdefault((s.name, t.name), []).append(rows)
                    self.tables.append((s.name, t.name, t))
        self.lookup_misses = list(w.events)
        self.ncells = sum(len(r) for ts in self.snap.values() for t in ts for r in t)


def snap_diff(a, b):
    if set(a) != set(b):
        return f"sheet/table names differ: {sorted(set(a) ^ set(b))[:4]}"
    for k in sorted(a):
        la = sorted(a[k], key=lambda x: json.dumps(x))
        lb = sorted(b[k], key=lambda x: json.dumps(x))
        if la == lb:
            continue
        if len(la) != len(lb):
            return f"{k}: {len(la)} vs {len(lb)} tables of that name"
        for ta, tb in zip(la, lb):
            if len(ta) != len(tb):
                return f"{k}: {len(ta)} vs {len(tb)} rows"
            for r, (ra, rb) in enumerate(zip(ta, tb)):
                if len(ra) != len(rb):
                    return f"{k} row {r}: {len(ra)} vs {len(rb)} columns"
                for c, (ca, cb) in enumerate(zip(ra, rb)):
                    if ca != cb:
                        return f"{k} cell ({r},{c}): original {ca} rewritten {cb}"
    return None


# ------------------------------------------------------------------ raw layout of a table (for the model and the direct oracles)
DATALISTS = [("format_table", "_table_formats"), ("styleTable", "_table_styles"), ("stringTable", "_table_strings"),
             ("control_cell_spec_table", "_control_specs"), ("formula_table", "_formulas")]


def ent_tag(e) -> str:
    return hashlib.sha1(e.SerializeToString()).hexdigest()[:10]


def table_layout(m, tid):
    tm = m.objects[tid]
    bds = tm.base_data_store
    hdrs = [[h.index for h in m.objects[b.identifier].headers] for b in bds.rowHeaders.buckets]
    tiles = []
    for tr in bds.tiles.tiles:
        tile = m.objects[tr.tile.identifier]
        tiles.append((tr.tileid, [(ri.tile_row_index, bool(ri.has_wide_offsets), bytes(ri.cell_offsets), bytes(ri.cell_storage_buffer))
                                  for ri in tile.rowInfos]))
    return {"nrows": tm.number_of_rows, "ncols": tm.number_of_columns, "tile_size": bds.tiles.tile_size, "hdrs": hdrs, "tiles": tiles}


def rm_request(mode, L) -> str:
    hs = "|".join(",".join(map(str, b)) for b in L["hdrs"])
    ts = "|".join(f"{tid}:" + ";".join(f"{i}/{int(w)}/{o.hex()}/{s.hex()}" for (i, w, o, s) in rows) for tid, rows in L["tiles"])
    return f"rm\t{mode}\t{L['nrows']}\t{L['ncols']}\t{L['tile_size']}\t{hs}\t{ts}"


def show_buf(b):
    return "-" if b is None else (bytes(b).hex() or "e")


def impl_decode(m, tid, nrows, ncols) -> str:
    rows = []
    for r in range(nrows):
        try:
            rows.append(",".join(show_buf(m.storage_buffer(tid, r, c)) for c in range(ncols)))
        except Exception as e:  # noqa: BLE001
            rows.append("!" + type(e).__name__)
    return ";".join(rows)


def declared_rows_oracle(m, tid, L):
    """Implementation-only: every rowInfo is reported at tileid*tile_size + tile_row_index (None when nothing wrong)."""
    from numbers_parser.model import get_storage_buffers_for_row
    tsz = L["tile_size"] or 256
    seen = set()
    for tileid, rows in L["tiles"]:
        for (i, w, o, s) in rows:
            row = tileid * tsz + i
            if row in seen or row >= L["nrows"]:
                return None          # outside the theorem's premise (two records for one row / beyond the table)
            seen.add(row)
    for tileid, rows in L["tiles"]:
        for (i, w, o, s) in rows:
            row = tileid * tsz + i
            want = get_storage_buffers_for_row(s, o, L["ncols"], w)
            for c in range(L["ncols"]):
                exp = want[c] if c < len(want) else None
                got = m.storage_buffer(tid, row, c)
                if got != exp:
                    return f"row {row} (tile {tileid}, tile_row_index {i}) col {c}: stored {show_buf(exp)}, reported {show_buf(got)}"
    for r in range(L["nrows"]):
        if r not in seen:
            for c in range(L["ncols"]):
                got = m.storage_buffer(tid, r, c)
                if got is not None:
                    return f"row {r} has no storage record but col {c} is reported as {show_buf(got)}"
    return None


# ------------------------------------------------------------------ which repairs does the tree under test have?
def fake_datalists(entries):
    from numbers_parser.generated import TSTArchives_pb2 as TST
    from numbers_parser.model import DataLists
    dl = TST.TableDataList(listType=TST.TableDataList.ListType.STRING, nextListID=1)
    for k, v in entries:
        dl.entries.add(key=k, refcount=1, string=v)
    model = SimpleNamespace(objects={1: SimpleNamespace(base_data_store=SimpleNamespace(stringTable=SimpleNamespace(identifier=2))), 2: dl})
    return DataLists(model, "stringTable", "string"), dl


def impl_datalist(entries, keys):
    d, _ = fake_datalists(entries)
    outs = []
    for k in keys:
        try:
            outs.append(d.lookup_value(1, k).string.encode().hex() or "e")
        except KeyError:
            outs.append("!")
    d.add_table(1)
    return ",".join(outs) + "\t" + str(d._datalists[1]["next_key"])


def fake_table_model(L):
    """A _NumbersModel shell holding just the objects row_storage_map / storage_buffers / storage_buffer read."""
    from numbers_parser.generated import TSTArchives_pb2 as TST
    from numbers_parser.model import _NumbersModel
    m = _NumbersModel.__new__(_NumbersModel)
    objs = {}
    tm = TST.TableModelArchive(number_of_rows=L["nrows"], number_of_columns=L["ncols"])
    bds = tm.base_data_store
    if L["tile_size"]:
        bds.tiles.tile_size = L["tile_size"]
    nid = 100
    for b in L["hdrs"]:
        bucket = TST.HeaderStorageBucket()
        for i in b:
            bucket.headers.add(index=i, numberOfCells=0, size=0.0, hidingState=0)
        objs[nid] = bucket
        bds.rowHeaders.buckets.add(identifier=nid)
        nid += 1
    for tileid, rows in L["tiles"]:
        tile = TST.Tile(maxColumn=0, maxRow=0, numCells=0, numrows=len(rows), storage_version=5, last_saved_in_BNC=True)
        for (i, w, o, s) in rows:
            tile.rowInfos.add(tile_row_index=i, cell_count=0, storage_version=5, cell_storage_buffer=s, cell_offsets=o, has_wide_offsets=w)
        objs[nid] = tile
        t = bds.tiles.tiles.add(tileid=tileid)
        t.tile.identifier = nid
        nid += 1
    objs[1] = tm
    m.objects = objs
    return m


def probe_fixes():
    dl = impl_datalist([(2, "b"), (1, "a")], [1]).split("\t")[0] == "61"
    L = {"nrows": 3, "ncols": 1, "tile_size": 256, "hdrs": [[0, 1, 2]],
         "tiles": [(0, [(0, False, b"\0\0", b"\1\2\3\4"), (2, False, b"\0\0", b"\5\6\7\x08")])]}
    m = fake_table_model(L)
    rm = m.storage_buffer(1, 2, 0) == b"\5\6\7\x08"
    return {"datalist": dl, "rowmap": rm}


# ------------------------------------------------------------------ generators for the direct streams
def gen_entries(rng):
    n = rng.choice([0, 1, 2, 3, 5, 8, 13, 30])
    style = rng.choice(["ascending", "shuffled", "reverse", "dups", "gaps", "zero"])
    keys = list(range(1, n + 1))
    if style == "gaps":
        keys = sorted(rng.sample(range(1, 4 * n + 2), n))
    if style == "zero" and n:
        keys[0] = 0
    if style in ("shuffled", "dups", "gaps") and rng.random() < 0.8:
        rng.shuffle(keys)
    if style == "reverse":
        keys.reverse()
    if style == "dups" and n >= 2:
        keys[rng.randrange(n)] = keys[rng.randrange(n)]
    words = ["", "a", "b", "dup", "dup", "é", "x" * 20, "line\nbreak", "中"]
    entries = [(k, rng.choice(words) if rng.random() < 0.5 else f"s{k}_{i}") for i, k in enumerate(keys)]
    probe = sorted(set(keys) | {0, n + 1, 4 * n + 5, rng.randrange(0, 50)})
    return entries, probe


def gen_row(rng, ncols, wide):
    """One stored row: offsets (possibly fewer than ncols, any negative marker), storage; valid for the chosen encoding."""
    n_off = rng.choice([ncols, ncols, ncols, rng.randrange(0, ncols + 1), ncols + rng.randrange(0, 3)])
    unit = 4 if wide else rng.choice([1, 4, 4])
    offs, storage = [], b""
    for _ in range(n_off):
        if rng.random() < 0.35:
            offs.append(rng.choice([-1, -1, -1, -2, -32768]))
        else:
            pos = len(storage)
            offs.append(pos // 4 if wide else pos)
            storage += bytes(rng.randrange(256) for _ in range(unit * rng.randrange(1, 4)))
    return array("h", offs).tobytes(), storage


def gen_layout(rng):
    """A table layout satisfying the premise of row_map_by_declared_index: distinct declared indexes below nrows."""
    tsz = rng.choice([0, 256, 4, 4, 3, 8])
    eff = tsz or 256
    ntiles = rng.choice([1, 1, 2, 3]) if eff < 256 else 1
    nrows = rng.randrange(1, min(eff * ntiles, 14) + 1) if eff < 256 else rng.randrange(1, 14)
    ncols = rng.randrange(1, 6)
    stored = [r for r in range(nrows) if rng.random() < 0.7]
    tiles = {}
    for r in stored:
        wide = rng.random() < 0.5
        o, s = gen_row(rng, ncols, wide)
        tiles.setdefault(r // eff, []).append((r % eff, wide, o, s))
    tile_ids = sorted(tiles)
    for extra in range(ntiles):
        if extra not in tiles and rng.random() < 0.5:
            tiles[extra] = []
            tile_ids.append(extra)
    order = rng.choice(["file", "file", "file", "rows-shuffled", "tiles-shuffled"])
    if order == "tiles-shuffled":
        rng.shuffle(tile_ids)
    tl = []
    for t in tile_ids:
        rows = list(tiles[t])
        if order == "rows-shuffled":
            rng.shuffle(rows)
        tl.append((t, rows))
    hstyle = rng.choice(["exact", "exact", "all-rows", "extra-empty", "missing", "none", "two-buckets"])
    hdr = sorted(stored)
    if hstyle == "all-rows":
        hdr = list(range(nrows))
    elif hstyle == "extra-empty":
        hdr = sorted(set(stored) | {r for r in range(nrows) if rng.random() < 0.5})
    elif hstyle == "missing":
        hdr = [r for r in hdr if rng.random() < 0.7]
    elif hstyle == "none":
        hdr = []
    hdrs = [hdr]
    if hstyle == "two-buckets" and len(hdr) > 1:
        k = rng.randrange(1, len(hdr))
        hdrs = [hdr[:k], hdr[k:]]
    return {"nrows": nrows, "ncols": ncols, "tile_size": tsz, "hdrs": hdrs, "tiles": tl}, hstyle, order


def layout_json(L):
    return {"nrows": L["nrows"], "ncols": L["ncols"], "tile_size": L["tile_size"], "hdrs": L["hdrs"],
            "tiles": [[t, [[i, w, o.hex(), s.hex()] for (i, w, o, s) in rows]] for t, rows in L["tiles"]]}


def layout_unjson(J):
    return {"nrows": J["nrows"], "ncols": J["ncols"], "tile_size": J["tile_size"], "hdrs": J["hdrs"],
            "tiles": [(t, [(i, w, bytes.fromhex(o), bytes.fromhex(s)) for (i, w, o, s) in rows]) for t, rows in J["tiles"]]}


def oracle_layout(L):
    m = fake_table_model(L)
    return declared_rows_oracle(m, 1, L)


def oracle_partition(storage, offsets_raw, ncols, wide, got=None):
    """Implementation-only: with ascending offsets the records reported for a row are consecutive, disjoint slices
    covering the storage from the first reported record to the end (nothing read twice, nothing skipped) - as long as
    the offset table is not cut short by ncols."""
    from numbers_parser.model import get_storage_buffers_for_row
    offs = array("h", offsets_raw).tolist()
    if got is None:
        got = get_storage_buffers_for_row(storage, offsets_raw, ncols, wide)
    if len(offs) > ncols:
        return None
    pres = [x * (4 if wide else 1) for x in offs if x >= 0]
    if not pres or pres != sorted(pres):
        return None
    joined = b"".join(b for b in got if b is not None)
    if joined != storage[pres[0]:]:
        return (f"offsets {offs} ({'wide' if wide else 'narrow'}), {len(storage)} bytes of storage: reported records "
                f"{[show_buf(b) for b in got]} are not the consecutive slices of the storage")
    return None


def oracle_entries(entries):
    """Implementation-only: with distinct keys every entry is found under its key."""
    keys = [k for k, _ in entries]
    if len(set(keys)) != len(keys):
        return None
    d, _ = fake_datalists(entries)
    for k, v in entries:
        try:
            got = d.lookup_value(1, k).string
        except KeyError:
            return f"entry ({k}, {v!r}) of {entries!r} is not found under its key (KeyError; table_string would show '')"
        if got != v:
            return f"key {k} of {entries!r} finds {got!r}, its entry carries {v!r}"
    return None


# ------------------------------------------------------------------ API-built documents
def build_api_doc(name: str, path: Path):
    """Deterministic documents written through the public API (wide offsets, a rowInfo for every row)."""
    from datetime import datetime, timedelta
    from numbers_parser import Document
    rng = random.Random("c06-" + name)
    doc = Document(num_rows=4, num_cols=3)
    t = doc.sheets[0].tables[0]
    if name == "strings-gaps":
        # text with gaps: whole rows empty (their rowInfos store no cell), repeated strings (shared keys)
        words = ["alpha", "beta", "", "gamma", "beta", "ünï", "alpha", "delta\nline", "0", "ß"]
        for r in (0, 1, 4, 5, 9, 12):
            for c in range(3):
                t.write(r, c, words[(r * 3 + c) % len(words)] + ("" if (r + c) % 3 else str(r)))
        t.write(2, 1, 42)
        t.write(11, 0, True)
    elif name == "mixed-types":
        vals = ["text", 1.5, -3, True, False, datetime(2024, 2, 29, 12, 30), timedelta(hours=5, minutes=3), "more text", 10 ** 9, 0.001]
        for r in range(10):
            for c in range(4):
                if (r + c) % 4 != 3:
                    t.write(r, c, vals[(r * 4 + c) % len(vals)])
        t.write(0, 1, 1234.5678)
        t.write(1, 2, 99.5)
        t.set_cell_formatting(0, 1, "number", decimal_places=3)
        t.set_cell_formatting(1, 2, "currency", currency_code="EUR")
        t.merge_cells("A9:B10")
        doc.add_sheet("Second", "Other table", num_rows=3, num_cols=2)
        s2 = doc.sheets[1]
        t2 = s2.tables[0]
        t2.write(0, 0, "other")
        t2.write(2, 1, 7)
        s2.add_table("Third table", num_rows=6, num_cols=2)
        t3 = s2.tables[1]
        t3.write(5, 1, "last row only")
    elif name == "two-tiles":
        for r in list(range(0, 300, 7)) + [255, 256, 257, 299]:
            t.write(r, r % 3, f"r{r}" if r % 2 else r * 1.25)
    elif name == "many-strings":
        for r in range(40):
            for c in range(5):
                t.write(r, c, "w%d" % rng.randrange(60) if rng.random() < 0.8 else rng.randrange(1000))
    else:
        raise ValueError(name)
    doc.save(path)
    return path


API_DOCS = ["strings-gaps", "mixed-types", "two-tiles", "many-strings"]


def source_path(ctx_tmp: Path, src: str) -> Path:
    if src.startswith("api:"):
        p = ctx_tmp / ("api-" + src[4:] + ".numbers")
        if not p.exists():
            build_api_doc(src[4:], p)
        return p
    return common.REPO / "tests" / "data" / (src + ".numbers")


def usable_fixtures():
    out = []
    for p in sorted((common.REPO / "tests" / "data").glob("*.numbers")):
        if p.stat().st_size == 0:
            continue
        out.append(p.stem)
    return out


# ------------------------------------------------------------------ one metamorphic case
def run_case(tmp: Path, src: str, kinds, seed: int, orig: Reading | None = None):
    """Rewrite `src` with `kinds` (rng seeded by `seed`), read both. Returns (orig, rewritten Reading | None, pack, failure | None)."""
    spath = source_path(tmp, src)
    if orig is None:
        orig = Reading(spath)
    dst = tmp / f"rw-{src.replace(':', '_')}-{'_'.join(kinds)}-{seed}.numbers"
    rng = random.Random(seed)
    _, pack = RW.rewrite(spath, dst, kinds, rng)
    try:
        new = Reading(dst)
    except Exception as e:  # noqa: BLE001
        return orig, None, pack, f"rewritten document cannot be read: {type(e).__name__}: {e} ({'; '.join(pack.log)})", dst
    d = snap_diff(orig.snap, new.snap)
    if d:
        return orig, new, pack, f"{d} ({'; '.join(pack.log)})", dst
    return orig, new, pack, None, dst


def attribute(tmp, src, kinds, seed, orig):
    """Which single transformation of a failing composition fails on its own (same seed)?"""
    for k in kinds:
        try:
            _, _, _, fail, dst = run_case(tmp, src, [k], seed, orig)
        except Exception:  # noqa: BLE001
            continue
        _rm(dst)
        if fail:
            return k
    return None


def _rm(p):
    p = Path(p)
    if p.is_dir():
        shutil.rmtree(p, ignore_errors=True)
    elif p.exists():
        p.unlink()


def check_lookup_misses(ctx: Ctx, rd: Reading, case):
    """A lookup may report a key missing only when no entry of the list carries that key."""
    m = rd.doc._model
    for (list_name, tid, key) in rd.lookup_misses:
        ctx.count("oracle-lookup-miss")
        try:
            dl = m.objects[getattr(m.objects[tid].base_data_store, list_name).identifier]
        except Exception:  # noqa: BLE001
            continue
        if any(e.key == key for e in dl.entries):
            ctx.oracle_fail("silent-fallback:key-present", dict(case, list=list_name, key=key),
                            f"{list_name} of table {tid}: key {key} is carried by an entry but lookup_value raised KeyError (table_string shows '')")
        else:
            ctx.dist("lookup-miss:key-really-absent")


def doc_correspondence(ctx: Ctx, exe, fx, rd: Reading, label: str, case, predict_from: Reading | None = None):
    """Model vs implementation on the raw lists / layouts of one read document."""
    m = rd.doc._model
    mode_dl = "r" if fx["datalist"] else "p"
    mode_rm = "r" if fx["rowmap"] else "p"
    reqs, outs, cases = [], [], []
    rreqs, routs, rcases = [], [], []
    preqs, pouts, pcases = [], [], []
    orig_tables = {}
    if predict_from is not None:
        for (sn, tn, t) in predict_from.tables:
            orig_tables.setdefault((sn, tn), []).append(t)
    for (sn, tn, t) in rd.tables:
        tid = t._table_id
        bds = m.objects[tid].base_data_store
        for field, attr in DATALISTS:
            ref = getattr(bds, field)
            if not ref.identifier or ref.identifier not in m.objects:
                continue
            dl = m.objects[ref.identifier]
            ents = list(dl.entries)
            if not ents:
                continue
            keys = sorted({e.key for e in ents} | {0, max(e.key for e in ents) + 1})
            if len(keys) > 400:
                keys = keys[:200] + keys[-200:]
            lists = getattr(m, attr)
            o = []
            for k in keys:
                try:
                    o.append(ent_tag(lists.lookup_value(tid, k)))
                except KeyError:
                    o.append("!")
            lists.add_table(tid)
            outs.append(",".join(o) + "\t" + str(lists._datalists[tid]["next_key"]))
            reqs.append(f"dl\t{mode_dl}\t" + ",".join(f"{e.key}:{ent_tag(e)}" for e in ents) + "\t" + ",".join(map(str, keys)))
            cases.append(f"{label}:{sn}/{tn}/{field}")
            ctx.dist("hyp:datalist-keys-distinct" if len({e.key for e in ents}) == len(ents) else "hyp:datalist-keys-NOT-distinct")
            ctx.dist("datalist-stored-ascending" if [e.key for e in ents] == sorted(e.key for e in ents) else "datalist-stored-unsorted")
        L = table_layout(m, tid)
        if L["nrows"] * L["ncols"] > (40000 if ctx.quick else 400000):
            continue
        impl = impl_decode(m, tid, L["nrows"], L["ncols"])
        rreqs.append(rm_request(mode_rm, L))
        routs.append(impl)
        rcases.append(f"{label}:{sn}/{tn}")
        # implementation-only: rows at their declared index
        ctx.count("oracle-declared-rows")
        d = declared_rows_oracle(m, tid, L)
        if d:
            ctx.oracle_fail(SIG["headers"], dict(case, table=f"{sn}/{tn}"), f"{label} {sn}/{tn}: {d}")
        if predict_from is not None and len(orig_tables.get((sn, tn), [])) == 1 and sum(1 for x in rd.tables if x[:2] == (sn, tn)) == 1:
            ot = orig_tables[(sn, tn)][0]
            preqs.append(rm_request("r", L))      # the repaired reader model on the rewritten layout ...
            pouts.append(impl_decode(predict_from.doc._model, ot._table_id, L["nrows"], L["ncols"]))   # ... = what the original holds
            pcases.append(f"{label}:{sn}/{tn}")
    if exe:
        ctx.compare("doc-datalist", cases, reqs, outs, exe, nontrivial=lambda c, o: True)
        ctx.compare("doc-rowmap", rcases, rreqs, routs, exe, nontrivial=lambda c, o: True)
        if preqs and fx["rowmap"]:
            ctx.compare("doc-rowmap/rewritten-predicts-original", pcases, preqs, pouts, exe, nontrivial=lambda c, o: True)


def store_correspondence(ctx: Ctx, exe, path, rd: Reading, label):
    pack = RW.load(path)
    msgs = RW.Messages(pack)
    members = []
    for i, mbr in enumerate(pack.members):
        ids = []
        if i in msgs.files:
            ids = [ident for ident, _ in RW.iwa_objects(msgs.files[i])]
            for chunk in msgs.files[i].chunks[1:]:
                pass
        members.append((mbr.name, ids))
    all_ids = [i for _, ids in members for i in ids]
    ctx.dist("hyp:object-ids-distinct" if len(set(all_ids)) == len(all_ids) else "hyp:object-ids-NOT-distinct")
    names = [n for n, _ in members]
    ctx.dist("hyp:member-names-distinct" if len(set(names)) == len(names) else "hyp:member-names-NOT-distinct")
    req = "store\t" + "|".join(n.encode().hex() + ":" + ",".join(map(str, ids)) for n, ids in members)
    store = rd.doc._model.objects
    o2f = store._object_to_filename_map
    if not exe:
        return
    out = common.run_model(exe, [req])[0]
    mo, mf = (out.split("\t") + [""])[:2]
    model_pairs = sorted(mo.split(",")) if mo else []
    impl_pairs = sorted(f"{i}={n.encode().hex()}" for i, n in o2f.items())
    model_files = sorted(mf.split(",")) if mf else []
    impl_files = sorted(n.encode().hex() for n in store._file_store)
    ctx.count("doc-store")
    ctx.nontrivial(("doc-store", label))
    if model_pairs != impl_pairs or model_files != impl_files:
        ctx.disagree("doc-store", label, f"{len(model_pairs)} objects, {len(model_files)} files; first diff "
                     f"{next((a for a, b in zip(model_pairs, impl_pairs) if a != b), '')}",
                     f"{len(impl_pairs)} objects, {len(impl_files)} files")
    if pack.form == "zip" and not pack.nested:
        # dict order too (zip order is the member order the model was given)
        if mo.split(",") != [f"{i}={n.encode().hex()}" for i, n in o2f.items()]:
            ctx.disagree("doc-store-order", label, mo[:120], ",".join(f"{i}={n.encode().hex()}" for i, n in list(o2f.items())[:6]))
        ctx.count("doc-store-order")


# ------------------------------------------------------------------ run
def direct_streams(ctx: Ctx, exe, fx):
    from numbers_parser.model import get_storage_buffers_for_row
    rng = ctx.rng
    n_dl, n_rm, n_sp = (1500, 1500, 2000) if ctx.quick else (20000, 20000, 30000)
    # lookup lists
    reqs, outs, cases = [], [], []
    for _ in range(n_dl):
        entries, keys = gen_entries(rng)
        cases.append(json.dumps([entries, keys]))
        reqs.append(f"dl\t{'r' if fx['datalist'] else 'p'}\t" + ",".join(f"{k}:{v.encode().hex()}" for k, v in entries) + "\t" + ",".join(map(str, keys)))
        outs.append(impl_datalist(entries, keys))
        ctx.count("oracle-datalist-direct")
        d = oracle_entries(entries)
        if d:
            ctx.oracle_fail(SIG["perm"], {"op": "datalist", "entries": entries}, d)
        ks = [k for k, _ in entries]
        ctx.dist("direct-datalist:" + ("ascending" if ks == sorted(ks) else "unsorted"))
    if exe:
        ctx.compare("datalist-direct", cases, reqs, outs, exe, nontrivial=lambda c, o: True)
    # table layouts
    reqs, outs, cases = [], [], []
    for _ in range(n_rm):
        L, hstyle, order = gen_layout(rng)
        m = fake_table_model(L)
        cases.append(json.dumps(layout_json(L)))
        reqs.append(rm_request("r" if fx["rowmap"] else "p", L))
        outs.append(impl_decode(m, 1, L["nrows"], L["ncols"]))
        ctx.dist(f"direct-layout:headers={hstyle}")
        ctx.dist(f"direct-layout:order={order}")
        ctx.count("oracle-rowmap-direct")
        d = oracle_layout(L)
        if d:
            ctx.oracle_fail(SIG["headers"], {"op": "rowmap", "layout": layout_json(L)}, d)
    if exe:
        ctx.compare("rowmap-direct", cases, reqs, outs, exe, nontrivial=lambda c, o: True)
    # single rows, both encodings; and the narrow <-> wide conversion stated on the implementation
    reqs, outs, cases = [], [], []
    for _ in range(n_sp):
        ncols = rng.randrange(1, 8)
        wide = rng.random() < 0.5
        o, s = gen_row(rng, ncols, wide)
        got = get_storage_buffers_for_row(s, o, ncols, wide)
        cases.append(f"{int(wide)}/{ncols}/{o.hex()}/{s.hex()}")
        reqs.append(f"split\t{int(wide)}\t{ncols}\t{o.hex()}\t{s.hex()}")
        outs.append(",".join(show_buf(b) for b in got))
        offs = array("h", o).tolist()
        ctx.count("oracle-offsets-direct")
        d = oracle_partition(s, o, ncols, wide, got)
        if d:
            ctx.oracle_fail("row-slices-not-a-partition", {"op": "partition", "wide": wide, "ncols": ncols, "offsets": o.hex(), "storage": s.hex()}, d)
        alt = None
        if wide and all(x < 0 or x * 4 <= 32767 for x in offs):
            alt = (array("h", [x if x < 0 else x * 4 for x in offs]).tobytes(), False)
        elif not wide and all(x < 0 or x % 4 == 0 for x in offs):
            alt = (array("h", [x if x < 0 else x // 4 for x in offs]).tobytes(), True)
        if alt is not None:
            got2 = get_storage_buffers_for_row(s, alt[0], ncols, alt[1])
            ctx.dist("direct-offsets:converted")
            if got2 != got:
                ctx.oracle_fail(sig_of("offsets"), {"op": "split", "wide": wide, "ncols": ncols, "offsets": o.hex(), "storage": s.hex()},
                                f"row read as {[show_buf(b) for b in got]} with {'wide' if wide else 'narrow'} offsets {offs} and as "
                                f"{[show_buf(b) for b in got2]} after re-encoding")
    if exe:
        ctx.compare("split-direct", cases, reqs, outs, exe, nontrivial=lambda c, o: True)


def plan(ctx: Ctx):
    """(src, [kinds...]) cases of this run."""
    rng = ctx.rng
    fixtures = usable_fixtures()
    core = [f for f in CORE_FIXTURES if f in fixtures]
    rest = [f for f in fixtures if f not in core and (not ctx.quick or f not in SLOW_FIXTURES)]
    if ctx.quick:
        from numbers_parser import Document
        rng.shuffle(rest)
        picked = list(core)
        for f in rest:
            if len(picked) >= len(core) + 7:
                break
            try:      # deliberately damaged fixtures are outside the property
                Document(common.REPO / "tests" / "data" / (f + ".numbers"))
            except Exception:  # noqa: BLE001
                continue
            picked.append(f)
    else:
        picked = core + rest
    srcs = picked + ["api:" + n for n in API_DOCS]
    cases = []
    for s in srcs:
        ks = [[k] for k in SINGLE_KINDS]
        ncomp = 1 if ctx.quick else 3
        for _ in range(ncomp):
            k = rng.randrange(2, 6)
            ks.append(rng.sample(SINGLE_KINDS, k))
        ks.append(list(SINGLE_KINDS))
        cases.append((s, ks))
    return cases


def metamorphic(ctx: Ctx, exe, fx, cases, budget_fail=6):
    tmp = ctx.tmp
    for src, kind_lists in cases:
        try:
            with warnings.catch_warnings(record=True) as wl:
                warnings.simplefilter("always")
                orig = Reading(source_path(tmp, src))
        except Exception as e:  # noqa: BLE001 - unreadable fixtures (deliberately damaged files) are outside the property
            ctx.dist("source-unreadable:" + type(e).__name__)
            continue
        if any("unsupported" in str(w.message).lower() for w in wl) and ctx.quick and not src.startswith("api:") and src not in CORE_FIXTURES:
            ctx.dist("source-skipped:unsupported-warning")
            continue
        ctx.dist("source:" + ("api" if src.startswith("api:") else "fixture"))
        base_case = {"src": src, "kinds": [], "seed": 0}
        check_lookup_misses(ctx, orig, base_case)
        doc_correspondence(ctx, exe, fx, orig, f"{src}", base_case)
        try:
            store_correspondence(ctx, exe, source_path(tmp, src), orig, src)
        except Exception as e:  # noqa: BLE001
            ctx.notes.append(f"store correspondence skipped for {src}: {type(e).__name__}: {e}")
        for kinds in kind_lists:
            seed = ctx.rng.randrange(1 << 30)
            case = {"src": src, "kinds": kinds, "seed": seed}
            try:
                _, new, pack, fail, dst = run_case(tmp, src, kinds, seed, orig)
            except Exception as e:  # noqa: BLE001 - the rewriter itself failed: not a verdict about the code
                ctx.notes.append(f"rewriter failed on {case}: {type(e).__name__}: {e}")
                ctx.dist("rewriter-error")
                continue
            applied = tuple(pack.applied)
            ctx.count("oracle-metamorphic")
            ctx.evaluations += orig.ncells
            for k in kinds:
                ctx.dist(f"rewrite:{k}:" + ("applied" if k in applied else "not-applicable"))
            for k, v in pack.stats.items():
                ctx.dist("rewrite-stat:" + k, v)
            if applied:
                ctx.nontrivial((src, tuple(kinds), seed))
            ctx.sample({"case": case, "log": pack.log, "cells": orig.ncells}, cap=4)
            if fail:
                k = kinds[0] if len(kinds) == 1 else attribute(tmp, src, kinds, seed, orig)
                sig = sig_of(k) if k else "layout-dependent:composition"
                ctx.oracle_fail(sig, case, f"{src} rewritten by {'+'.join(kinds)}: {fail}")
            if new is not None:
                check_lookup_misses(ctx, new, case)
                if len(kinds) == 1 or kinds == SINGLE_KINDS:
                    doc_correspondence(ctx, exe, fx, new, f"{src}~{'+'.join(kinds)}", case, predict_from=orig if not fail else None)
                if "perm" in kinds and len(kinds) == 1 and not fail:
                    edit_after_read(ctx, source_path(tmp, src), dst, case)
                if "order" in kinds or "form" in kinds:
                    try:
                        store_correspondence(ctx, exe, dst, new, f"{src}~{'+'.join(kinds)}")
                    except Exception as e:  # noqa: BLE001
                        ctx.notes.append(f"store correspondence skipped for {case}: {type(e).__name__}: {e}")
            _rm(dst)


def edit_after_read(ctx: Ctx, src_path, dst_path, case):
    """The two files are the same document: the same edit made on both (a number format the table does not have yet, on
    the first number cell) leaves every cell of that table displayed the same way in both."""
    import warnings as _w
    from numbers_parser import Document
    try:
        with _w.catch_warnings():
            _w.simplefilter("ignore")
            docs = [Document(str(src_path)), Document(str(dst_path))]
            views = []
            for d in docs:
                done = None
                for sh in d.sheets:
                    for tb in sh.tables:
                        if tb.num_rows * tb.num_cols > 3000:
                            continue
                        for row in tb.rows():
                            for c in row:
                                if type(c).__name__ == "NumberCell" and done is None:
                                    tb.set_cell_formatting(c.row, c.col, "number", decimal_places=7, show_thousands_separator=True)
                                    done = (sh.name, tb.name)
                        if done:
                            break
                    if done:
                        break
                if done is None:
                    return
                tb = d.sheets[done[0]].tables[done[1]]
                view = {}
                for row in tb.rows():
                    for c in row:
                        try:
                            view[(c.row, c.col)] = c.formatted_value
                        except Exception as e:  # noqa: BLE001
                            view[(c.row, c.col)] = "!" + type(e).__name__
                views.append((done, view))
    except Exception as e:  # noqa: BLE001
        ctx.notes.append(f"edit_after_read skipped for {case}: {type(e).__name__}: {e}"[:200])
        return
    ctx.count("oracle-edit-after-read")
    (w0, v0), (w1, v1) = views
    if w0 != w1 or v0 != v1:
        bad = next((k for k in v0 if v1.get(k) != v0[k]), None)
        ctx.oracle_fail("layout-dependent:edit-after-read", case,
                        f"after the same set_cell_formatting call on both files, table {w0} cell {bad} shows {v0.get(bad)!r} in the original and {v1.get(bad)!r} in the rewritten file")


def run(ctx: Ctx) -> int:
    common.standard_trusted_base(ctx, [
        "harness/c06_rewrite.py: the rewriter defines what a 'meaning-preserving layout choice' is (which protobuf fields it permutes / re-encodes); it uses numbers_parser.iwafile.IWAFile to parse and re-serialise messages it changes and python-snappy/zipfile for containers",
        "zip compression method, zip directory order -> member list, package folder iteration, snappy, protobuf parsing are library code: exercised by the metamorphic oracle, not modelled; chunk reassembly is C05's theorem chunking_independent",
        "theorem premises checked per document by the harness and reported in input_distribution: distinct keys per lookup list, distinct declared row indexes, distinct object identifiers and member names",
        "lookup-list values are opaque to the model (identified by a hash of the serialised entry); cell decoding from record bytes is C04's model",
        "silent fallbacks are observed by wrapping DataLists.lookup_value in-process (no hook in /repo is needed)",
    ])
    ctx.assumptions += ["documents are readable fixtures of /repo/tests/data and documents written by the library itself",
                        "table order inside a sheet is not part of the property (tables are compared by name): find_refs follows member order (theorem find_refs_member_order)"]
    ctx.extra["rule"] = ("direct: generated lookup lists (ascending/shuffled/reversed/duplicate/gapped keys), generated table layouts (1-3 tiles, tile sizes 0/3/4/8/256, "
                         "stored-row subsets, header records exact/extra/missing/none/two buckets, rowInfos and tiles in or out of order, short offset tables, narrow and wide rows); "
                         "documents: core fixtures + seeded sample (quick) or all fixtures (thorough) + 4 API-built documents, each rewritten by every single transformation, "
                         "random compositions and the composition of all eight; non-trivial = at least one transformation changed the file; evaluations count cells compared")
    cr = common.coq_check_props("C06", clean=not ctx.quick)
    ctx.coq, ctx.theorems = cr, cr.theorems
    if not cr.ok:
        ctx.obligation_errors += cr.errors
    if not ctx.quick:
        ctx.extra["coqchk"] = common.coqchk("C06")
        if ctx.extra["coqchk"]["exit"] != 0:
            ctx.obligation_errors.append("coqchk failed: " + ctx.extra["coqchk"]["tail"])
    try:
        exe = common.build_model(ENTRY)
    except RuntimeError as e:
        ctx.obligation_errors.append(str(e))
        exe = None
    fx = probe_fixes()
    ctx.extra["explanation"] = f"tree under test: datalist repair {'present' if fx['datalist'] else 'ABSENT'}, row map repair {'present' if fx['rowmap'] else 'ABSENT'}"
    ctx.notes.append(ctx.extra["explanation"])
    direct_streams(ctx, exe, fx)
    metamorphic(ctx, exe, fx, plan(ctx))
    return common.finish(ctx, search)


def search(ctx: Ctx, broken) -> list:
    """Witness search: the same metamorphic relation and direct oracles on a denser stream."""
    found = []
    rng = random.Random(ctx.seed + 1)
    for _ in range(20000):
        entries, _ = gen_entries(rng)
        d = oracle_entries(entries)
        if d:
            found.append((SIG["perm"], {"op": "datalist", "entries": entries}, d))
            break
    for _ in range(20000):
        L, _, _ = gen_layout(rng)
        d = oracle_layout(L)
        if d:
            found.append((SIG["headers"], {"op": "rowmap", "layout": layout_json(L)}, d))
            break
    for _ in range(50000):
        ncols = rng.randrange(1, 8)
        wide = rng.random() < 0.5
        o, st = gen_row(rng, ncols, wide)
        d = oracle_partition(st, o, ncols, wide)
        if d:
            found.append(("row-slices-not-a-partition", {"op": "partition", "wide": wide, "ncols": ncols, "offsets": o.hex(), "storage": st.hex()}, d))
            break
    tmp = ctx.tmp
    srcs = [f for f in usable_fixtures() if f not in SLOW_FIXTURES] + ["api:" + n for n in API_DOCS]
    rng.shuffle(srcs)
    seen = set()
    for src in srcs[:25]:
        try:
            orig = Reading(source_path(tmp, src))
        except Exception:  # noqa: BLE001
            continue
        for k in SINGLE_KINDS:
            if k in seen:
                continue
            for _ in range(3):
                seed = rng.randrange(1 << 30)
                try:
                    _, _, pack, fail, dst = run_case(tmp, src, [k], seed, orig)
                except Exception:  # noqa: BLE001
                    continue
                _rm(dst)
                if fail:
                    seen.add(k)
                    found.append((sig_of(k), {"src": src, "kinds": [k], "seed": seed}, f"{src} rewritten by {k}: {fail}"))
                    break
    return found


def replay(path: str) -> int:
    d = json.loads(open(path).read())
    if d.get("kind") != "failing-input":
        print("replay: not a failing-input record (broken obligation / correspondence): re-run ./check C06")
        return 1
    case = d["case"]
    msg = None
    if case.get("op") == "datalist":
        msg = oracle_entries([tuple(e) for e in case["entries"]])
    elif case.get("op") == "rowmap":
        msg = oracle_layout(layout_unjson(case["layout"]))
    elif case.get("op") == "partition":
        msg = oracle_partition(bytes.fromhex(case["storage"]), bytes.fromhex(case["offsets"]), case["ncols"], case["wide"])
    elif case.get("op") == "split":
        from numbers_parser.model import get_storage_buffers_for_row
        o, s, wide, nc = bytes.fromhex(case["offsets"]), bytes.fromhex(case["storage"]), case["wide"], case["ncols"]
        offs = array("h", o).tolist()
        alt = array("h", [x if x < 0 else (x * 4 if wide else x // 4) for x in offs]).tobytes()
        a, b = get_storage_buffers_for_row(s, o, nc, wide), get_storage_buffers_for_row(s, alt, nc, not wide)
        msg = None if a == b else f"{a} vs {b}"
    else:
        import tempfile
        tmp = Path(tempfile.mkdtemp(prefix="verif_C06_replay_"))
        try:
            if case.get("kinds"):
                orig, new, pack, msg, dst = run_case(tmp, case["src"], case["kinds"], case["seed"])
                if msg is None and new is not None and "key" in case:
                    msg = _miss_msg(new, case)
                if msg is None and new is not None and d.get("signature") == "layout-dependent:edit-after-read":
                    sub = common.Ctx("C06", "quick", 0, LEVEL)
                    try:
                        edit_after_read(sub, source_path(tmp, case["src"]), dst, case)
                        if sub.oracle_failures:
                            msg = sub.oracle_failures[0][2]
                    finally:
                        sub.cleanup()
                if msg is None and new is not None:
                    m = new.doc._model
                    for (sn, tn, t) in new.tables:
                        msg = msg or declared_rows_oracle(m, t._table_id, table_layout(m, t._table_id))
            else:
                rd = Reading(source_path(tmp, case["src"]))
                msg = _miss_msg(rd, case) if "key" in case else None
                if msg is None:
                    m = rd.doc._model
                    for (sn, tn, t) in rd.tables:
                        msg = msg or declared_rows_oracle(m, t._table_id, table_layout(m, t._table_id))
        finally:
            shutil.rmtree(tmp, ignore_errors=True)
    if msg:
        print(f"replay: still failing: {msg}")
        print(f"VIOLATION property=C06 replay={path}")
        return 1
    print("replay: case passes on the current tree")
    return 0


def _miss_msg(rd: Reading, case):
    m = rd.doc._model
    for (list_name, tid, key) in rd.lookup_misses:
        try:
            dl = m.objects[getattr(m.objects[tid].base_data_store, list_name).identifier]
        except Exception:  # noqa: BLE001
            continue
        if any(e.key == key for e in dl.entries):
            return f"{list_name}: key {key} carried by an entry but reported missing"
    return None
