"""C12 - merged regions are reported consistently, immediately and after reload.

Theorems: coq/Props/C12.v (Grid model: merge_cells, merge_ranges, save/reload of
the merge map).  Correspondence: lock-step histories with merges, writes,
structural edits and save/reopen against the extracted model.  Oracle
(implementation only): the picture the property describes, on the open
document and on the reopened file."""
from __future__ import annotations

import json
import warnings

from . import common, gridlib
from .common import Ctx

LEVEL = "proof"
ENTRY = "C03Entry"
warnings.filterwarnings("ignore")


def parse_dump(d):
    nr, nc, rows, rs = d.split(":")
    cells = {}
    for ri, row in enumerate(rows.split(";") if rows else []):
        for ci, cell in enumerate(row.split("/")):
            r, c, v, kind, attr = cell.split(".")
            cells[(ri, ci)] = {"v": None if v == "-" else v, "kind": kind, "attr": attr}
    ranges = sorted(tuple(int(x) for x in r.split("_")) for r in rs.split(";")) if rs else []
    return int(nr), int(nc), cells, ranges


def shift_rects(rects, op):
    """Expected rectangles after a structural edit strictly before / after each rectangle; None if it cuts through one."""
    k = op[0]
    out = []
    for (r0, c0, r1, c1) in rects:
        if k in ("AR", "DR"):
            n, s = op[2], op[3]
            if s is None:
                if k == "DR":
                    return None   # deleting at the end: only valid if below every rectangle (handled by caller via dims)
                out.append((r0, c0, r1, c1))
                continue
            if k == "AR":
                if s <= r0:
                    out.append((r0 + n, c0, r1 + n, c1))
                elif s > r1:
                    out.append((r0, c0, r1, c1))
                else:
                    return None
            else:
                if s + n <= r0:
                    out.append((r0 - n, c0, r1 - n, c1))
                elif s > r1:
                    out.append((r0, c0, r1, c1))
                else:
                    return None
        else:
            n, s = op[2], op[3]
            if s is None:
                if k == "DC":
                    return None
                out.append((r0, c0, r1, c1))
                continue
            if k == "AC":
                if s <= c0:
                    out.append((r0, c0 + n, r1, c1 + n))
                elif s > c1:
                    out.append((r0, c0, r1, c1))
                else:
                    return None
            else:
                if s + n <= c0:
                    out.append((r0, c0 - n, r1, c1 - n))
                elif s > c1:
                    out.append((r0, c0, r1, c1))
                else:
                    return None
    return out


def check_picture(ctx: Ctx, h, k, dump, rects, where, edited):
    """The picture C12 describes for the expected rectangles `rects`."""
    nr, nc, cells, ranges = parse_dump(dump)
    case = {"history": [list(o) for o in h[:k + 1]]}
    def fail(kind, detail):
        # any deviation once rows/columns moved relative to a rectangle is one defect class
        ctx.oracle_fail(f"merge-not-shifted:{where}" if edited else f"{kind}:{where}", case, detail)

    if ranges != sorted(rects):
        fail("merge-ranges", f"merge_ranges {ranges} != expected {sorted(rects)}")
        return
    for (r0, c0, r1, c1) in rects:
        a = cells.get((r0, c0))
        if a is None or a["attr"] != f"A{r1 - r0 + 1}x{c1 - c0 + 1}" or a["kind"] != "c":
            fail("anchor", f"top-left {(r0, c0)} of {(r0, c0, r1, c1)} reports {a}")
            return
        for r in range(r0, r1 + 1):
            for c in range(c0, c1 + 1):
                if (r, c) == (r0, c0):
                    continue
                x = cells.get((r, c))
                if x is None or x["kind"] != "m" or x["v"] is not None or x["attr"] != f"R{r0}_{c0}_{r1}_{c1}":
                    fail("placeholder", f"cell {(r, c)} of {(r0, c0, r1, c1)} reports {x}")
                    return
    inside = {(r, c) for (r0, c0, r1, c1) in rects for r in range(r0, r1 + 1) for c in range(c0, c1 + 1)}
    for pos, x in cells.items():
        if pos not in inside and (x["kind"] != "c" or x["attr"] != "P"):
            fail("outside-touched", f"cell {pos} outside every rectangle reports {x}")
            return


def oracle_history(ctx: Ctx, h, iouts):
    """Per table of the history: the picture of exactly the rectangles merged in THAT table (a table in which nothing was
    merged - e.g. one added after another table's merges were saved - has no merged cell at all)."""
    rects_of: dict = {}
    edited_of: dict = {}
    skip_of: dict = {}
    ntab = 0
    for k, (op, out) in enumerate(zip(h, iouts)):
        if op[0] == "N":
            rects_of[ntab], edited_of[ntab], skip_of[ntab] = [], False, False
            ntab += 1
            continue
        ti = op[1] if len(op) > 1 and isinstance(op[1], int) else 0
        if skip_of.get(ti):
            if ntab == 1:
                return
            continue
        rects = rects_of.setdefault(ti, [])
        if op[0] == "M":
            if out != "ok":
                ctx.oracle_fail("merge-refused", {"history": [list(o) for o in h[:k + 1]]}, f"{op} -> {out}")
                return
            rects.append(tuple(op[2:6]))
        elif op[0] in ("AR", "AC", "DR", "DC") and rects:
            new = shift_rects(rects, op)
            if new is None:
                skip_of[ti] = True   # the edit cuts through a rectangle: no defined expectation
                continue
            if new != rects:
                edited_of[ti] = True
            rects_of[ti] = new
        elif op[0] in ("D", "RO"):
            ctx.count("oracle-picture")
            if out.startswith("!"):
                ctx.oracle_fail("dump-raises", {"history": [list(o) for o in h[:k + 1]]}, f"{op} -> {out}")
                return
            check_picture(ctx, h, k, out, rects, "reopened" if op[0] == "RO" else "open", edited_of.get(ti, False))


def gen_multi_history(rng):
    """Two or three tables; merges in some of them; tables added before and AFTER a save that wrote a merge map;
    every table is looked at on the open document and after save + reopen."""
    nr, nc = rng.randrange(4, 8), rng.randrange(4, 8)
    ops = [("N", nr, nc)]
    dims = [(nr, nc)]
    if rng.random() < 0.5:
        ops.append(("N", 5, 5))
        dims.append((5, 5))
    for (r0, c0, r1, c1) in disjoint_rects(rng, nr, nc, rng.choice([1, 2])):
        ops.append(("M", 0, r0, c0, r1, c1))
    ops.append(("RO", 0) if rng.random() < 0.7 else ("D", 0))
    for _ in range(rng.choice([1, 2])):
        a, b = rng.randrange(3, 8), rng.randrange(3, 8)
        ops.append(("N", a, b))
        dims.append((a, b))
        ops.append(("D", len(dims) - 1))
    for ti in range(1, len(dims)):
        if rng.random() < 0.6:
            for (r0, c0, r1, c1) in disjoint_rects(rng, dims[ti][0], dims[ti][1], 1):
                ops.append(("M", ti, r0, c0, r1, c1))
        ops.append(("W", ti, 0, 0, 40 + ti))
    for ti in range(len(dims)):
        ops.append(("D", ti))
    for ti in range(len(dims)):
        ops.append(("RO", ti))
    return ops


def fixture_merge_oracle(ctx: Ctx):
    """Documents written by Numbers that already contain merged ranges: merging one more rectangle must show the
    old and the new ranges, on the open document and after save + reopen."""
    from numbers_parser import Document
    from numbers_parser.xrefs import xl_cell_to_rowcol, xl_range
    data = common.REPO / "tests" / "data"
    names = ["test-9.numbers", "test-4.numbers", "issue-77.numbers", "test-titles.numbers", "issue-59.numbers"] if ctx.quick else sorted(p.name for p in data.glob("*.numbers"))
    done = 0
    for name in names:
        p = data / name
        if not p.exists():
            continue
        # only documents of a supported version (the library warns about the others; one of them, issue-18, cannot be
        # saved at all, merged or not - that is outside this property)
        from .c02 import open_doc
        doc, _why = open_doc(p)
        if doc is None:
            continue
        try:
            tables = [(si, ti, t) for si, sh in enumerate(doc.sheets) for ti, t in enumerate(sh.tables)]
        except Exception:  # noqa: BLE001
            continue
        for si, ti, t in tables:
            try:
                old = list(t.merge_ranges)
            except Exception:  # noqa: BLE001
                continue
            if not old or t.num_rows < 2 or t.num_cols < 2:
                continue
            used = set()
            for rg in old:
                a, b = rg.split(":") if ":" in rg else (rg, rg)
                (r0, c0), (r1, c1) = xl_cell_to_rowcol(a), xl_cell_to_rowcol(b)
                used |= {(r, c) for r in range(r0, r1 + 1) for c in range(c0, c1 + 1)}
            spot = next(((r, c) for r in range(t.num_rows - 1) for c in range(t.num_cols - 1)
                         if not ({(r, c), (r + 1, c), (r, c + 1), (r + 1, c + 1)} & used)), None)
            if spot is None:
                continue
            new = xl_range(spot[0], spot[1], spot[0] + 1, spot[1] + 1)
            case = {"fixture": name, "sheet": si, "table": ti, "merge": new}
            ctx.count("oracle-fixture-merge")
            ctx.nontrivial(("fixture-merge", name, si, ti))
            try:
                t.merge_cells(new)
                want = sorted(old + [new])
                if sorted(t.merge_ranges) != want:
                    ctx.oracle_fail("fixture-merge:open", case, f"{name}: merge_ranges {sorted(t.merge_ranges)} != {want}")
                out = ctx.tmp / f"fm_{done}.numbers"
                doc.save(out)
                t2 = Document(out).sheets[si].tables[ti]
                got = sorted(t2.merge_ranges)
                if got != want:
                    ctx.oracle_fail("fixture-merge:reopened", case, f"{name}: after save and reopen merge_ranges {got} != {want}")
                else:
                    r, c = spot
                    kinds = [type(t2.cell(r + dr, c + dc)).__name__ for dr in (0, 1) for dc in (0, 1)]
                    if kinds[1:] != ["MergedCell"] * 3 or not t2.cell(r, c).is_merged:
                        ctx.oracle_fail("fixture-merge:reopened", case, f"{name}: cells of {new} after reopen are {kinds}")
                out.unlink(missing_ok=True)
            except Exception as e:  # noqa: BLE001
                ctx.oracle_fail("fixture-merge:raises", case, f"{name}: {type(e).__name__}: {e}")
            done += 1
            break   # one table per document is enough; the document has been modified
    ctx.dist("fixture_documents_with_merges", done)


def disjoint_rects(rng, nr, nc, k):
    rects = []
    for _ in range(30):
        if len(rects) >= k:
            break
        r0, c0 = rng.randrange(nr), rng.randrange(nc)
        r1, c1 = rng.randrange(r0, min(nr, r0 + 3)), rng.randrange(c0, min(nc, c0 + 3))
        if (r0, c0) == (r1, c1):
            continue
        if all(r1 < a or r0 > c or c1 < b or c0 > d for (a, b, c, d) in rects):
            rects.append((r0, c0, r1, c1))
    return rects


def gen_history(rng, with_edits):
    nr, nc = rng.randrange(3, 8), rng.randrange(3, 8)
    ops = [("N", nr, nc)]
    v = 10
    for _ in range(rng.randrange(0, 6)):
        v += 1
        ops.append(("W", 0, rng.randrange(nr), rng.randrange(nc), v))
    rects = disjoint_rects(rng, nr, nc, rng.choice([1, 1, 2, 3]))
    for (r0, c0, r1, c1) in rects:
        ops.append(("M", 0, r0, c0, r1, c1))
        if rng.random() < 0.3:
            ops.append(("RO", 0))
    inside = {(r, c) for (r0, c0, r1, c1) in rects for r in range(r0, r1 + 1) for c in range(c0, c1 + 1)}
    for _ in range(rng.randrange(0, 4)):   # writes outside the rectangles
        r, c = rng.randrange(nr), rng.randrange(nc)
        if (r, c) not in inside:
            v += 1
            ops.append(("W", 0, r, c, v))
    if with_edits and rects:
        for _ in range(rng.randrange(1, 3)):
            k = rng.choice(["AR", "AC", "DR", "DC"])
            ext = nr if k in ("AR", "DR") else nc
            n = 1
            if k in ("AR", "AC"):
                s = rng.choice([0, ext - 1, rng.randrange(ext), None])
                ops.append((k, 0, n, s, None))
                if k == "AR":
                    nr += n
                else:
                    nc += n
            else:
                if ext < 3:
                    continue
                s = rng.randrange(ext)
                ops.append((k, 0, n, s))
                if k == "DR":
                    nr -= n
                else:
                    nc -= n
            if rng.random() < 0.5:
                ops.append(("RO", 0))
    ops.append(("RO", 0))
    return ops


def run(ctx: Ctx) -> int:
    rng = ctx.rng
    common.standard_trusted_base(ctx, [
        "values are abstract tokens; save/reload of cell records is C01/C04's subject, the Grid model carries the merge map packing (col << 16 | row) and the reload of placeholders",
        "merge ranges are given to the implementation as A1 text built with xl_range (C10)",
    ])
    ctx.assumptions += ["rectangles are pairwise disjoint and inside the table; structural edits that cut through a rectangle have no expectation in the oracle (they are still compared in lock-step with the model)"]
    ctx.extra["rule"] = ("histories: table 3..7 x 3..7, writes, 1-3 disjoint rectangles (1xN, Nx1, NxM, touching, at edges), writes outside, optional row/column insertions/deletions "
                         "before/inside/after, save/reopen at random points; every step dumped (class, value, is_merged/size/rect of every cell, merge_ranges). non-trivial = history agreed; distinct by history")
    cr = common.coq_check_props("C12", clean=not ctx.quick)
    ctx.coq, ctx.theorems = cr, cr.theorems
    if not cr.ok:
        ctx.obligation_errors += cr.errors
    if not ctx.quick:
        ctx.extra["coqchk"] = common.coqchk("C12")
        if ctx.extra["coqchk"]["exit"] != 0:
            ctx.obligation_errors.append("coqchk failed: " + ctx.extra["coqchk"]["tail"])
    try:
        exe = common.build_model(ENTRY)
    except RuntimeError as e:
        ctx.obligation_errors.append(str(e))
        exe = None
    n1, n2 = (60, 60) if ctx.quick else (600, 600)
    plain = [gridlib.with_dumps(gen_history(rng, False), 1) for _ in range(n1)]
    edits = [gridlib.with_dumps(gen_history(rng, True), 1) for _ in range(n2)]
    # fixed corner cases: whole-table merge, single row/column strips, touching rectangles
    fixed = [
        [("N", 3, 3), ("M", 0, 0, 0, 2, 2), ("RO", 0)],
        [("N", 4, 4), ("M", 0, 0, 0, 0, 3), ("M", 0, 1, 0, 3, 0), ("M", 0, 1, 1, 2, 2), ("RO", 0)],
        [("N", 4, 4), ("W", 0, 1, 1, 5), ("W", 0, 1, 2, 6), ("M", 0, 1, 1, 2, 2), ("RO", 0), ("W", 0, 0, 0, 7), ("RO", 0)],
        [("N", 5, 5), ("M", 0, 1, 1, 2, 2), ("AR", 0, 1, 0, None), ("RO", 0)],
        [("N", 5, 5), ("M", 0, 1, 1, 2, 2), ("AC", 0, 2, 0, None), ("RO", 0)],
        [("N", 5, 5), ("M", 0, 2, 2, 3, 3), ("DR", 0, 1, 0), ("RO", 0)],
        [("N", 5, 5), ("M", 0, 1, 1, 2, 2), ("AR", 0, 1, 4, None), ("DC", 0, 1, 4), ("RO", 0)],
    ]
    # ranges whose corners order differently as text and as coordinates (row 9 -> 10, column Z -> AA)
    fixed += [[("N", 12, 3), ("M", 0, 8, 0, 9, 0), ("M", 0, 4, 2, 11, 2), ("W", 0, 8, 0, 5), ("RO", 0)],
              [("N", 3, 28), ("M", 0, 1, 25, 2, 26), ("M", 0, 0, 8, 0, 9), ("RO", 0)],
              [("N", 101, 2), ("M", 0, 98, 1, 99, 1), ("RO", 0)]]
    fixed = [gridlib.with_dumps(h, 1) for h in fixed]
    ctx.dist("histories:merge-only", len(plain))
    ctx.dist("histories:merge+structural-edits", len(edits))
    multi = [[("N", 6, 6), ("M", 0, 1, 1, 2, 2), ("W", 0, 1, 1, 7), ("RO", 0), ("N", 6, 6), ("D", 1), ("RO", 1), ("RO", 0)]]
    multi += [gen_multi_history(rng) for _ in range(12 if ctx.quick else 150)]
    ctx.dist("histories:several-tables", len(multi))
    for name, hs in (("fixed", fixed), ("merge", plain), ("merge-edits", edits), ("merge-multi", multi)):
        if exe:
            res = gridlib.lockstep(ctx, exe, name, hs)
        else:
            res = [(h, None, gridlib.run_impl(ctx.tmp, f"{name}{i}", h)) for i, h in enumerate(hs)]
        for h, _, iouts in res:
            oracle_history(ctx, h, iouts)
    fixture_merge_oracle(ctx)
    # a tall table: anchors on either side of a tile boundary and at rows whose index needs 13 and 16 bits
    tall = [("N", 2, 2), ("W", 0, 33000, 1, 5), ("M", 0, 4096, 0, 4097, 1), ("M", 0, 32768, 0, 32769, 1), ("M", 0, 255, 0, 256, 1),
            ("M", 0, 8191, 0, 8192, 1), ("D", 0), ("RO", 0)]
    oracle_history(ctx, tall, gridlib.run_impl(ctx.tmp, "tall", tall))
    if not ctx.quick:
        # the 16-bit packing of the merge map: an anchor at row 65536
        h = [("N", 2, 2), ("W", 0, 65540, 1, 5), ("M", 0, 65536, 0, 65537, 1), ("RO", 0)]
        io = gridlib.run_impl(ctx.tmp, "big", h)
        nr, nc, cells, ranges = parse_dump(io[-1]) if not io[-1].startswith("!") else (0, 0, {}, [])
        ctx.count("oracle-picture")
        if ranges != [(65536, 0, 65537, 1)]:
            ctx.oracle_fail("merge-beyond-row-65535:reopened", {"history": [list(o) for o in h]},
                            f"merge anchored at row 65536 reloads as {ranges if ranges else io[-1][:80]}")
    return common.finish(ctx, search)


def search(ctx: Ctx, broken) -> list:
    sub = common.Ctx(ctx.prop, ctx.tier, ctx.seed + 1, LEVEL)
    hs = []
    for stream, case, m, i in ctx.disagreements:
        h = [tuple(o) for o in case.get("history", [])]
        if h:
            hs.append(h + [("D", 0), ("RO", 0)])
    for _ in range(200):
        hs.append(gridlib.with_dumps(gen_history(ctx.rng, False), 1))
    for idx, h in enumerate(hs):
        oracle_history(sub, h, gridlib.run_impl(sub.tmp, f"s{idx}", h))
    out = list(sub.oracle_failures)
    sub.cleanup()
    return out


def replay(path: str) -> int:
    d = json.loads(open(path).read())
    if d.get("kind") == "failing-input":
        h = [tuple(o) for o in d["case"]["history"]]
        sub = common.Ctx("C12", "quick", 0, LEVEL)
        oracle_history(sub, h, gridlib.run_impl(sub.tmp, "replay", h))
        fails = list(sub.oracle_failures)
        sub.cleanup()
        if fails:
            print(f"replay: still failing: {fails[0][2]}")
            print(f"VIOLATION property=C12 replay={path}")
            return 1
        print("replay: history passes on the current tree")
        return 0
    print("replay: no failing input was recorded; broken obligations/correspondences were:")
    print(json.dumps(d.get("broken"), indent=1)[:4000])
    return 1
