"""C14 - Displayed dates and durations agree with the stored value.

Theorems: coq/Props/C14.v over coq/Model/DateFormat.v (DATETIME_FIELD_MAP, strftime subset, proleptic
Gregorian calendar, the format scanner, the validator) and coq/Model/Duration.v (_duration_format,
_auto_units, _unit_format over exact integer milliseconds).

Correspondence (extracted model vs implementation, same inputs):
  field      _decode_date_format_field for every directive x the whole domain of the field it depends on
  strftime   datetime.strftime for every conversion the map uses (the trusted strftime table, enumerated)
  calendar   toordinal / weekday / tm_yday / fromordinal
  format     _decode_date_format on compositions of directives, literals, quoted text, '' and on character soup
  validate   Formatting(type=DATETIME, date_time_format=...) accept / TypeError
  real       Table.set_cell_formatting(r, c, "datetime", date_time_format=...) on a new Document(), save, reopen,
             Cell.formatted_value (the in-memory cell returns str(value); only the reopened cell applies the format)
  duration   Cell._duration_format on a stub cell: ms values x all largest/smallest pairs x 3 styles x automatic
  duration-real  cells of tests/data/duration_112.numbers (one per stored format) with the stored seconds replaced,
             through Cell.formatted_value
The implementation computes durations in binary64 seconds; the model and the theorems are over exact
milliseconds and these streams are what shows that the float path agrees on millisecond-resolution values.

Oracle (implementation only): the documented value of each directive computed independently from the datetime
(docs/api/datetime.rst), concatenation of parts, validator acceptance, and unit-by-unit read-back of durations."""
from __future__ import annotations

import json
import re
import warnings
from datetime import date, datetime, timedelta

from . import common
from .common import Ctx, cps

LEVEL = "proof"
ENTRY = "C14Entry"

KEYS = ["a", "EEEE", "EEE", "yyyy", "yy", "y", "MMMM", "MMM", "MM", "M", "d", "dd", "DDD", "DD", "D", "HH", "H",
        "hh", "h", "k", "kk", "K", "KK", "mm", "m", "ss", "s", "W", "ww", "G", "F", "S", "SS", "SSS", "SSSS", "SSSSS"]
HOUR_KEYS = ["a", "HH", "H", "hh", "h", "k", "kk", "K", "KK"]
MIN_KEYS = ["mm", "m"]
SEC_KEYS = ["ss", "s"]
DATE_KEYS = ["EEEE", "EEE", "MMMM", "MMM", "MM", "M", "d", "dd", "DDD", "DD", "D", "W", "ww", "F", "G"]
YEAR_KEYS = ["yyyy", "yy", "y"]
MICRO_KEYS = ["S", "SS", "SSS", "SSSS", "SSSSS"]
STRF_CODES = ["%p", "%A", "%a", "%Y", "%y", "%B", "%b", "%m", "%-m", "%d", "%-d", "%H", "%-H", "%I", "%-I", "%S", "%W",
              "%-y", "%-S", "%-W", "AD"]

UNITS = [1, 2, 4, 8, 16, 32]
UNIT_MS = {1: 604800000, 2: 86400000, 4: 3600000, 8: 60000, 16: 1000, 32: 1}
PAIRS = [(l, s) for l in UNITS for s in UNITS if l <= s]
TEN_YEARS_MS = 10 * 365 * 86400000 + 3 * 86400000


def impl():
    from numbers_parser import cell as C
    return C


# ---------------------------------------------------------------- implementation drivers
def dt_fields(t: datetime):
    return [t.year, t.month, t.day, t.hour, t.minute, t.second, t.microsecond]


def dt_req(t: datetime) -> str:
    return "\t".join(str(x) for x in dt_fields(t))


def mkdt(f) -> datetime:
    return datetime(*f)


def with_warnings(fn, *a):
    """-> (value, exception name, number of UnsupportedWarning)"""
    from numbers_parser.exceptions import UnsupportedWarning
    with warnings.catch_warnings(record=True) as w:
        warnings.simplefilter("always")
        try:
            v, e = fn(*a), None
        except Exception as ex:  # noqa: BLE001
            v, e = None, type(ex).__name__
    return v, e, sum(1 for x in w if issubclass(x.category, UnsupportedWarning))


def impl_field(C, key, t):
    v, e, nw = with_warnings(C._decode_date_format_field, key, t)
    return "!" + e if e else f"{cps(v)}\t{0 if nw else 1}"


def impl_format(C, fmt, t):
    v, e, nw = with_warnings(C._decode_date_format, fmt, t)
    return "!" + e if e else f"{cps(v)}\t{nw}"


def impl_validate(C, fmt):
    from numbers_parser.cell import Formatting, FormattingType
    try:
        Formatting(type=FormattingType.DATETIME, date_time_format=fmt)
        return "1"
    except TypeError:
        return "0"


class _Fmt:
    def __init__(self, style, largest, smallest, auto):
        self.duration_style = style
        self.duration_unit_largest = largest
        self.duration_unit_smallest = smallest
        self.use_automatic_duration_units = auto


class _Model:
    def __init__(self, fmt):
        self.fmt = fmt

    def table_format(self, table_id, key):
        return self.fmt


class _StubCell:
    row = 0
    col = 0
    _table_id = 0
    _duration_format_id = 1


def impl_duration(C, ms, style, largest, smallest, auto):
    c = _StubCell()
    c._model = _Model(_Fmt(style, largest, smallest, bool(auto)))
    c._double = timedelta(milliseconds=ms).total_seconds()
    try:
        return C.Cell._duration_format(c)
    except Exception as e:  # noqa: BLE001
        return "!" + type(e).__name__


# ---------------------------------------------------------------- documented meaning, computed independently
DAY_NAMES = ["Monday", "Tuesday", "Wednesday", "Thursday", "Friday", "Saturday", "Sunday"]
MONTH_NAMES = ["January", "February", "March", "April", "May", "June", "July", "August", "September", "October",
               "November", "December"]
DOC_RANGE = {"yy": (0, 99), "y": (0, 99), "MM": (1, 12), "M": (1, 12), "d": (1, 31), "dd": (1, 31), "DDD": (1, 366),
             "DD": (1, 366), "D": (1, 366), "HH": (0, 23), "H": (0, 23), "hh": (1, 12), "h": (1, 12), "k": (1, 24),
             "kk": (1, 24), "K": (0, 11), "KK": (0, 11), "mm": (0, 59), "m": (0, 59), "ss": (0, 59), "s": (0, 59),
             "W": (0, 5), "ww": (0, 53), "F": (1, 5), "S": (0, 9), "SS": (0, 99), "SSS": (0, 999), "SSSS": (0, 9999),
             "SSSSS": (0, 99999)}


def wday(y, m, d):
    """Monday = 0, from the day count since 0001-01-01 (a Monday)."""
    return (date(y, m, d) - date(1, 1, 1)).days % 7


def doc_render(key: str, t: datetime) -> str:
    """The string docs/api/datetime.rst documents for directive `key` at `t` (range and padding of the table)."""
    y, mo, d, h = t.year, t.month, t.day, t.hour
    if key == "a":
        return "am" if h < 12 else "pm"
    if key == "EEEE":
        return DAY_NAMES[wday(y, mo, d)]
    if key == "EEE":
        return DAY_NAMES[wday(y, mo, d)][:3]
    if key == "yyyy":
        return "%d" % y
    if key == "yy":
        return "%02d" % (y % 100)
    if key == "y":
        return "%d" % (y % 100)
    if key == "MMMM":
        return MONTH_NAMES[mo - 1]
    if key == "MMM":
        return MONTH_NAMES[mo - 1][:3]
    if key == "MM":
        return "%02d" % mo
    if key == "M":
        return "%d" % mo
    if key == "d":
        return "%d" % d
    if key == "dd":
        return "%02d" % d
    if key in ("DDD", "DD", "D"):
        n = (date(y, mo, d) - date(y, 1, 1)).days + 1
        return "%0*d" % (len(key), n)
    if key == "HH":
        return "%02d" % h
    if key == "H":
        return "%d" % h
    if key in ("hh", "h"):
        v = [12, 1, 2, 3, 4, 5, 6, 7, 8, 9, 10, 11][h % 12]
        return "%0*d" % (len(key), v)
    if key in ("kk", "k"):
        v = 24 if h == 0 else h
        return "%0*d" % (len(key), v)
    if key in ("KK", "K"):
        v = h if h < 12 else h - 12
        return "%0*d" % (len(key), v)
    if key == "mm":
        return "%02d" % t.minute
    if key == "m":
        return "%d" % t.minute
    if key == "ss":
        return "%02d" % t.second
    if key == "s":
        return "%d" % t.second
    if key == "W":   # weeks of the month start on Monday, the first (possibly partial) week is 0
        return "%d" % sum(1 for k in range(2, d + 1) if wday(y, mo, k) == 0)
    if key == "ww":  # Mondays so far this year; documented examples "0, 1, ... 53" (no padding)
        n = (date(y, mo, d) - date(y, 1, 1)).days
        return "%d" % sum(1 for k in range(n + 1) if (date(y, 1, 1) + timedelta(days=k)).weekday() == 0)
    if key == "G":
        return "AD"
    if key == "F":
        w = wday(y, mo, d)
        return "%d" % sum(1 for k in range(1, d + 1) if wday(y, mo, k) == w)
    if key in MICRO_KEYS:
        return ("%06d" % t.microsecond)[:len(key)]
    raise KeyError(key)


def oracle_field(C, key, t):
    got, e, nw = with_warnings(C._decode_date_format_field, key, t)
    if e or nw:
        return (f"directive-{key}", f"_decode_date_format_field({key!r}, {t!r}) raised {e} / warned {nw}")
    exp = doc_render(key, t)
    if got == exp:
        if key in DOC_RANGE and not (DOC_RANGE[key][0] <= int(got) <= DOC_RANGE[key][1]):
            return (f"directive-{key}", f"{key} at {t!r}: {got!r} outside the documented range {DOC_RANGE[key]}")
        return None
    detail = f"directive {key!r} at {t!r}: displayed {got!r}, documented meaning gives {exp!r}"
    if key == "y" and got == str(t.year) and t.year >= 100:
        return ("y-prints-century", detail)
    if key == "ww" and len(exp) == 1 and got == "0" + exp:
        return ("ww-zero-padded", detail)
    return (f"directive-{key}", detail)


# ---------------------------------------------------------------- formats as parts
def unparse(parts) -> str:
    out = []
    for kind, s in parts:
        if kind == "dir" or kind == "lit":
            out.append(s)
        elif kind == "quoted":
            out.append("'" + s.replace("'", "''") + "'")
        else:
            out.append("''")
    return "".join(out)


def separable(parts) -> bool:
    """The side conditions of format_concat (Props/C14.v)."""
    for i, (kind, s) in enumerate(parts):
        nxt = parts[i + 1][0] if i + 1 < len(parts) else None
        if kind == "dir" and nxt == "dir":
            return False
        if kind == "lit" and (s == "" or any((c.isascii() and c.isalpha()) or c == "'" for c in s)):
            return False
        if kind == "quoted" and (s == "" or s[0] == "'" or nxt in ("quoted", "quote")):
            return False
    return True


def oracle_format(C, parts, t):
    fmt = unparse(parts)
    got, e, nw = with_warnings(C._decode_date_format, fmt, t)
    exp = "".join(C._decode_date_format_field(s, t) if kind == "dir" else ("'" if kind == "quote" else s)
                  for kind, s in parts)
    if e is None and got == exp and nw == 0:
        return None
    detail = f"_decode_date_format({fmt!r}, {t!r}) = {got!r} ({nw} warnings, {e}); the parts render to {exp!r}"
    if any(k1 == "dir" and k2 == "quote" for (k1, _), (k2, _) in zip(parts, parts[1:])):
        return ("concat-doubled-quote-after-directive", detail)
    if any(kind == "lit" and any(c.isalpha() for c in s) for kind, s in parts):
        return ("concat-nonascii-letter-literal", detail)
    return ("format-concat", detail)


def oracle_validate(C, parts):
    fmt = unparse(parts)
    if impl_validate(C, fmt) == "1":
        return None
    detail = f"Formatting(type=DATETIME, date_time_format={fmt!r}) raises TypeError although every part is a directive or literal text"
    if any(kind == "quoted" and any(c.isascii() and c.isalpha() for c in s) for kind, s in parts):
        return ("validator-rejects-quoted-literal", detail)
    return ("validator-rejects-valid-format", detail)


def oracle_validate_unknown(C, fmt):
    """A format with a run of letters outside quotes that is no directive must be rejected."""
    if impl_validate(C, fmt) == "0":
        return None
    v, e, nw = with_warnings(C._decode_date_format, fmt, datetime(2023, 5, 7, 10, 4, 5))
    if nw or e:
        return ("validator-accepts-unrenderable", f"Formatting accepts {fmt!r} but rendering it warns/raises ({nw}, {e}) -> {v!r}")
    return None


# ---------------------------------------------------------------- durations: read back unit by unit
SHORT_LABEL = {"w": 1, "d": 2, "h": 4, "m": 8, "s": 16, "ms": 32}
LONG_LABEL = {"week": 1, "day": 2, "hour": 4, "minute": 8, "second": 16, "millisecond": 32}


def read_duration(text: str, style: int, largest: int, smallest: int):
    """-> list of (unit, value) or raises ValueError when the text is not a well-formed display for the units."""
    shown = [u for u in UNITS if largest <= u <= smallest]
    if style == 0:
        if smallest == 32 and len(shown) > 1:
            m = re.fullmatch(r"(.*)\.(\d{3})", text)
            if not m:
                raise ValueError("no .mmm millisecond part")
            comps = m.group(1).split(":") + [m.group(2)]
        else:
            comps = text.split(":")
        if len(comps) != len(shown) or not all(re.fullmatch(r"\d+", c) for c in comps):
            raise ValueError(f"{len(comps)} components for {len(shown)} units")
        for u, c in list(zip(shown, comps))[1:]:
            if u in (8, 16) and len(c) != 2:
                raise ValueError(f"unit {u} not shown with two digits")
        for u, c in zip(shown, comps):
            if c != "0" and c.startswith("0") and not (u in (8, 16) and len(c) == 2) and not (u == 32 and len(c) == 3):
                raise ValueError(f"unexpected leading zero in {c}")
        return [(u, int(c)) for u, c in zip(shown, comps)]
    toks = text.split(" ")
    out = []
    if style == 1:
        for tk in toks:
            m = re.fullmatch(r"(\d+)(ms|w|d|h|m|s)", tk)
            if not m:
                raise ValueError(f"bad token {tk!r}")
            out.append((SHORT_LABEL[m.group(2)], int(m.group(1))))
    else:
        if len(toks) % 2:
            raise ValueError("odd number of words")
        for v, lab in zip(toks[::2], toks[1::2]):
            m = re.fullmatch(r"(week|day|hour|minute|second|millisecond)(s?)", lab)
            if not m or not re.fullmatch(r"\d+", v):
                raise ValueError(f"bad component {v!r} {lab!r}")
            if (m.group(2) == "") != (int(v) == 1):
                raise ValueError(f"plural of {v} {lab}")
            out.append((LONG_LABEL[m.group(1)], int(v)))
    if [u for u, _ in out] != shown:
        raise ValueError(f"units shown {[u for u, _ in out]} expected {shown}")
    return out


def expected_auto(ms, stored_smallest):
    if ms == 0:
        return 2, 2
    largest = next((u for u in UNITS if ms >= UNIT_MS[u]), 32)
    smallest = next((u for u in reversed(UNITS[1:]) if ms % UNIT_MS[u] == 0 and ms % UNIT_MS[u >> 1] != 0), None)
    if ms % 1000:
        smallest = 32
    elif smallest is None:       # a whole number of weeks: the stored smallest unit is kept
        smallest = stored_smallest
    return max(smallest, largest), largest


def oracle_duration(C, ms, style, largest, smallest, auto):
    text = impl_duration(C, ms, style, largest, smallest, auto)
    what = f"duration {ms} ms style={style} largest={largest} smallest={smallest} auto={auto} displayed {text!r}"
    if text.startswith("!"):
        return ("duration-raises", what)
    if auto:
        smallest, largest = expected_auto(ms, smallest)
    try:
        comps = read_duration(text, style, largest, smallest)
    except ValueError as e:
        return ("duration-auto-units" if auto else "duration-shape", f"{what}: {e}")
    total = sum(UNIT_MS[u] * v for u, v in comps)
    want = ms - ms % UNIT_MS[smallest]
    if total != want:
        return ("duration-readback", f"{what}: reads back as {total} ms, expected {want} ms")
    for (u, v), nxt in zip(comps[1:], comps):
        if v * UNIT_MS[u] >= UNIT_MS[nxt[0]]:
            return ("duration-readback", f"{what}: component {v} of unit {u} overflows into the next unit")
    if auto and ms and total != ms:
        return ("duration-auto-units", f"{what}: automatic units lose {ms - total} ms")
    return None


# ---------------------------------------------------------------- generators
def all_days(year):
    n0 = date(year, 1, 1).toordinal()
    n1 = date(year, 12, 31).toordinal()
    for n in range(n0, n1 + 1):
        yield date.fromordinal(n)


def field_cases(ctx: Ctx, dense=False):
    """(key, datetime) over the whole domain of the field each directive depends on."""
    rng = ctx.rng
    cases = []
    base = datetime(2023, 1, 1)
    for h in range(24):
        for key in HOUR_KEYS:
            cases.append((key, base.replace(hour=h, minute=rng.randrange(60))))
    for m in range(60):
        for key in MIN_KEYS:
            cases.append((key, base.replace(hour=rng.randrange(24), minute=m)))
    for s in range(60):
        for key in SEC_KEYS:
            cases.append((key, base.replace(minute=rng.randrange(60), second=s)))
    # all days of a common and a leap year, every date directive
    for yr in (2023, 2024):
        for d in all_days(yr):
            for key in DATE_KEYS:
                cases.append((key, datetime(d.year, d.month, d.day, rng.randrange(24))))
    # the 14 calendars (28 consecutive years), century years, the ends of the range: week/day-of-year directives
    extra_years = list(range(2025, 2051)) + [1, 2, 4, 100, 400, 1582, 1600, 1700, 1900, 2000, 2100, 9996, 9999]
    step = 1 if (dense or not ctx.quick) else 3
    for yr in extra_years:
        for i, d in enumerate(all_days(yr)):
            if i % step == 0 or d.day <= 8 or d.month in (1, 2, 3, 12) and d.day >= 24:
                for key in ("EEEE", "EEE", "DDD", "DD", "D", "W", "ww", "F"):
                    cases.append((key, datetime(d.year, d.month, d.day)))
    years = range(1, 10000) if (dense or not ctx.quick) else list(range(1, 2200)) + list(range(2200, 10000, 7)) + [9999]
    for yr in years:
        for key in YEAR_KEYS:
            cases.append((key, datetime(yr, 1 + yr % 12, 1 + yr % 28)))
    micros = {0, 1, 5, 9, 10, 11, 99, 100, 101, 999, 1000, 1001, 9999, 10000, 10001, 99999, 100000, 100001,
              123456, 500000, 899999, 900000, 909090, 990000, 999000, 999900, 999990, 999999}
    micros |= {rng.randrange(1000000) for _ in range(600 if ctx.quick else 20000)}
    micros |= {10 ** k * j for k in range(6) for j in range(1, 10)}
    for us in sorted(micros):
        for key in MICRO_KEYS:
            cases.append((key, base.replace(microsecond=us)))
    return cases


LIT_CHARS = [" ", "-", "/", ":", ",", ".", "  ", "(", ")", "0", "9", "#", "·", "–", "年", "é", " @ "]
QUOTED = ["at", "o'clock", "Week", "x", "yyyy", "a b", "d", "T", "de", "'", "it's", "h''", "年", "a'", "'a", " ", "-"]


def random_parts(rng, n, well_formed=True):
    parts = []
    for _ in range(n):
        r = rng.random()
        if r < 0.45:
            parts.append(("dir", rng.choice(KEYS)))
        elif r < 0.75:
            parts.append(("lit", rng.choice(LIT_CHARS)))
        elif r < 0.93:
            parts.append(("quoted", rng.choice(QUOTED)))
        else:
            parts.append(("quote", ""))
    if well_formed:
        fixed = []
        for p in parts:
            cand = fixed + [p]
            if separable(cand):
                fixed = cand
            else:
                fixed = fixed + [("lit", rng.choice([" ", "-", ":", "/"])), p]
                if not separable(fixed):
                    fixed = fixed[:-2]
        parts = fixed
    return parts


SOUP = ["'", "'", "''", "y", "yy", "M", "d", "h", "m", "a", "k", "E", "S", "W", "x", "Q", " ", "-", ":", "1", "年", "'a'", "D"]


def random_dt(rng):
    r = rng.random()
    if r < 0.7:
        y = rng.randrange(1900, 2101)
    elif r < 0.9:
        y = rng.randrange(1, 10000)
    else:
        y = rng.choice([1, 99, 100, 999, 1000, 2000, 2024, 9999])
    m = rng.randrange(1, 13)
    d = rng.randrange(1, 32)
    while True:
        try:
            return datetime(y, m, d, rng.randrange(24), rng.randrange(60), rng.randrange(60),
                            rng.choice([0, rng.randrange(1000000), rng.randrange(1000) * 1000]))
        except ValueError:
            d -= 1


def format_cases(ctx: Ctx, n_parts, n_soup):
    rng = ctx.rng
    out = []
    for _ in range(n_parts):
        parts = random_parts(rng, rng.randrange(1, 9), well_formed=rng.random() < 0.8)
        out.append((parts, unparse(parts), random_dt(rng)))
    fixed = ["", "'", "''", "'''", "''''", "yyyy'", "'abc", "abc'", "d''d", "yyyy''MM", "'a''b'", "h 'o''clock' a",
             "yyyy年M月d日", "EEEE, d MMMM yyyy", "dd/MM/y h:mm:ss a", "yyyyMMdd", "xyz", "'it''s' h", "a'b",
             "d'''d", "d''''d", "'''d'", "SSSSSS", "kkk", "yyyyy", "Y", "e", "dd\tMM", "dd MM\nyy"]
    for f in fixed:
        out.append((None, f, random_dt(rng)))
    for _ in range(n_soup):
        f = "".join(rng.choice(SOUP) for _ in range(rng.randrange(1, 9)))
        out.append((None, f, random_dt(rng)))
    return out


def duration_values(ctx: Ctx, n_random):
    rng = ctx.rng
    vals = set(range(0, 1200 if ctx.quick else 12000))
    mult = [1, 2, 3, 6, 7, 9, 10, 11, 23, 24, 25, 59, 60, 61, 99, 100, 101, 119, 120, 167, 168, 365, 520, 999, 1000, 1001]
    for u in UNITS:
        for k in mult:
            for dlt in (-1, 0, 1):
                v = UNIT_MS[u] * k + dlt
                if 0 <= v <= TEN_YEARS_MS:
                    vals.add(v)
    # sums of boundaries: 1w 6d 23h 59m 59s 999ms and friends
    for a in (0, 1, 51, 521):
        for b in (0, 6):
            for c in (0, 9, 10, 23):
                for d in (0, 9, 10, 59):
                    for e in (0, 9, 10, 59):
                        for f in (0, 9, 10, 99, 100, 999):
                            if rng.random() < (0.08 if ctx.quick else 0.6):
                                vals.add(a * UNIT_MS[1] + b * UNIT_MS[2] + c * UNIT_MS[4] + d * UNIT_MS[8] + e * 1000 + f)
    for _ in range(n_random):
        r = rng.random()
        if r < 0.4:
            vals.add(rng.randrange(TEN_YEARS_MS + 1))
        elif r < 0.8:
            vals.add(int(10 ** rng.uniform(0, 11.49)))
        else:
            vals.add(rng.randrange(TEN_YEARS_MS // 1000) * 1000)
    vals.add(TEN_YEARS_MS)
    return sorted(vals)


def duration_cases(ctx: Ctx, vals, per_value):
    rng = ctx.rng
    cases = []
    combos = [(st, l, s) for st in (0, 1, 2) for (l, s) in PAIRS]
    for i, ms in enumerate(vals):
        chosen = combos if per_value is None else rng.sample(combos, per_value)
        for st, l, s in chosen:
            cases.append((ms, st, l, s, 0))
        for st in (0, 1, 2):
            l, s = rng.choice(PAIRS)
            cases.append((ms, st, l, s, 1))
    return cases


# ---------------------------------------------------------------- real path
def real_date_stream(ctx: Ctx, C, exe, cases):
    """cases: (fmt, datetime).  New Document, write + set_cell_formatting, save, reopen, formatted_value."""
    from numbers_parser import Document
    chunk = 1500
    n_mem_plain = 0
    real_fail: dict = {}
    for k in range(0, len(cases), chunk):
        part = cases[k:k + chunk]
        doc = Document(num_rows=len(part), num_cols=1, num_header_rows=0, num_header_cols=0)
        table = doc.sheets[0].tables[0]
        accepted = []
        for r, (fmt, t) in enumerate(part):
            table.write(r, 0, t)
            try:
                table.set_cell_formatting(r, 0, "datetime", date_time_format=fmt)
                accepted.append(True)
                if table.cell(r, 0).formatted_value == str(t):
                    n_mem_plain += 1
            except TypeError:
                accepted.append(False)
        path = ctx.tmp / f"c14_real_{k}.numbers"
        doc.save(path)
        table2 = Document(path).sheets[0].tables[0]
        vreqs, vouts, vcases = [], [], []
        reqs, outs, rcases = [], [], []
        for r, (fmt, t) in enumerate(part):
            vreqs.append(f"val\t{cps(fmt)}")
            vouts.append("1" if accepted[r] else "0")
            vcases.append(("real-validate", fmt))
            if not accepted[r]:
                continue
            cell = table2.cell(r, 0)
            fv, e, nw = with_warnings(lambda c=cell: c.formatted_value)
            t2 = cell.value
            reqs.append(f"fmt\t{cps(fmt)}\t{dt_req(t2)}")
            outs.append("!" + e if e else f"{cps(fv)}\t{nw}")
            rcases.append(("real", fmt, dt_fields(t), dt_fields(t2)))
            # implementation-only oracle at the documented observation point: a blank separated list of directives
            keys = fmt.split(" ")
            if e is None and all(k in KEYS for k in keys):
                toks = fv.split(" ")
                ctx.count("oracle")
                if len(toks) != len(keys):
                    ctx.oracle_fail("real-format-concat", ["real", fmt, dt_fields(t)],
                                    f"reopened formatted_value {fv!r} for format {fmt!r} at {t2!r}")
                else:
                    for k_, got in zip(keys, toks):
                        exp = doc_render(k_, t2)
                        if got != exp and not (k_ == "y" and t2.year >= 100 and got == str(t2.year)) \
                                and not (k_ == "ww" and len(exp) == 1 and got == "0" + exp):
                            if real_fail.get(k_, 0) < 3:
                                real_fail[k_] = real_fail.get(k_, 0) + 1
                                ctx.oracle_fail(f"directive-{k_}", ["field", k_, dt_fields(t2)],
                                                f"reopened cell: directive {k_!r} at {t2!r} displayed {got!r}, documented {exp!r}")
            if abs((t2 - t).total_seconds()) > 1e-3:
                ctx.notes.append(f"real path: stored {t!r} reopened as {t2!r} (value fidelity is C01's concern)")
        ctx.compare("real_validate", vcases, vreqs, vouts, exe, nontrivial=lambda c, o: o == "1")
        ctx.compare("real_formatted_value", rcases, reqs, outs, exe)
    ctx.extra["in_memory_formatted_value_is_str_value"] = n_mem_plain
    return n_mem_plain


def real_duration_cells(C):
    """One cell of the reference workbook per stored duration format."""
    from numbers_parser import Document
    path = common.REPO / "tests" / "data" / "duration_112.numbers"
    if not path.exists():
        return {}
    with warnings.catch_warnings():
        warnings.simplefilter("ignore")
        doc = Document(path)
    cells = {}
    for sheet in doc.sheets:
        table = sheet.tables[0]
        for row in table.iter_rows(min_row=1):
            c = row[6]
            if c._duration_format_id is None or c._double is None:
                continue
            f = c._model.table_format(c._table_id, c._duration_format_id)
            keyt = (f.duration_style, f.duration_unit_largest, f.duration_unit_smallest, int(f.use_automatic_duration_units))
            cells.setdefault(keyt, c)
    return cells


# ---------------------------------------------------------------- run
def run(ctx: Ctx) -> int:
    C = impl()
    common.standard_trusted_base(ctx, [
        "strftime table: glibc strftime (C locale) as reached through CPython 3.12 datetime.strftime for %p %A %a %Y %y %B %b %m %d %H %I %S %W "
        "and the '-' flag is MODELLED (Model/DateFormat.v strf_conv: names, zero padding, %Y unpadded, %W formula); it is enumerated against "
        "CPython over every field value in stream `strftime`, and the name tables are regenerated from CPython into Gen/GenC14.v and tied "
        "(gen_c14_strftime_names)",
        "CPython datetime (toordinal, weekday, timetuple().tm_yday, fromordinal, replace, timedelta.days): modelled by the proleptic Gregorian "
        "calendar of Model/DateFormat.v; enumerated in stream `calendar`",
        "Python str(int), str.zfill, slicing, str.lower, str.isascii/isalpha on the generated alphabet, re.sub/str.split in the validator: modelled; tied by the streams",
        "binary64 arithmetic of Cell._duration_format / _auto_units (int(d / UNIT), d -= UNIT * dd, int(round(1000 * d)), d % UNIT): NOT modelled; "
        "the model is exact integer milliseconds and the duration streams show the float path agrees on millisecond-resolution durations 0..10 years",
        "tools/gen_c14.py: reads DATETIME_FIELD_MAP (keys in order, strftime strings, lambda sources via ast.unparse) and the three helper bodies from "
        "$VERIF_REPO/src/numbers_parser/constants.py (Gen/GenC14.v, tied by gen_c14_field_map / gen_c14_helpers)",
        "spec_directive is a hand transcription of the table in docs/api/datetime.rst (meaning + example columns)",
    ])
    ctx.assumptions += [
        "durations are whole milliseconds >= 0 (the property's quantifier); for sub-millisecond stored values the code ROUNDS the last unit "
        "(int(round(1000*d))) and can show 1000 ms - outside the modelled domain",
        "datetimes are valid proleptic Gregorian datetimes, years 1..9999 (Python's datetime range)",
        "`S`..`SSSSS` are read as the leading digits of the microsecond field (truncation); the documented ranges (0-9, 00-99, ...) exclude rounding",
        "`W` (week of the month, first week zero) is read with Monday as the first day of the week, as documented for `ww`",
        "documented padding is taken from the Meaning/Example columns: a directive not described as zero-padded and shown unpadded is unpadded",
        "format strings in the correspondence use the generated alphabet (ASCII plus a few non-ASCII letters and punctuation marks)",
        "the freshly written in-memory cell does not apply date formats at all (formatted_value == str(value)); formats are observed after save + reopen",
    ]
    ctx.extra["rule"] = (
        "field: every directive x every value of its field (24 hours, 60 minutes, 60 seconds, all days of 2023 and 2024 and of 39 further years "
        "covering the 14 calendars / century rules / range ends, years 1..9999, microsecond digit boundaries + random); strftime: each conversion "
        "over the same domains; format: random compositions of directives, literals, quoted text, '' (80% separable) + character soup + fixed "
        "corner cases; real: the same kinds of formats through set_cell_formatting/save/reopen/formatted_value; durations: 0..1200 ms, every unit "
        "boundary k*unit +-1 ms, mixed boundary sums, random up to 10 years x 21 largest/smallest pairs x 3 styles + automatic units. "
        "non-trivial = implementation returned a value without exception; distinct by (stream, case)")
    # 1. proof obligations
    cr = common.coq_check_props("C14", clean=not ctx.quick)
    ctx.coq = cr
    ctx.theorems = cr.theorems
    if not cr.ok:
        ctx.obligation_errors += cr.errors
    try:
        st = json.loads((common.BUILD / "translate_status.json").read_text())
        if st.get("c14") != "ok":
            ctx.obligation_errors.append(f"translator: DATETIME_FIELD_MAP not readable: {st.get('c14')}")
    except Exception as e:  # noqa: BLE001
        ctx.obligation_errors.append(f"translator status unreadable: {e}")
    if not ctx.quick:
        ctx.extra["coqchk"] = common.coqchk("C14")
        if ctx.extra["coqchk"]["exit"] != 0:
            ctx.obligation_errors.append("coqchk failed: " + ctx.extra["coqchk"]["tail"])
    # 2. correspondence
    try:
        exe = common.build_model(ENTRY)
    except RuntimeError as e:
        ctx.obligation_errors.append(str(e))
        exe = None
    rng = ctx.rng
    fcases = field_cases(ctx)
    fmt_cases = format_cases(ctx, 4000 if ctx.quick else 60000, 3000 if ctx.quick else 40000)
    dvals = duration_values(ctx, 1500 if ctx.quick else 30000)
    dcases = duration_cases(ctx, dvals, 12 if ctx.quick else None)
    # every pair x style on the boundary values even in the quick tier
    bvals = sorted({UNIT_MS[u] * k + dlt for u in UNITS for k in (1, 2, 10, 60) for dlt in (-1, 0, 1)} | {0, 1, 9, 10, 99, 100, 999})
    dcases += [(ms, st, l, s, 0) for ms in bvals if ms >= 0 for st in (0, 1, 2) for (l, s) in PAIRS]
    if exe:
        # field
        reqs = [f"dir\t{cps(k)}\t{dt_req(t)}" for k, t in fcases]
        outs = [impl_field(C, k, t) for k, t in fcases]
        ctx.compare("field", [(k, dt_fields(t)) for k, t in fcases], reqs, outs, exe)
        # unknown keys
        ukeys = ["", "x", "yyy", "MMMMM", "ddd", "DDDD", "hhh", "A", "e", "SSSSSS", "w", "www", "g", "f", "kK", "Y", "yyyyMM"] + \
                ["".join(rng.choice("yMdDhHkKmsSaEWwGFxz") for _ in range(rng.randrange(1, 6))) for _ in range(400)]
        t0 = datetime(2024, 2, 29, 13, 7, 9, 80706)
        ctx.compare("field_unknown", [(k, dt_fields(t0)) for k in ukeys], [f"dir\t{cps(k)}\t{dt_req(t0)}" for k in ukeys],
                    [impl_field(C, k, t0) for k in ukeys], exe, nontrivial=lambda c, o: True)
        # strftime table
        scases = []
        for code in STRF_CODES:
            for h in range(24):
                scases.append((code, datetime(2023, 1, 1, h)))
            for s in range(60):
                scases.append((code, datetime(2023, 1, 1, 0, 0, s)))
            for yr in (2023, 2024):
                for d in all_days(yr):
                    scases.append((code, datetime(d.year, d.month, d.day)))
        for yr in list(range(2025, 2051)) + [1, 4, 100, 400, 1900, 2000, 2100, 9999]:
            for d in all_days(yr):
                if d.day <= 8 or d.timetuple().tm_yday % 5 == 0 or (d.month == 12 and d.day >= 24):
                    for code in ("%W", "%A", "%a"):
                        scases.append((code, datetime(d.year, d.month, d.day)))
        for yr in range(1, 10000, 1 if not ctx.quick else 3):
            for code in ("%Y", "%y", "%-y"):
                scases.append((code, datetime(yr, 6, 15)))
        reqs = [f"sft\t{cps(c)}\t{dt_req(t)}" for c, t in scases]
        outs = [cps(t.strftime(c)) for c, t in scases]
        ctx.compare("strftime", [(c, dt_fields(t)) for c, t in scases], reqs, outs, exe)
        # calendar
        ccases = []
        for yr in [1, 2, 4, 100, 400, 1582, 1600, 1900, 2000, 2023, 2024, 2100, 9999] + [rng.randrange(1, 10000) for _ in range(20 if ctx.quick else 400)]:
            ccases += list(all_days(yr))
        reqs = [f"cal\t{d.year}\t{d.month}\t{d.day}" for d in ccases]
        outs = [f"{d.toordinal()}\t{d.weekday()}\t{d.timetuple().tm_yday}" for d in ccases]
        ctx.compare("calendar", [(d.year, d.month, d.day) for d in ccases], reqs, outs, exe)
        maxord = date(9999, 12, 31).toordinal()
        ords = sorted({d.toordinal() for d in ccases} | {1, 2, maxord} | {rng.randrange(1, maxord + 1) for _ in range(20000 if ctx.quick else 400000)})
        reqs = [f"ord\t{n}" for n in ords]
        outs = ["%d\t%d\t%d" % (lambda d: (d.year, d.month, d.day))(date.fromordinal(n)) for n in ords]
        ctx.compare("fromordinal", ords, reqs, outs, exe)
        # formats
        reqs = [f"fmt\t{cps(f)}\t{dt_req(t)}" for _, f, t in fmt_cases]
        outs = [impl_format(C, f, t) for _, f, t in fmt_cases]
        ctx.compare("format", [(f, dt_fields(t)) for _, f, t in fmt_cases], reqs, outs, exe)
        reqs = [f"val\t{cps(f)}" for _, f, _ in fmt_cases]
        outs = [impl_validate(C, f) for _, f, _ in fmt_cases]
        ctx.compare("validate", [("validate", f) for _, f, _ in fmt_cases], reqs, outs, exe, nontrivial=lambda c, o: o == "1")
        # real path: per-field exhaustive (smaller) + compositions
        real = []
        for h in range(24):
            real.append(("a HH H hh h k kk K KK", datetime(2023, 3, 5, h, h * 2, h)))
        for m in range(60):
            real.append(("mm m ss s", datetime(2023, 3, 5, 7, m, 59 - m)))
        for yr in (2023, 2024):
            for d in all_days(yr):
                real.append(("EEEE EEE MMMM MMM MM M d dd DDD DD D W ww F G yyyy yy y", datetime(d.year, d.month, d.day, 12)))
        for yr in [1, 99, 100, 999, 1000, 1899, 1900, 2000, 2001, 9999] + [rng.randrange(1, 10000) for _ in range(60)]:
            real.append(("yyyy yy y D ww EEE", datetime(yr, 12, 31, 23, 59, 58)))
        for us in [0, 1, 9, 10, 99, 100, 999, 1000, 9999, 10000, 99999, 100000, 123456, 999999] + [rng.randrange(10 ** 6) for _ in range(100)]:
            real.append(("S SS SSS SSSS SSSSS", datetime(2023, 3, 5, 7, 8, 9, us)))
        # instants where a stored representation is zero or changes sign: the 2001 storage epoch (0.0 s), the Unix, Mac
        # and spreadsheet epochs, the ends of the calendar; one step either side of each
        for e0 in (datetime(2001, 1, 1), datetime(1970, 1, 1), datetime(1904, 1, 1), datetime(1900, 1, 1),
                   datetime(1899, 12, 30), datetime(2000, 1, 1), datetime(1, 1, 1, 0, 0, 1), datetime(9999, 12, 31, 23, 59, 58)):
            for dlt in (timedelta(0), timedelta(seconds=1), timedelta(seconds=-1), timedelta(days=1), timedelta(days=-1)):
                try:
                    t_ = e0 + dlt
                except OverflowError:
                    continue
                real.append(("yyyy MM dd HH mm ss a k D EEE", t_))
                real.append(("kk:mm:ss", t_))
        for parts, f, t in fmt_cases[: (1500 if ctx.quick else 20000)]:
            real.append((f, t))
        real = [(f, t) for f, t in real if "\x00" not in f]
        real_date_stream(ctx, C, exe, real)
        # durations
        reqs = [f"dur\t{ms}\t{st}\t{l}\t{s}\t{a}" for ms, st, l, s, a in dcases]
        outs = [impl_duration(C, *c) for c in dcases]
        ctx.compare("duration", dcases, reqs, outs, exe)
        # readback model function against the oracle's parser
        sample = [(c, o) for c, o in zip(dcases, outs) if not o.startswith("!")][:: (7 if ctx.quick else 1)]
        reqs = [f"rdb\t{o}" for _, o in sample]
        outs2 = [",".join(str(int(x)) for x in re.findall(r"\d+", o)) for _, o in sample]
        ctx.compare("duration_readback", [c for c, _ in sample], reqs, outs2, exe)
        # real duration cells
        cells = real_duration_cells(C)
        ctx.extra["real_duration_formats"] = len(cells)
        rcases, reqs, outs = [], [], []
        rvals = bvals + [rng.choice(dvals) for _ in range(40 if ctx.quick else 600)]
        for (st, l, s, a), cell in sorted(cells.items()):
            saved = cell._double
            for ms in rvals:
                cell._double = timedelta(milliseconds=ms).total_seconds()
                fv, e, _ = with_warnings(lambda c=cell: c.formatted_value)
                rcases.append((ms, st, l, s, a))
                reqs.append(f"dur\t{ms}\t{st}\t{l}\t{s}\t{a}")
                outs.append("!" + e if e else fv)
            cell._double = saved
        ctx.compare("duration_real", rcases, reqs, outs, exe)
    ctx.dist("field_cases", len(fcases))
    ctx.dist("format_cases", len(fmt_cases))
    ctx.dist("duration_values", len(dvals))
    ctx.dist("duration_cases", len(dcases))
    for k in KEYS:
        ctx.dist("directive:" + k, sum(1 for kk, _ in fcases if kk == k))
    # 3. implementation-only oracle
    run_oracle(ctx, C, fcases, fmt_cases, dcases)
    return common.finish(ctx, search)


def run_oracle(ctx, C, fcases, fmt_cases, dcases):
    per_sig: dict = {}

    def guard(fn, *a):
        try:
            return fn(*a)
        except Exception as e:  # noqa: BLE001
            return ("oracle-crash", f"{type(e).__name__}: {e}")

    class _Capped:
        """at most 8 recorded cases per signature, so that a frequent (known) signature cannot crowd out a new one"""
        @staticmethod
        def oracle_fail(sig, case, detail):
            per_sig[sig] = per_sig.get(sig, 0) + 1
            if per_sig[sig] <= 8:
                real_ctx.oracle_fail(sig, case, detail)
        count = staticmethod(lambda *a, **k: real_ctx.count(*a, **k))
    real_ctx = ctx
    ctx = _Capped
    for key, t in fcases:
        ctx.count("oracle")
        res = guard(oracle_field, C, key, t)
        if res:
            ctx.oracle_fail(res[0], ["field", key, dt_fields(t)], res[1])
    for parts, f, t in fmt_cases:
        ctx.count("oracle")
        if parts is not None and separable(parts):
            res = guard(oracle_format, C, parts, t)
            if res:
                ctx.oracle_fail(res[0], ["format", parts, dt_fields(t)], res[1])
            res = guard(oracle_validate, C, parts)
            if res:
                ctx.oracle_fail(res[0], ["validate", parts], res[1])
        else:
            res = guard(oracle_validate_unknown, C, f)
            if res:
                ctx.oracle_fail(res[0], ["validate-unknown", f], res[1])
    for c in dcases:
        ctx.count("oracle")
        res = guard(oracle_duration, C, *c)
        if res:
            ctx.oracle_fail(res[0], ["duration"] + list(c), res[1])
    if per_sig:
        real_ctx.notes.append("oracle failures by signature (all cases, before the per-signature cap): " + json.dumps(per_sig, sort_keys=True))


def search(ctx: Ctx, broken) -> list:
    """Witness search: the implementation-only oracle on a dense stream (every directive over its whole field domain,
    compositions, every duration boundary x every pair x every style) and around the disagreeing cases."""
    C = impl()
    found = []

    def add(res, case):
        if res and len(found) < 40:
            found.append((res[0], case, res[1]))
    for stream, case, m, i in ctx.disagreements:
        try:
            if stream in ("field",):
                add(oracle_field(C, case[0], mkdt(case[1])), ["field", case[0], case[1]])
            elif stream == "duration" or stream == "duration_real":
                add(oracle_duration(C, *case), ["duration"] + list(case))
        except Exception:  # noqa: BLE001
            pass
    sub = Ctx(ctx.prop, "thorough", ctx.seed + 1, ctx.level)
    try:
        for key, t in field_cases(sub, dense=True):
            add(oracle_field(C, key, t), ["field", key, dt_fields(t)])
            if len(found) >= 40:
                break
        for parts, f, t in format_cases(sub, 20000, 5000):
            if parts is not None and separable(parts):
                add(oracle_format(C, parts, t), ["format", parts, dt_fields(t)])
                add(oracle_validate(C, parts), ["validate", parts])
            else:
                add(oracle_validate_unknown(C, f), ["validate-unknown", f])
        sub.tier = "quick"
        vals = duration_values(sub, 3000)
        for c in duration_cases(sub, vals, None):
            add(oracle_duration(C, *c), ["duration"] + list(c))
    finally:
        sub.cleanup()
    # one witness per signature is enough for the report
    seen, out = set(), []
    for sig, case, detail in found:
        if sig not in seen:
            seen.add(sig)
            out.append((sig, case, detail))
    return out


def oracle_case(C, case):
    kind = case[0]
    if kind == "field":
        return oracle_field(C, case[1], mkdt(case[2]))
    if kind == "format":
        return oracle_format(C, [tuple(p) for p in case[1]], mkdt(case[2]))
    if kind == "validate":
        return oracle_validate(C, [tuple(p) for p in case[1]])
    if kind == "validate-unknown":
        return oracle_validate_unknown(C, case[1])
    if kind == "duration":
        return oracle_duration(C, *case[1:])
    return None


def replay(path: str) -> int:
    d = json.loads(open(path).read())
    C = impl()
    if d.get("kind") == "failing-input":
        res = oracle_case(C, d["case"])
        if res:
            print(f"replay: still failing [{res[0]}]: {res[1]}")
            print(f"VIOLATION property=C14 replay={path}")
            return 1
        print("replay: case passes on the current tree")
        return 0
    print("replay: no failing input was recorded; broken obligations/correspondences were:")
    print(json.dumps(d.get("broken"), indent=1)[:4000])
    return 1
