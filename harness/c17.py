"""C17 - Damaged or foreign files fail only with the library's own error types.

Theorems: coq/Props/C17.v (IWA.store_blob over arbitrary protobuf/snappy
behaviour; Loader.object_store_init over arbitrary external behaviour).
Correspondence: (a) member level - byte strings (all short ones, damaged real
members) through iwork.IWork._store_blob with python-snappy and protobuf recorded
as function graphs and replayed into the extracted model; (b) loader level -
fault injection at every external call site while opening fixtures, the recorded
answer script replayed into the extracted Loader model.
Glue oracle (implementation only): Document(path) on truncated / bit-flipped /
member-damaged / foreign files yields a document or FileError / FileFormatError /
UnsupportedError; a foreign exception counts when its innermost numbers_parser
frame is in iwork.py, iwafile.py or containers.py."""
from __future__ import annotations

import io
import json
import os
import plistlib
import shutil
import struct
import sys
import traceback
import warnings
import zipfile
import zlib
from pathlib import Path

from . import common
from . import iwa_util as U
from .common import Ctx

LEVEL = "proof"
ENTRY = "C17Entry"
LIB_OK = ("FileError", "FileFormatError", "UnsupportedError")
LOADER_FILES = ("iwork.py", "iwafile.py", "containers.py")


def mods():
    from numbers_parser import containers, iwafile, iwork
    return iwork, iwafile, containers


# ================================================================= tree probes (which fixes are applied)
def probe_fixes() -> dict:
    iwork, iwafile, containers = mods()
    fx = {}
    try:
        iwafile.is_iwa_file(b"\x00")
        fx["iwa"] = True
    except struct.error:
        fx["iwa"] = False

    class H:
        def store_object(self, *a):
            pass

        def store_file(self, *a):
            pass
    try:
        iwork.IWork(handler=H())._store_blob("x.iwa", b"")
        fx["store"] = True
    except IndexError:
        fx["store"] = False
    except Exception:  # noqa: BLE001
        fx["store"] = True
    import inspect
    src = inspect.getsource(containers.ObjectStore.__init__)
    fx["boundary"] = "except" in src
    return fx


# ================================================================= (a) member level
class ProtoRecorder:
    """Replaces ArchiveInfo and ID_NAME_MAP inside numbers_parser.iwafile by recording proxies."""

    def __init__(self):
        self.h: dict[bytes, str] = {}
        self.p: dict[bytes, bool] = {}
        self.k: dict[int, bool] = {}

    def __enter__(self):
        self.m = U.iwa()
        self.old = (self.m.ArchiveInfo, self.m.ID_NAME_MAP)
        rec = self
        real_ai, real_map = self.old

        class AI:
            @staticmethod
            def FromString(b):
                b = bytes(b)
                try:
                    a = real_ai.FromString(b)
                except Exception:
                    rec.h[b] = "-"
                    raise
                infos = "".join(f".{mi.type}.{mi.length}.{mi.base_message_index}" for mi in a.message_infos)
                rec.h[b] = f"{int(not repr(a))}.{int(a.should_merge)}.{a.identifier}{infos}"
                return a

        class Klass:
            def __init__(self, t, k):
                self.t, self.k = t, k

            def FromString(self, payload):
                payload = bytes(payload)
                key = self.t.to_bytes(4, "big") + payload
                try:
                    o = self.k.FromString(payload)
                except Exception:
                    rec.p[key] = False
                    raise
                rec.p[key] = True
                return o

        class Map:
            def __getitem__(self, t):
                try:
                    k = real_map[t]
                except KeyError:
                    rec.k[t] = False
                    raise
                rec.k[t] = True
                return Klass(t, k)

        self.m.ArchiveInfo = AI
        self.m.ID_NAME_MAP = Map()
        return self

    def __exit__(self, *a):
        self.m.ArchiveInfo, self.m.ID_NAME_MAP = self.old

    def tables(self):
        ht = ",".join(k.hex() + ":" + v for k, v in self.h.items())
        pt = ",".join(k.hex() + ":" + ("1" if v else "-") for k, v in self.p.items())
        kt = ",".join(f"{k}:{int(v)}" for k, v in self.k.items())
        return ht, pt, kt


class RecHandler:
    def __init__(self):
        self.ids = []

    def store_object(self, filename, identifier, archive):
        self.ids.append(identifier)

    def store_file(self, filename, blob):
        self.blob = blob


def impl_store_blob(name: str, blob: bytes):
    """Run iwork.IWork._store_blob; returns (outcome string, model request tail)."""
    iwork, iwafile, _ = mods()
    h = RecHandler()
    with U.SnappyRecorder() as sn, ProtoRecorder() as pr:
        try:
            iwork.IWork(handler=h)._store_blob(name, blob)
            out = ("iwa " + ",".join(map(str, h.ids))) if isinstance(h.blob, iwafile.IWAFile) else "blob"
        except Exception as e:  # noqa: BLE001
            out = U.exn(e)
        ht, pt, kt = pr.tables()
        ut = sn.table(sn.un)
    return out, f"{blob.hex()}\t{ut}\t{ht}\t{pt}\t{kt}"


def member_ok(out: str) -> bool:
    return out.startswith("iwa ") or out == "blob" or out == "!FileFormatError"


def short_strings(maxlen: int):
    alpha = [0x00, 0x01, 0x7F, 0xFF]
    out = [b""]
    layer = [b""]
    for _ in range(maxlen):
        layer = [s + bytes([a]) for s in layer for a in alpha]
        out += layer
    return out


def frame_boundaries(blob: bytes):
    pos, out = 0, []
    while pos + 4 <= len(blob):
        ln = blob[pos + 1] | blob[pos + 2] << 8 | blob[pos + 3] << 16
        pos += 4 + ln
        out.append(min(pos, len(blob)))
    return out


def damaged_members(rng, blob: bytes):
    """(label, bytes) damaged variants of one well-framed member."""
    n = len(blob)
    bnd = frame_boundaries(blob)
    out = [("intact", blob), ("cut-1", blob[:-1]), ("cut-half", blob[:n // 2]), ("cut-3", blob[:3]), ("cut-4", blob[:4]),
           ("cut-5", blob[:5]), ("cut-2", blob[:2]), ("cut-1b", blob[:1])]
    for b in bnd[:2]:
        out += [("at-boundary", blob[:b])] + [(f"boundary+{k}", blob[:b] + blob[:k]) for k in (1, 2, 3)]
        out += [(f"boundary+{k}z", blob[:b] + bytes(k)) for k in (1, 2, 3, 4)]
    out += [("marker", b"\x01" + blob[1:]), ("marker-ff", b"\xff" + blob[1:])]
    if len(bnd) > 1:
        b = bnd[0]
        out.append(("marker-2nd", blob[:b] + b"\x07" + blob[b + 1:]))
    ln = blob[1] | blob[2] << 8 | blob[3] << 16 if n >= 4 else 0
    for lab, v in (("len+1", ln + 1), ("len-1", max(ln - 1, 0)), ("len0", 0), ("lenmax", 0xFFFFFF)):
        out.append((lab, blob[:1] + struct.pack("<I", v)[:3] + blob[4:]))
    if n > 8:
        garb = bytes(rng.randrange(256) for _ in range(min(n - 4, 64)))
        out.append(("garbage-payload", blob[:4] + garb + blob[4 + len(garb):]))
        k = rng.randrange(4, n)
        out.append(("byte-flip", blob[:k] + bytes([blob[k] ^ (1 << rng.randrange(8))]) + blob[k + 1:]))
    # damage below the compression layer: varint / header / lengths of the raw stream
    raw = U.raw_stream(blob)
    if raw:
        variants = [("varint-long", b"\xff" * 11 + raw), ("varint-cut", b"\x80"), ("varint-zero", b"\x00" + raw),
                    ("varint-big", b"\xff\xff\x03" + raw[1:]), ("raw-cut", raw[:max(1, len(raw) // 2)]), ("raw-cut-1", raw[:-1]),
                    ("raw-tail", raw + b"\x05"), ("hdr-flip", raw[:1] + bytes([raw[1] ^ 0x40]) + raw[2:] if len(raw) > 2 else raw)]
        k = rng.randrange(1, min(len(raw), 40))
        variants.append(("hdr-rand", raw[:k] + bytes([rng.randrange(256)]) + raw[k + 1:]))
        for lab, r in variants:
            pieces = [r[i:i + 65536] for i in range(0, len(r), 65536)]
            out.append((lab, U.frame_pieces(pieces, "c" * len(pieces))))
            out.append((lab + "/stored", U.frame_pieces(pieces, "s" * len(pieces))))
    return out


def synthetic_members():
    """Hand-built archives for the class-lookup and empty-container paths."""
    from numbers_parser.generated.TSPArchiveMessages_pb2 import ArchiveInfo
    out = []

    def fr(raw):
        return U.frame_pieces([raw], "c")
    out.append(("no-message-infos", fr(U.make_segment(5, []))))
    out.append(("good+no-message-infos", fr(U.make_segment(4, [U.filler(3)]) + U.make_segment(5, []))))
    out.append(("empty-header", fr(b"\x00")))
    out.append(("unknown-type", fr(U.make_segment(6, [U.filler(4)], types=[99999]))))
    out.append(("type-zero", fr(U.make_segment(6, [U.filler(4)], types=[0]))))
    for base, lab in ((0, "patch-base0"), (7, "patch-base-out-of-range")):
        h = ArchiveInfo()
        h.identifier = 8
        h.should_merge = True
        a = h.message_infos.add()
        a.type, a.length = U.SYN_TYPE, 2
        a.version.extend([1, 0, 5])
        b = h.message_infos.add()
        b.type, b.length, b.base_message_index = 0, 2, base
        b.version.extend([1, 0, 5])
        hb = h.SerializeToString()
        out.append((lab, fr(U.varint(len(hb)) + hb + U.filler(2) + U.filler(2))))
    out.append(("header-only-unknown-fields", fr(b"\x02\xa0\x06\x2a")))
    out.append(("length-beyond-end", fr(U.make_segment(6, [U.filler(4)], lengths=[400]))))
    out.append(("payload-not-protobuf", fr(U.make_segment(6, [b"\x0f\xff\xff"], types=[1]))))
    out.append(("empty-chunk", b"\x00\x00\x00\x00"))
    out.append(("two-empty-chunks", b"\x00\x00\x00\x00\x00\x00\x00\x00"))
    return out


# ================================================================= (b) loader level: recording + fault injection
SITE = {"exists": 1, "suffix": 2, "is_dir": 3, "zipfile": 4, "filelist": 5, "zip_read": 6, "plist_loads": 7, "getinfo": 8,
        "namelist": 9, "iterdir": 10, "sub_is_dir": 11, "sub_open": 12, "fh_read": 13, "prop_exists": 14, "open": 15,
        "is_iwa": 16, "from_buffer": 17}


def exc_table():
    from numbers_parser.exceptions import FileFormatError
    return [
        (zipfile.BadZipFile, 9), (zlib.error, 11), (OSError, 10), (PermissionError, 10), (EOFError, 12), (KeyError, 4),
        (ValueError, 3), (struct.error, 8), (lambda: UnicodeDecodeError("utf-8", b"\xff", 0, 1, "bad"), 13),
        (plistlib.InvalidFileException, 30), (NotImplementedError, 14), (RuntimeError, 15), (IndexError, 1), (TypeError, 2),
        (FileFormatError, 6),
    ]


class Injector:
    """Logs every external call of container loading as (site, answer) and raises
    `exc` at the k-th call (1-based) of `site`."""

    def __init__(self, site=None, k=0, exc=None, code=0):
        self.site, self.k, self.exc, self.code = site, k, exc, code
        self.count = {}
        self.script = []
        self.fired = False

    def call(self, site, fn, shape):
        n = self.count[site] = self.count.get(site, 0) + 1
        if site == self.site and n == self.k:
            self.fired = True
            self.script.append(f"{SITE[site]}=r{self.code}")
            raise self.exc() if callable(self.exc) else self.exc
        try:
            v = fn()
        except Exception as e:  # noqa: BLE001
            self.script.append(f"{SITE[site]}=r{code_of(e)}")
            raise
        self.script.append(f"{SITE[site]}={shape(v)}")
        return v


def code_of(e: BaseException) -> int:
    from numbers_parser.exceptions import FileError, FileFormatError, UnsupportedError
    if isinstance(e, zipfile.BadZipFile):
        return 9
    if isinstance(e, plistlib.InvalidFileException):
        return 30
    if isinstance(e, OSError):
        return 10
    for cls, c in ((FileError, 5), (FileFormatError, 6), (UnsupportedError, 7), (struct.error, 8), (KeyError, 4),
                   (IndexError, 1), (TypeError, 2), (zlib.error, 11), (EOFError, 12)):
        if type(e) is cls:
            return c
    if type(e) is ValueError:
        return 3
    return 40


def names_shape(names):
    return "n" + ",".join(str(x).encode("utf-8").hex() for x in names)


def plist_shape(p):
    if not isinstance(p, dict):
        return "pN"
    if "fileFormatVersion" not in p:
        return "pDn"
    return "pD1" if isinstance(p["fileFormatVersion"], str) else "pD0"


def iwa_shape(f):
    return "i" + "/".join(".".join(str(len(a.objects)) for a in c.archives) or "_" for c in f.chunks)


def run_loader(path: Path, inj: Injector):
    """ObjectStore(path) with every external call site wrapped; returns the outcome string."""
    iwork, iwafile, containers = mods()
    saved = []

    def patch(obj, name, val):
        saved.append((obj, name, getattr(obj, name, None), name in vars(obj)))
        setattr(obj, name, val)

    def caller():
        f = sys._getframe(2)
        return (os.path.basename(f.f_code.co_filename), f.f_code.co_name)

    P = type(path)
    o_exists, o_is_dir, o_iterdir, o_open = P.exists, P.is_dir, P.iterdir, P.open

    class FH:
        def __init__(self, fh):
            self.fh = fh

        def read(self):
            return inj.call("fh_read", self.fh.read, lambda v: "B")

        def __enter__(self):
            return self

        def __exit__(self, *a):
            self.fh.close()

    def p_exists(self, *a, **k):
        c = caller()
        if c == ("iwork.py", "open"):
            return inj.call("exists", lambda: o_exists(self, *a, **k), lambda v: f"b{int(v)}")
        if c == ("iwork.py", "document_version"):
            return inj.call("prop_exists", lambda: o_exists(self, *a, **k), lambda v: f"b{int(v)}")
        return o_exists(self, *a, **k)

    def p_is_dir(self, *a, **k):
        c = caller()
        if c == ("iwork.py", "open"):
            return inj.call("is_dir", lambda: o_is_dir(self, *a, **k), lambda v: f"b{int(v)}")
        if c == ("iwork.py", "_read_objects_from_package"):
            return inj.call("sub_is_dir", lambda: o_is_dir(self, *a, **k), lambda v: f"b{int(v)}")
        return o_is_dir(self, *a, **k)

    def p_iterdir(self):
        if caller() == ("iwork.py", "_read_objects_from_package"):
            return iter(inj.call("iterdir", lambda: list(o_iterdir(self)), lambda v: names_shape([x.name for x in v])))
        return o_iterdir(self)

    def p_open(self, *a, **k):
        if caller() == ("iwork.py", "_read_objects_from_package"):
            return FH(inj.call("sub_open", lambda: o_open(self, *a, **k), lambda v: "u"))
        return o_open(self, *a, **k)

    class Zip:
        def __init__(self, z):
            self._z = z
            self.filename = z.filename

        @property
        def filelist(self):
            return inj.call("filelist", lambda: self._z.filelist, lambda v: names_shape([x.filename for x in v]))

        def read(self, name):
            return inj.call("zip_read", lambda: self._z.read(name), lambda v: "B")

        def getinfo(self, name):
            return inj.call("getinfo", lambda: self._z.getinfo(name), lambda v: "u")

        def namelist(self):
            return inj.call("namelist", self._z.namelist, names_shape)

    def zip_factory(*a, **k):
        return Zip(inj.call("zipfile", lambda: zipfile.ZipFile(*a, **k), lambda v: "u"))

    class Plist:
        InvalidFileException = plistlib.InvalidFileException

        @staticmethod
        def loads(b):
            return inj.call("plist_loads", lambda: plistlib.loads(b), plist_shape)

    class IWAProxy:
        @staticmethod
        def from_buffer(data, filename=None):
            return inj.call("from_buffer", lambda: iwafile.IWAFile.from_buffer(data, filename), iwa_shape)

    def m_open(*a, **k):
        return FH(inj.call("open", lambda: open(*a, **k), lambda v: "u"))

    o_allowed = containers.ObjectStore.allowed_format

    def m_allowed(self, ext):
        return inj.call("suffix", lambda: o_allowed(self, ext), lambda v: f"b{int(v)}")

    o_store = containers.ObjectStore.store_object
    stored = []

    def m_store(self, filename, identifier, archive):
        stored.append(identifier)
        return o_store(self, filename, identifier, archive)

    try:
        patch(P, "exists", p_exists)
        patch(P, "is_dir", p_is_dir)
        patch(P, "iterdir", p_iterdir)
        patch(P, "open", p_open)
        patch(iwork, "ZipFile", zip_factory)
        patch(iwork, "plistlib", Plist)
        patch(iwork, "is_iwa_file", lambda b: inj.call("is_iwa", lambda: iwafile.is_iwa_file(b), lambda v: f"b{int(v)}"))
        patch(iwork, "IWAFile", IWAProxy)
        patch(iwork, "open", m_open)
        patch(containers.ObjectStore, "allowed_format", m_allowed)
        patch(containers.ObjectStore, "store_object", m_store)
        with warnings.catch_warnings():
            warnings.simplefilter("ignore")
            try:
                containers.ObjectStore(path)
                out = f"OK {len(stored)} 0"
            except Exception as e:  # noqa: BLE001
                out = U.exn(e)
    finally:
        for obj, name, val, own in reversed(saved):
            if own:
                setattr(obj, name, val)
            else:
                delattr(obj, name)
    return out


# ================================================================= glue: Document(path) on damaged files
def classify(e: BaseException):
    """-> (kind, detail): kind 'lib' | 'escape' (from container loading) | 'elsewhere'."""
    n = type(e).__name__
    from numbers_parser import exceptions as X
    if isinstance(e, (X.FileError, X.FileFormatError, X.UnsupportedError)):
        return "lib", n
    inner = None
    loading = False
    tb = e.__traceback__
    while tb is not None:
        code = tb.tb_frame.f_code
        if "numbers_parser" in code.co_filename.replace("\\", "/").split("/"):
            inner = (os.path.basename(code.co_filename), code.co_name)
            # container loading = everything ObjectStore.__init__ does (IWork.open and below, max());
            # ObjectStore's lookup accessors (__getitem__ ...) used later by the document model are not loading
            if getattr(code, "co_qualname", code.co_name) == "ObjectStore.__init__":
                loading = True
        tb = tb.tb_next
    if inner is None:
        return "elsewhere", f"{n}@?"
    where = f"{inner[0]}:{inner[1]}"
    if loading and inner[0] in LOADER_FILES:
        return "escape", f"{n}@{where}"
    return "elsewhere", f"{n}@{where}"


def try_document(path) -> tuple[str, str]:
    from numbers_parser import Document
    with warnings.catch_warnings():
        warnings.simplefilter("ignore")
        try:
            Document(path)
            return "ok", ""
        except Exception as e:  # noqa: BLE001
            return classify(e)


def _payload_flip(b: bytes, r: int, n: int) -> bytes:
    import random
    try:
        raw = bytearray(U.raw_stream(b))
    except Exception:  # noqa: BLE001
        return b
    if not raw:
        return b
    rr = random.Random(r * 7919 + len(raw))
    for _ in range(n):
        raw[rr.randrange(min(len(raw), 4000))] ^= 1 << rr.randrange(8)
    pieces = [bytes(raw[i:i + 65536]) for i in range(0, len(raw), 65536)]
    return U.frame_pieces(pieces, "c" * len(pieces))


MEMBER_MUT = {
    "empty": lambda b, r: b"",
    "1byte": lambda b, r: b[:1],
    "2bytes": lambda b, r: b[:2],
    "3bytes": lambda b, r: b[:3],
    "zero1": lambda b, r: b"\x00",
    "zero3": lambda b, r: b"\x00\x00\x00",
    "cut-half": lambda b, r: b[:len(b) // 2],
    "cut-1": lambda b, r: b[:-1],
    "at-boundary+2": lambda b, r: (lambda bd: b[:bd[0]] + b"\x00\x07" if bd else b + b"\x00\x07")(frame_boundaries(b)),
    "tail3": lambda b, r: b + b"\x00\x01\x02",
    "marker": lambda b, r: b"\x01" + b[1:],
    "len+1": lambda b, r: b[:1] + struct.pack("<I", (b[1] | b[2] << 8 | b[3] << 16) + 1)[:3] + b[4:] if len(b) >= 4 else b,
    "garbage": lambda b, r: b[:4] + bytes((i * 37 + r) & 0xFF for i in range(max(0, len(b) - 4))),
    # a bit flipped INSIDE the archive stream, re-framed and re-compressed correctly: the container is intact, what it
    # carries is not (wrong message types, broken references, undecodable messages)
    "payload-flip": lambda b, r: _payload_flip(b, r, 1),
    "payload-flip3": lambda b, r: _payload_flip(b, r, 3),
    "no-infos": lambda b, r: U.frame_pieces([U.make_segment(5, [])], "c"),
    "bad-varint": lambda b, r: U.frame_pieces([b"\xff" * 11], "c"),
}


def rebuild_zip(src: str, dst: Path, mutate):
    """Copy a zip fixture member by member; mutate(name, blob) -> blob | None (drop) ; extra members via mutate('', None)."""
    z = zipfile.ZipFile(src)
    with zipfile.ZipFile(dst, "w", zipfile.ZIP_DEFLATED) as zo:
        for info in z.infolist():
            blob = mutate(info.filename, z.read(info.filename))
            if blob is not None:
                zo.writestr(info.filename, blob)
        for name, blob in (mutate("", None) or []):
            zo.writestr(name, blob)


def materialise(case, tmp: Path) -> Path:
    """Build the damaged file of a glue case under tmp and return its path."""
    kind = case[0]
    fx = common.REPO / "tests/data" / case[1] if len(case) > 1 and case[1] else None
    dst = tmp / "case.numbers"
    if dst.is_dir():
        shutil.rmtree(dst)
    elif dst.exists():
        dst.unlink()
    if kind == "missing":
        return tmp / "does-not-exist.numbers"
    if kind == "suffix":
        p = tmp / "case.numberz"
        shutil.copy(fx, p)
        return p
    if kind == "foreign":
        dst.write_bytes(bytes.fromhex(case[2]))
        return dst
    if kind == "trunc":
        dst.write_bytes(fx.read_bytes()[:case[2]])
        return dst
    if kind == "flip":
        b = bytearray(fx.read_bytes())
        for off, bit in case[2]:
            b[off] ^= 1 << bit
        dst.write_bytes(bytes(b))
        return dst
    if kind == "member":
        _, _, target, mut, r = case
        rebuild_zip(str(fx), dst, lambda n, b: (MEMBER_MUT[mut](b, r) if n == target else b) if b is not None else None)
        return dst
    if kind == "drop-iwa":
        rebuild_zip(str(fx), dst, lambda n, b: None if (b is not None and n.endswith(".iwa")) else b)
        return dst
    if kind == "iwph":
        rebuild_zip(str(fx), dst, lambda n, b: b if b is not None else [(".iwph", b"x")])
        return dst
    if kind == "plist":
        _, _, which, r = case
        repl = {"garbage": b"<?xml version='1.0'?><plist><dict><key>a</ke", "empty": b"", "list": plistlib.dumps([1, 2]),
                "nokey": plistlib.dumps({"a": 1}), "intversion": plistlib.dumps({"fileFormatVersion": 12}),
                "binary-cut": plistlib.dumps({"fileFormatVersion": "12.1"}, fmt=plistlib.FMT_BINARY)[:-9]}[which]
        rebuild_zip(str(fx), dst, lambda n, b: (repl if n.endswith("Metadata/Properties.plist") else b) if b is not None else None)
        return dst
    if kind == "pkg":   # package (directory) fixtures
        _, _, what, r = case
        shutil.copytree(fx, dst)
        idx = dst / "Index.zip"
        if what == "index-trunc" and idx.exists():
            idx.write_bytes(idx.read_bytes()[:r])
        elif what == "index-flip" and idx.exists():
            b = bytearray(idx.read_bytes())
            b[r % len(b)] ^= 0x10
            idx.write_bytes(bytes(b))
        elif what == "index-empty" and idx.exists():
            idx.write_bytes(b"")
        elif what == "plist-garbage":
            (dst / "Metadata/Properties.plist").write_bytes(b"<plist><dict><key>x</key")
        elif what == "plist-list":
            (dst / "Metadata/Properties.plist").write_bytes(plistlib.dumps([1]))
        elif what == "iwa-empty":
            for p in sorted(dst.rglob("*.iwa"))[:1]:
                p.write_bytes(b"")
        elif what == "iwa-2bytes":
            for p in sorted(dst.rglob("*.iwa"))[:1]:
                p.write_bytes(b"\x00\x01")
        elif what == "no-metadata":
            shutil.rmtree(dst / "Metadata")
        return dst
    if kind == "semantic":   # the container decodes; one identifier inside an archive no longer matches its counterpart
        _, _, what = case
        from numbers_parser.iwafile import IWAFile

        def mutate(n, b):
            if b is None or not n.endswith("CalculationEngine.iwa") and "CalculationEngine-" not in n:
                return b
            try:
                iwa = IWAFile.from_buffer(b)
                for a in iwa.chunks[0].archives:
                    o = a.objects[0]
                    if type(o).__name__ == "FormulaOwnerDependenciesArchive" and what == "owner-uid":
                        o.formula_owner_uid.lower ^= 1
                    if type(o).__name__ == "CalculationEngineArchive" and what == "owner-map":
                        for e in o.dependency_tracker.owner_id_map.map_entry:
                            e.owner_id.lower ^= 1
                return iwa.to_buffer()
            except Exception:  # noqa: BLE001
                return b
        rebuild_zip(str(fx), dst, mutate)
        return dst
    if kind == "pkg-os":   # a package folder whose parts exist as names but fail at the OS level when read
        _, _, what = case
        shutil.copytree(fx, dst)
        idx, pl = dst / "Index.zip", dst / "Metadata" / "Properties.plist"
        if what.startswith("index-") and not idx.is_file():
            # this package keeps its archives in an Index/ folder: the same fault on its first archive file
            idx = next(iter(sorted(dst.rglob("*.iwa"))), None)
        if what == "index-dangling-symlink" and idx is not None:
            idx.unlink()
            idx.symlink_to(dst / "no-such-target.zip")
        elif what == "index-is-directory" and idx is not None:
            idx.unlink()
            idx.mkdir()
        elif what == "plist-is-directory" and pl.is_file():
            pl.unlink()
            pl.mkdir()
        elif what == "plist-dangling-symlink" and pl.is_file():
            pl.unlink()
            pl.symlink_to(dst / "nothing.plist")
        elif what == "iwa-is-directory":
            for p in sorted(dst.rglob("*.iwa"))[:1]:
                p.unlink()
                p.mkdir()
        return dst
    if kind == "tilde":    # relative names that begin with '~' (editor back-ups, office lock files, '~user' forms)
        _, src_name, name, present = case
        p = tmp / name
        if p.parent != tmp:
            return Path(name)          # '~nosuchuser/x.numbers': relative, never created
        if p.exists():
            p.unlink()
        if present:
            shutil.copy(common.REPO / "tests/data" / src_name, p)
        return Path(name)              # opened relative to the working directory (tmp)
    raise ValueError(case)


# the documented meaning of the three error types on the cases that have one
EXPECTED = {"missing": "FileError", "suffix": "FileFormatError", "iwph": "UnsupportedError"}


def loader_fixture(name: str, tmp: Path) -> Path:
    """Fixtures of the loader-level stream; 'encrypted.numbers' is built (a fixture plus the .iwph marker)."""
    if name == "encrypted.numbers":
        p = tmp / name
        if not p.exists():
            rebuild_zip(str(common.REPO / "tests/data/issue-18.numbers"), p, lambda n, b: b if b is not None else [(".iwph", b"x")])
        return p
    return common.REPO / "tests/data" / name


def glue_case(case, tmp: Path, debug_logging: bool = False):
    """-> (signature, detail) if the property is violated on this case.  With debug_logging the process-wide logging
    level is DEBUG while the document is opened (as under `cat-numbers --debug` or an application's basicConfig)."""
    import logging
    p = materialise(case, tmp)
    cwd = os.getcwd()
    lg, root = logging.getLogger("numbers_parser"), logging.getLogger()
    old_levels = (lg.level, root.level)
    try:
        if case[0] == "tilde":
            os.chdir(tmp)
        if debug_logging:
            lg.setLevel(logging.DEBUG)
            root.setLevel(logging.DEBUG)
        kind, det = try_document(p)
    finally:
        os.chdir(cwd)
        lg.setLevel(old_levels[0])
        root.setLevel(old_levels[1])
    return kind, det


def glue_cases(ctx: Ctx, nflips: int):
    rng = ctx.rng
    zips = ["issue-18.numbers", "issue-17.numbers", "issue-32.numbers", "simple-func.numbers", "test-issue-93.numbers"]
    if not ctx.quick:
        zips += ["test-2.numbers", "issue-3.numbers", "mapping.numbers", "pre-bnc.numbers"]
    cases = [["missing"]]
    for fxn in zips:
        size = (common.REPO / "tests/data" / fxn).stat().st_size
        cases.append(["suffix", fxn])
        z = zipfile.ZipFile(common.REPO / "tests/data" / fxn)
        infos = z.infolist()
        first = infos[0]
        cd = size - 22 - sum(46 + len(i.filename) for i in infos)   # approximate central directory start
        for n in sorted({0, 1, 3, 10, 29, 30 + len(first.filename), first.header_offset + 40, size // 3, size // 2,
                         max(cd, 0) + 5, max(cd, 0) + 60, size - 23, size - 21, size - 2, size - 1}):
            if 0 <= n < size:
                cases.append(["trunc", fxn, n])
        per = max(4, nflips // len(zips))
        for i in range(per):
            k = 1 if i % 3 else rng.choice([2, 3, 5])
            region = rng.random()
            offs = []
            for _ in range(k):
                if region < 0.15:
                    off = rng.randrange(max(cd, 0), size)          # central directory / end record
                elif region < 0.3:
                    off = min(size - 1, rng.choice(infos).header_offset + rng.randrange(30))   # a local header
                else:
                    off = rng.randrange(size)
                offs.append([off, rng.randrange(8)])
            cases.append(["flip", fxn, offs])
        iwas = [i.filename for i in infos if i.filename.endswith(".iwa")]
        targets = iwas if fxn == zips[0] else rng.sample(iwas, min(len(iwas), 3 if ctx.quick else 10))
        for t in targets:
            muts = list(MEMBER_MUT) if (fxn == zips[0] and (not ctx.quick or t in iwas[:4])) else rng.sample(list(MEMBER_MUT), 4)
            for mu in muts:
                cases.append(["member", fxn, t, mu, rng.randrange(256)])
        for t in (iwas if fxn in zips[:2] else targets):
            for rr_ in range(3 if ctx.quick else 12):
                cases.append(["member", fxn, t, rng.choice(["payload-flip", "payload-flip3"]), rng.randrange(10 ** 6)])
        cases += [["drop-iwa", fxn], ["iwph", fxn]]
        for which in ("garbage", "empty", "list", "nokey", "intversion", "binary-cut"):
            cases.append(["plist", fxn, which, 0])
    for fxn in ("test-7.numbers", "test-5.numbers"):
        for what in ("index-trunc", "index-flip", "index-empty", "plist-garbage", "plist-list", "iwa-empty", "iwa-2bytes", "no-metadata"):
            for r in ([100, 20000] if what in ("index-trunc", "index-flip") else [0]):
                cases.append(["pkg", fxn, what, r + (rng.randrange(1000) if what == "index-flip" else 0)])
    for hx in ("", "00", "504b0506" + "00" * 18, "504b0304", "ff" * 64, "504b0102" + "00" * 60):
        cases.append(["foreign", "", hx])
    for fxn in zips[:4]:
        for what in ("owner-uid", "owner-map"):
            cases.append(["semantic", fxn, what])
    for fxn in ("test-7.numbers", "test-5.numbers"):
        for what in ("index-dangling-symlink", "index-is-directory", "plist-is-directory", "plist-dangling-symlink", "iwa-is-directory"):
            cases.append(["pkg-os", fxn, what])
    for name, present in (("~budget.numbers", False), ("~budget.numbers", True), ("~$budget.numbers", True), ("~nosuchuser-xyz/x.numbers", False),
                          ("~.numbers", False), ("~budget.txt", True)):
        cases.append(["tilde", "simple-func.numbers", name, present])
    return cases


# ================================================================= run
def run(ctx: Ctx) -> int:
    U.raise_stack_limit()
    iwork, iwafile, containers = mods()
    rng = ctx.rng
    fx = probe_fixes()
    ctx.extra["fixes_detected"] = fx
    common.standard_trusted_base(ctx, [
        "IWA.store_blob theorem: snappy.uncompress, ArchiveInfo.FromString, ID_NAME_MAP lookup and message FromString are universally quantified "
        "functions (any value, any exception except the model-internal OutOfFuel marker)",
        "Loader theorem: every external call (Path.exists/is_dir/iterdir/open, ZipFile(), zipf.filelist/read/getinfo/namelist, plistlib.loads, "
        "builtins.open/read, is_iwa_file, IWAFile.from_buffer) may return any value of its shape or raise any exception of class Exception; "
        "BaseException-only exceptions (KeyboardInterrupt, SystemExit) and warnings turned into errors by the caller's filter are outside the model",
        "member-level correspondence replays the recorded graphs of snappy/protobuf into the model: protobuf and snappy internals are oracles",
        "loader-level correspondence replays the recorded answer script of a fault-injected run: it ties the order, number and handlers of external calls, not zipfile/plistlib internals",
    ])
    ctx.assumptions += [
        "str.lower is modelled on ASCII letters (member names of the fixtures are ASCII)",
        "handler callbacks (ObjectStore.store_object/store_file/allowed_version on str) do not raise",
        "exceptions are identified by the classes the handlers test: BadZipFile, KeyError, plistlib.InvalidFileException, OSError family, the three library errors, other",
    ]
    ctx.extra["rule"] = ("member level: all byte strings of length <= 2 (quick) / <= 4 (thorough) over {00,01,7f,ff} + seeded sample of real members x "
                         "{truncated at/off chunk boundaries, 1-3 byte tails, marker/length corrupted, undecodable snappy payload, bad varint/header, "
                         "cut raw stream; stored and compressed} + hand-built archives (no message_infos, empty header, unknown type, patch base out "
                         "of range); loader level: every external call site x k-th call x 15 exception types on zip, nested-zip and package fixtures; "
                         "glue: fixtures x truncation length classes x seeded bit flips x member replacement x foreign bytes. non-trivial = "
                         "the implementation did not simply succeed (a fault was hit or an error was raised)")
    cr = common.coq_check_props("C17", clean=not ctx.quick)
    ctx.coq = cr
    ctx.theorems = cr.theorems
    if not cr.ok:
        ctx.obligation_errors += cr.errors
    if not ctx.quick:
        ctx.extra["coqchk"] = common.coqchk("C17")
        if ctx.extra["coqchk"]["exit"] != 0:
            ctx.obligation_errors.append("coqchk failed: " + ctx.extra["coqchk"]["tail"])
    try:
        exe = common.build_model(ENTRY)
    except RuntimeError as e:
        ctx.obligation_errors.append(str(e))
        exe = None

    fails = {"member": [], "glue": [], "loader": []}
    per_sig = {}

    def fail(group, sig, case, detail):
        per_sig[sig] = per_sig.get(sig, 0) + 1
        if per_sig[sig] <= 3:
            fails[group].append((sig, case, detail))

    # ---------- (a) member level
    members = [x for x in U.iwa_members() if 8 < len(x[2]) < 60000]
    pick = rng.sample(members, min(len(members), 45 if ctx.quick else 400))
    multi = [x for x in U.iwa_members() if len(frame_boundaries(x[2])) > 1 and len(x[2]) < 200000][:2 if ctx.quick else 8]
    cases = [("short", "", s) for s in short_strings(2 if ctx.quick else 4)]
    for fxn, name, blob in pick + multi:
        for lab, b in damaged_members(rng, blob):
            cases.append((lab, f"{fxn}:{name}", b))
    cases += [(lab, "synthetic", b) for lab, b in synthetic_members()]
    cases += [("not-iwa-name", "x.bin", b"\x00"), ("not-iwa-name", "x.bin", b"")]
    reqs, outs, cs = [], [], []
    for lab, src, b in cases:
        name = "Index/Tables/X.iwa" if src != "x.bin" else "preview.bin"
        out, tail = impl_store_blob(name, b)
        reqs.append(f"blob\t{int(fx['iwa'])}\t{int(fx['store'])}\t{int(name.endswith('.iwa'))}\t{tail}")
        outs.append(out)
        cs.append([lab, src, len(b), b[:24].hex()])
        ctx.dist("member_outcome_" + (out.split(" ")[0]), 1)
        # implementation-only oracle: unframe_total on the code
        ctx.count("member_oracle")
        if not member_ok(out):
            fail("member", "member:" + out.lstrip("!"), ["blob", name, b.hex() if len(b) < 4096 else None, lab, src],
                 f"_store_blob({name!r}, {len(b)} bytes [{lab} of {src}]) raised {out}")
    if exe:
        ctx.compare("store_blob", cs, reqs, outs, exe, nontrivial=lambda c, o: not o.startswith("iwa"))

    # ---------- (b) loader level
    names = ["issue-18.numbers", "issue-32.numbers", "test-7.numbers", "test-5.numbers"]
    if not ctx.quick:
        names += ["simple-func.numbers", "test-issue-76.numbers"]
    names += ["encrypted.numbers", "invalid.numbers", "invalid-missing.numbers", "invalid-props.numbers", "badindexzip.numbers",
              "corrupted.numbers", "invalid.numberz", "nonexistent.numbers"]
    fixtures = [loader_fixture(n, ctx.tmp) for n in names]
    reqs, outs, cs = [], [], []
    for fxp in fixtures:
        base = Injector()
        out = run_loader(fxp, base)
        reqs.append(f"load\t{int(fx['boundary'])}\t{int(fx['store'])}\t{';'.join(base.script)}")
        outs.append(out)
        cs.append([fxp.name, "clean"])
        if fxp.name.startswith(("invalid", "bad", "corrupt", "nonexist", "encrypted")):
            continue
        for site, total in sorted(base.count.items()):
            ks = sorted({1, 2, total, (total + 1) // 2} | {rng.randrange(1, total + 1) for _ in range(2 if ctx.quick else 6)})
            ks = [k for k in ks if 1 <= k <= total]
            for k in ks:
                excs = exc_table()
                if ctx.quick and k not in (1, total):
                    excs = rng.sample(excs, 5)
                for exc, code in excs:
                    inj = Injector(site, k, exc, code)
                    out = run_loader(fxp, inj)
                    reqs.append(f"load\t{int(fx['boundary'])}\t{int(fx['store'])}\t{';'.join(inj.script)}")
                    outs.append(out)
                    ename = exc.__name__ if isinstance(exc, type) else "UnicodeDecodeError"
                    cs.append([fxp.name, site, k, ename])
                    ctx.dist("inject_" + site, 1)
                    ctx.count("loader_oracle")
                    if out.startswith("!") and out[1:] not in LIB_OK:
                        fail("loader", f"loader:{ename}@{site}", ["inject", fxp.name, site, k, ename],
                             f"ObjectStore({fxp.name}) with {ename} raised by {site} call #{k} ended in {out}")
    if exe:
        ctx.compare("loader_fault_injection", cs, reqs, outs, exe, nontrivial=lambda c, o: len(c) > 2)

    # ---------- glue oracle
    tally = {}
    for case in glue_cases(ctx, 200 if ctx.quick else 5000):
        try:
            kind, det = glue_case(case, ctx.tmp)
        except Exception as e:  # noqa: BLE001
            kind, det = "oracle-crash", f"{type(e).__name__}: {e}"
        ctx.count("glue")
        ctx.nontrivial(("glue", json.dumps(case)))
        key = f"glue_{case[0]}_{kind}" + (f"_{det}" if kind != "ok" else "")
        tally[key] = tally.get(key, 0) + 1
        if kind in ("escape", "oracle-crash"):
            fail("glue", "escape:" + det, case, f"Document() on {case}: {det} escaped from container loading")
        elif kind == "elsewhere":
            # the container loaded, but a member that could not be read left its objects out of the store and building
            # the document stumbles over the gap: Document(path) still fails with a foreign exception - the caller the
            # property speaks of (cat-numbers) crashes just the same
            fail("glue", "escape-after-loading:" + det, case, f"Document() on {case}: {det} raised while the document was built from the loaded container")
        want = EXPECTED.get(case[0])
        if want and kind in ("ok", "lib") and det != want:
            fail("glue", f"wrong-class:{case[0]}", case, f"Document() on {case}: expected {want}, got {kind} {det}")
    for k, v in sorted(tally.items()):
        ctx.dist(k, v)
    # ---------- the same kinds of damage with the process' logging level at DEBUG
    allc = glue_cases(ctx, 40)
    sample = [c for c in allc if c[0] in ("missing", "suffix", "drop-iwa", "iwph", "plist", "foreign", "pkg", "pkg-os")][:: 2 if ctx.quick else 1]
    sample += [c for c in allc if c[0] in ("flip", "member", "trunc")][:: 6 if ctx.quick else 1]
    for case in sample:
        try:
            kind, det = glue_case(case, ctx.tmp, debug_logging=True)
        except Exception as e:  # noqa: BLE001
            kind, det = "oracle-crash", f"{type(e).__name__}: {e}"
        ctx.count("glue-debug-logging")
        if kind in ("escape", "oracle-crash", "elsewhere"):
            fail("glue", "escape-with-debug-logging:" + det, ["debug-logging", case], f"Document() on {case} with logging at DEBUG: {det} escaped from container loading")
    # ---------- the bundled command-line tool reports the problem instead of crashing
    for sig, case, detail in cli_oracle(ctx):
        fail("glue", sig, case, detail)
    # real damaged files first, then single members, then injected faults
    for group in ("glue", "member", "loader"):
        for sig, case, detail in fails[group]:
            ctx.oracle_fail(sig, case, detail)
    ctx.extra["failing_signatures"] = dict(sorted(per_sig.items()))
    return common.finish(ctx, search)


def cli_oracle(ctx: Ctx):
    """cat-numbers (numbers_parser._cat_numbers.main, in-process) on paths that are not intact Numbers containers:
    it must write a one-line message to stderr and exit with status 1 - whatever the path looks like."""
    import contextlib
    import io
    import sys
    from numbers_parser import _cat_numbers
    out = []
    src = common.REPO / "src" / "numbers_parser" / "data" / "empty.numbers"
    blob = src.read_bytes() if src.is_file() else b""
    names = ["plain.numbers", "Budget%202024.numbers", "100%.numbers", "50% off %s.numbers", "a{0}b{}.numbers", "sp ace's \u00e9.numbers",
             "%(name)s.numbers", "wrong-suffix.txt", "%d.txt"]
    kinds = ["missing", "empty", "truncated", "not-zip", "bitflip", "pkg-index-dangling", "pkg-plist-is-dir"]
    rng = ctx.rng
    d = ctx.tmp / "cli"
    d.mkdir(exist_ok=True)
    for name in names:
        for kind in kinds:
            p = d / f"{kind}-{name}"
            if kind.startswith("pkg-"):
                if not name.endswith(".numbers"):
                    continue
                pkg = common.REPO / "tests" / "data" / "test-7.numbers"
                if p.exists():
                    shutil.rmtree(p)
                shutil.copytree(pkg, p)
                if kind == "pkg-index-dangling":
                    (p / "Index.zip").unlink()
                    (p / "Index.zip").symlink_to(p / "gone.zip")
                else:
                    (p / "Metadata" / "Properties.plist").unlink()
                    (p / "Metadata" / "Properties.plist").mkdir()
            elif kind == "empty":
                p.write_bytes(b"")
            elif kind == "truncated":
                p.write_bytes(blob[: max(1, len(blob) // 3)])
            elif kind == "not-zip":
                p.write_bytes(b"this is not a zip container\n" * 4)
            elif kind == "bitflip":
                b = bytearray(blob)
                for _ in range(8):
                    if b:
                        b[rng.randrange(len(b))] ^= 1 << rng.randrange(8)
                p.write_bytes(bytes(b))
            for opts in ([], ["-T"], ["-b"]):
                argv = ["cat-numbers", *opts, str(p)]
                err, outp = io.StringIO(), io.StringIO()
                status, exc = 0, None
                old = sys.argv
                sys.argv = argv
                try:
                    with contextlib.redirect_stderr(err), contextlib.redirect_stdout(outp), warnings.catch_warnings():
                        warnings.simplefilter("ignore")
                        try:
                            _cat_numbers.main()
                        except SystemExit as e:
                            status = e.code if isinstance(e.code, int) else 1
                        except Exception as e:  # noqa: BLE001
                            exc = e
                finally:
                    sys.argv = old
                ctx.count("cli")
                case = ["cli", kind, name, opts]
                if exc is not None:
                    out.append((f"cli-crash:{type(exc).__name__}", case, f"cat-numbers {opts} {p.name!r} ({kind}) crashed with {type(exc).__name__}: {exc}"))
                elif kind in ("missing", "empty", "not-zip", "pkg-index-dangling", "pkg-plist-is-dir") or name.endswith(".txt"):
                    lines = [x for x in err.getvalue().splitlines() if x.strip()]
                    if status != 1 or len(lines) != 1:
                        out.append(("cli-error-not-reported", case,
                                    f"cat-numbers {opts} {p.name!r} ({kind}): exit status {status}, stderr lines {len(lines)}"))
    return out


def search(ctx: Ctx, broken) -> list:
    """A denser glue + member stream, evaluated with the implementation-only oracles."""
    found = []
    rng = ctx.rng
    for s in short_strings(4):
        out, _ = impl_store_blob("Index/X.iwa", s)
        if not member_ok(out):
            found.append(("member:" + out.lstrip("!"), ["blob", "Index/X.iwa", s.hex(), "short", ""], f"_store_blob raised {out}"))
            break
    for lab, b in synthetic_members():
        out, _ = impl_store_blob("Index/X.iwa", b)
        if not member_ok(out):
            found.append(("member:" + out.lstrip("!"), ["blob", "Index/X.iwa", b.hex(), lab, "synthetic"], f"_store_blob raised {out}"))
    old = ctx.tier
    try:
        ctx.tier = "thorough"
        cases = glue_cases(ctx, 1500)
    finally:
        ctx.tier = old
    seen = set()
    for case in cases:
        try:
            kind, det = glue_case(case, ctx.tmp)
        except Exception as e:  # noqa: BLE001
            continue
        if kind == "escape" and det not in seen:
            seen.add(det)
            found.append(("escape:" + det, case, f"Document() on {case}: {det} escaped from container loading"))
        if len(found) > 12:
            break
    return found


def replay(path: str) -> int:
    import tempfile
    d = json.loads(open(path).read())
    if d.get("kind") != "failing-input":
        print("replay: no failing input was recorded; broken obligations/correspondences were:")
        print(json.dumps(d.get("broken"), indent=1)[:4000])
        return 1
    case = d["case"]
    bad = None
    if case[0] == "blob":
        if case[2] is None:
            print("replay: the member was too large to be stored in the replay file; rerun the check")
            return 1
        out, _ = impl_store_blob(case[1], bytes.fromhex(case[2]))
        if not member_ok(out):
            bad = f"_store_blob({case[1]!r}, {case[2][:40]}...) raised {out}"
    elif case[0] == "cli":
        sub = common.Ctx("C17", "quick", 0, LEVEL)
        try:
            hits = [x for x in cli_oracle(sub) if x[1][1:3] == case[1:3]]
        finally:
            sub.cleanup()
        if hits:
            bad = hits[0][2]
    elif case[0] == "inject":
        _, fxn, site, k, ename = case
        exc, code = next((e, c) for e, c in exc_table() if (e.__name__ if isinstance(e, type) else "UnicodeDecodeError") == ename)
        tmp = Path(tempfile.mkdtemp(prefix="verif_C17_replay_"))
        try:
            out = run_loader(loader_fixture(fxn, tmp), Injector(site, k, exc, code))
        finally:
            shutil.rmtree(tmp, ignore_errors=True)
        if out.startswith("!") and out[1:] not in LIB_OK:
            bad = f"ObjectStore({fxn}) with {ename} at {site} call #{k} ended in {out}"
    else:
        tmp = Path(tempfile.mkdtemp(prefix="verif_C17_replay_"))
        try:
            if case[0] == "debug-logging":
                case = case[1]
                kind, det = glue_case(case, tmp, debug_logging=True)
            else:
                kind, det = glue_case(case, tmp)
        finally:
            shutil.rmtree(tmp, ignore_errors=True)
        if kind in ("escape", "elsewhere"):
            bad = f"Document() on {case}: {det} escaped from opening the document"
        elif EXPECTED.get(case[0]) and kind in ("ok", "lib") and det != EXPECTED[case[0]]:
            bad = f"Document() on {case}: expected {EXPECTED[case[0]]}, got {kind} {det}"
    if bad:
        print("replay: still failing: " + bad)
        print(f"VIOLATION property=C17 replay={path}")
        return 1
    print("replay: case passes on the current tree")
    return 0
