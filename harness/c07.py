"""C07 - every saved package is structurally sound and referentially closed.

Theorems: coq/Props/C07.v (verified checker: validate = [] <-> wf_package; fresh identifiers for all
allocation histories; tile / row-info / record layout for every grid; merge-map packing).

Correspondence: every package the implementation saves is abstracted by protobuf reflection
(harness/c07_abstract.py) into the model's line format; the extracted `validate` must report exactly
what the independent Python re-statement of the checks reports (and nothing at all on a sound
package); abstract-level seeded defects keep that comparison non-vacuous.  ObjectStore's identifier
allocation runs in lock-step with the model (real create_object_from_dict / new_message_id calls and
the literal __init__ over stubbed loaders); the model's abstraction of a packed row is compared with
the harness' abstraction of the rows found in saved files.

Oracle (implementation only): c07_abstract.py_validate_* on every saved package + Document(saved)."""
from __future__ import annotations

import json
import re
import warnings
from datetime import datetime, timedelta
from pathlib import Path

from . import c07_abstract as A
from . import common
from .common import Ctx

warnings.filterwarnings("ignore")

LEVEL = "proof"
ENTRY = "C07Entry"
KNOWN_NULL_OWNER = "dangling-ref:TST.TableModelArchive.category_owner=0:add_table"

STYLES = [
    dict(bold=True), dict(italic=True, font_size=14.0), dict(font_color=(230, 25, 25)), dict(bg_color=(10, 200, 30)),
    dict(alignment=("right", "top")), dict(font_name="American Typewriter", underline=True), dict(text_wrap=False, text_inset=6.0),
    dict(first_indent=2.0, left_indent=3.0, strikethrough=True), dict(bg_color=(1, 2, 3), bold=True, alignment=("center", "middle")),
]
BORDERS = [(2.0, (0, 0, 0), "solid"), (1.0, (29, 177, 0), "dashes"), (4.0, (212, 24, 118), "dots"), (0.5, (0, 162, 255), "solid")]
SIDES = ["top", "right", "bottom", "left"]
FORMATS = ["number", "currency", "percentage", "scientific", "fraction", "base", "datetime"]
CONTROLS = ["tickbox", "rating", "slider", "stepper", "popup"]
CUSTOMS = ["number", "datetime", "text"]


# ---------------------------------------------------------------- values (JSON-able in ops)
def enc_value(v):
    if isinstance(v, bool):
        return ["b", v]
    if isinstance(v, int):
        return ["i", v]
    if isinstance(v, float):
        return ["f", v]
    if isinstance(v, str):
        return ["s", v]
    if isinstance(v, datetime):
        return ["d", v.isoformat()]
    if isinstance(v, timedelta):
        return ["td", v.total_seconds()]
    raise TypeError(v)


def dec_value(t):
    k, v = t
    if k == "d":
        return datetime.fromisoformat(v)
    if k == "td":
        return timedelta(seconds=v)
    return v


def rand_value(rng):
    return rng.choice([
        rng.randrange(-1000, 100000), round(rng.random() * 1000, 3), rng.choice(["a", "héllo", "multi\nline", "x" * 40, "", "\U0001F600"]),
        rng.random() < 0.5, datetime(2000 + rng.randrange(30), rng.randrange(1, 13), rng.randrange(1, 28), rng.randrange(24)),
        timedelta(seconds=rng.randrange(0, 10 ** 6)), rng.randrange(10 ** 9, 10 ** 12), 0.5, "dup", "dup",
    ])


# ---------------------------------------------------------------- running a history on the implementation
def default_document() -> str:
    from numbers_parser.constants import DEFAULT_DOCUMENT
    return str(DEFAULT_DOCUMENT)


class Runner:
    """One real document driven by ops; records which op allocated which identifier range."""

    def __init__(self, tmp: Path, name: str, base):
        from numbers_parser import Document
        self.tmp, self.name = tmp, name
        self.saves = 0
        self.alloc = []          # (lo, hi, label): identifiers in (lo, hi] were allocated by `label`
        self.ops = []
        self.base = base
        if isinstance(base, list):         # ["new", nr, nc]
            self.doc = Document(num_rows=base[1], num_cols=base[2])
            self.src = default_document()
        elif base is None:
            self.doc = Document()
            self.src = default_document()
        else:
            self.doc = Document(base)
            self.src = base
        self.relist()

    def relist(self):
        self.tables = [t for s in self.doc.sheets for t in s.tables]

    def max_id(self):
        return self.doc._model.objects._max_id

    def table(self, i):
        return self.tables[i % len(self.tables)]

    def apply(self, op) -> str:
        lo = self.max_id()
        try:
            out = self._apply(op)
        except Exception as e:  # noqa: BLE001 - refused edits are not C07's subject
            out = "!" + type(e).__name__
        hi = self.max_id()
        if hi > lo:
            self.alloc.append((lo, hi, LABEL.get(op[0], op[0])))
        self.ops.append(op)
        return out

    def _apply(self, op) -> str:
        from numbers_parser import RGB, Alignment, BackgroundImage, Border
        from numbers_parser.xrefs import xl_range
        k = op[0]
        d = self.doc
        if k == "NT":
            self.tables.append(d.sheets[op[1] % len(d.sheets)].add_table(num_rows=op[2], num_cols=op[3]))
            return "ok"
        if k == "NS":
            d.add_sheet(num_rows=op[1], num_cols=op[2])
            self.tables.append(d.sheets[-1].tables[0])
            return "ok"
        t = self.table(op[1])
        if k == "W":
            t.write(op[2], op[3], dec_value(op[4]))
        elif k == "AR":
            t.add_row(num_rows=op[2], start_row=op[3])
        elif k == "AC":
            t.add_column(num_cols=op[2], start_col=op[3])
        elif k == "DR":
            t.delete_row(num_rows=op[2], start_row=op[3])
        elif k == "DC":
            t.delete_column(num_cols=op[2], start_col=op[3])
        elif k == "M":
            t.merge_cells(xl_range(op[2], op[3], op[4], op[5]))
        elif k == "ST":
            kw = dict(STYLES[op[4]])
            for key in ("font_color", "bg_color"):
                if key in kw:
                    kw[key] = RGB(*kw[key])
            if "alignment" in kw:
                kw["alignment"] = Alignment(*kw["alignment"])
            st = d.add_style(**kw)
            if op[5]:
                t.write(op[2], op[3], "styled", style=st)
            else:
                t.set_cell_style(op[2], op[3], st)
        elif k == "IMG":
            data = b"\x89PNG\r\n\x1a\n" + bytes([op[4] % 256]) * (50 + op[4] % 7)
            st = d.add_style(bg_image=BackgroundImage(data, f"c07-img-{op[4]}.png"))
            t.write(op[2], op[3], "img", style=st)
            if op[5]:
                self.table(op[1] + 1).set_cell_style(0, 0, st)
        elif k == "BD":
            w, col, sty = BORDERS[op[5]]
            t.set_cell_border(op[2], op[3], SIDES[op[4]], Border(w, RGB(*col), sty), op[6])
        elif k == "CF":
            kind = CUSTOMS[op[4]]
            if kind == "number":
                f = d.add_custom_format(type="number", num_decimals=2, show_thousands_separator=bool(op[5]))
                t.write(op[2], op[3], 1234.5)
            elif kind == "datetime":
                f = d.add_custom_format(type="datetime", format="dd MMMM, yyyy")
                t.write(op[2], op[3], datetime(2021, 3, 4))
            else:
                f = d.add_custom_format(type="text", format="x %s y")
                t.write(op[2], op[3], "txt")
            t.set_cell_formatting(op[2], op[3], "custom", format=f if op[5] else f.name)
        elif k == "FM":
            kind = FORMATS[op[4]]
            if kind == "datetime":
                t.write(op[2], op[3], datetime(2022, 5, 6, 7, 8, 9))
                t.set_cell_formatting(op[2], op[3], "datetime", date_time_format="yyyy-MM-dd HH:mm")
            else:
                t.write(op[2], op[3], 12.25)
                kw = {"base": dict(base=16), "currency": dict(currency_code="EUR")}.get(kind, {})
                t.set_cell_formatting(op[2], op[3], kind, **kw)
        elif k == "CT":
            kind = CONTROLS[op[4]]
            if kind == "tickbox":
                t.write(op[2], op[3], bool(op[5]))
                t.set_cell_formatting(op[2], op[3], "tickbox")
            elif kind == "rating":
                t.write(op[2], op[3], float(op[5] % 6))
                t.set_cell_formatting(op[2], op[3], "rating")
            elif kind == "slider":
                t.write(op[2], op[3], 20.0)
                t.set_cell_formatting(op[2], op[3], "slider", minimum=0.0, maximum=50.0, increment=0.5)
            elif kind == "stepper":
                t.write(op[2], op[3], 3.0)
                t.set_cell_formatting(op[2], op[3], "stepper", minimum=0.0, maximum=10.0, increment=1.0)
            else:
                t.write(op[2], op[3], "Dog")
                t.set_cell_formatting(op[2], op[3], "popup", popup_values=["Cat", "Dog", f"R{op[5]}"], allow_none=bool(op[5] % 2))
        elif k == "CAP":
            t.caption = op[2]
            t.caption_enabled = bool(op[3])
        elif k == "RN":
            t.name = op[2]
        else:
            return "?"
        return "ok"

    def save(self) -> tuple[str, str, list]:
        """save; returns (source path, saved path, allocation table)."""
        self.saves += 1
        p = self.tmp / f"{self.name}_{self.saves}.numbers"
        lo = self.max_id()
        self.doc.save(p)
        hi = self.max_id()
        if hi > lo:
            self.alloc.append((lo, hi, "save"))
        return self.src, str(p), list(self.alloc)

    def continue_from(self, path: str):
        from numbers_parser import Document
        self.doc = Document(path)
        self.src = path
        self.alloc = []
        self.relist()


LABEL = {"NT": "add_table", "NS": "add_table", "ST": "add_style", "IMG": "add_style", "BD": "set_cell_border",
         "CF": "add_custom_format", "FM": "set_cell_formatting", "CT": "set_cell_formatting", "CAP": "caption",
         "W": "write", "M": "merge_cells", "AR": "add_row", "AC": "add_column", "DR": "delete_row", "DC": "delete_column"}


def gen_op(rng, r: Runner, weights=None):
    """One random op, generated against the live document so that it is (mostly) applicable."""
    ti = rng.randrange(len(r.tables))
    t = r.tables[ti]
    nr, nc = t.num_rows, t.num_cols
    rr = lambda: rng.choice([0, nr - 1, rng.randrange(nr)])  # noqa: E731
    cc = lambda: rng.choice([0, nc - 1, rng.randrange(nc)])  # noqa: E731
    k = rng.choice(weights or ["W", "W", "W", "AR", "AC", "DR", "DC", "M", "ST", "ST", "IMG", "BD", "BD", "CF", "FM", "CT", "CT",
                               "CAP", "NT", "NS", "RN"])
    if k == "W":
        return ["W", ti, rng.choice([rr(), nr, nr + rng.randrange(3)]), rng.choice([cc(), nc]), enc_value(rand_value(rng))]
    if k in ("AR", "AC"):
        ext = nr if k == "AR" else nc
        return [k, ti, rng.choice([1, 1, 2, 3]), rng.choice([None, 0, ext - 1, rng.randrange(ext)])]
    if k in ("DR", "DC"):
        ext = nr if k == "DR" else nc
        if ext < 2:
            return ["W", ti, 0, 0, enc_value(1)]
        n = rng.randrange(1, ext)
        return [k, ti, n, rng.choice([None, rng.randrange(0, ext - n + 1)])]
    if k == "M":
        r0, c0 = rng.randrange(nr), rng.randrange(nc)
        r1, c1 = min(nr - 1, r0 + rng.randrange(3)), min(nc - 1, c0 + rng.randrange(3))
        if (r0, c0) == (r1, c1):
            r1 = min(nr - 1, r0 + 1)
            c1 = min(nc - 1, c0 + 1)
        return ["M", ti, r0, c0, r1, c1]
    if k == "ST":
        return ["ST", ti, rr(), cc(), rng.randrange(len(STYLES)), rng.randrange(2)]
    if k == "IMG":
        return ["IMG", ti, rr(), cc(), rng.randrange(10 ** 6), rng.randrange(2)]
    if k == "BD":
        side = rng.randrange(4)
        r0, c0 = rr(), cc()
        room = (nc - c0) if SIDES[side] in ("top", "bottom") else (nr - r0)
        return ["BD", ti, r0, c0, side, rng.randrange(len(BORDERS)), rng.randrange(1, max(2, min(room, 4) + 1))]
    if k == "CF":
        return ["CF", ti, rr(), cc(), rng.randrange(3), rng.randrange(2)]
    if k == "FM":
        return ["FM", ti, rr(), cc(), rng.randrange(len(FORMATS))]
    if k == "CT":
        return ["CT", ti, rr(), cc(), rng.randrange(len(CONTROLS)), rng.randrange(10)]
    if k == "CAP":
        return ["CAP", ti, rng.choice(["cap", "Caption é", ""]), rng.randrange(2)]
    if k == "NT":
        return ["NT", rng.randrange(4), rng.randrange(1, 9), rng.randrange(1, 7)]
    if k == "NS":
        return ["NS", rng.randrange(1, 9), rng.randrange(1, 7)]
    return ["RN", ti, f"T{rng.randrange(1000)}"]


# ---------------------------------------------------------------- checking one saved package
class Checker:
    def __init__(self, ctx: Ctx, exe):
        self.ctx, self.exe = ctx, exe
        self.src_cache = {}
        self.batch = []          # (stream, case, request, expected)
        self.batch_bytes = 0
        self.known = {k["signature"] for k in common.load_known() if k["property"] == "C07" and k.get("status") == "open"}
        self.minimised = set()
        self.abstracts = []      # a few abstract packages kept for the seeded-defect stream
        self.rows_seen = 0

    def remember(self, path, pkg):
        while len(self.src_cache) > 5:
            self.src_cache.pop(next(k for k in self.src_cache if k != default_document()), None)
        self.src_cache[path] = pkg

    def src_pkg(self, path):
        if path not in self.src_cache:
            self.remember(path, A.Pkg(path))
        return self.src_cache[path]

    def queue(self, stream, case, req, expected):
        self.batch.append((stream, case, req, expected))
        self.batch_bytes += len(req)
        if self.batch_bytes > 40_000_000:
            self.flush()

    def flush(self):
        if self.exe is None or not self.batch:
            self.batch, self.batch_bytes = [], 0
            return
        by = {}
        for s, c, r, e in self.batch:
            by.setdefault(s, []).append((c, r, e))
        for s, items in by.items():
            self.ctx.compare(s, [c for c, _, _ in items], [r for _, r, _ in items], [e for _, _, e in items], self.exe,
                             nontrivial=lambda case, out: True)
        self.batch, self.batch_bytes = [], 0

    # -- signatures of the oracle's findings
    @staticmethod
    def edit_of(oid, added, alloc):
        if not added:
            return "rewrite"
        for lo, hi, lab in alloc:
            if lo < oid <= hi:
                return lab
        return "unknown"

    def signatures(self, a, defects, alloc):
        byid = {}
        for o in a["objects"]:
            byid.setdefault(o["id"], o)
        names = [n for n, _ in a["members"]]
        comps = {c["id"]: c for c in a["components"]}
        refdef = {(int(x.split(":")[1]), int(x.split(":")[2])) for x in defects if x.startswith("ref:")}
        out = []
        for x in defects:
            p = x.split(":")
            k = p[0]
            if k in ("ref", "dref"):
                o = byid[int(p[1])]
                rid = int(p[2])
                paths = [pth for r, pth in (o["refs"] if k == "ref" else o["drefs"]) if r == rid]
                what = "dangling-ref" if k == "ref" else "dangling-data-ref"
                out.append((f"{what}:{paths[0]}{'=0' if rid == 0 else ''}:{self.edit_of(o['id'], o['added'], alloc)}", x))
            elif k in ("href", "hdref"):
                o = byid[int(p[1])]
                if k == "href" and (int(p[1]), int(p[2])) in refdef:
                    continue      # the header entry mirrors a message reference already reported
                out.append((f"dangling-header-{'ref' if k == 'href' else 'data-ref'}:{o['tname']}:{self.edit_of(o['id'], o['added'], alloc)}", x))
            elif k in ("dupid", "above"):
                o = byid[int(p[1])]
                out.append((f"{'duplicate-id' if k == 'dupid' else 'id-above-last-object-identifier'}:{o['tname']}:{self.edit_of(o['id'], True, alloc)}", x))
            elif k == "unlisted":
                out.append((f"unlisted-archive:{re.sub(r'[0-9]+', 'N', names[int(p[1])])}", x))
            elif k in ("nofile", "noroot"):
                c = comps[int(p[1])]
                out.append((f"component-{'file-missing' if k == 'nofile' else 'root-object-missing'}:{c['preferred']}", x))
            elif k in ("extcomp", "extobj", "uuid"):
                c = comps[int(p[1])]
                out.append((f"metadata-{k}-unresolved:{c['preferred']}", x))
            elif k in ("dupdata", "nodata"):
                out.append((f"data-{'duplicate-id' if k == 'dupdata' else 'file-missing'}", x))
            else:
                out.append((f"tile-{k}", x))
        return out

    def check(self, case: dict, src_path: str, dst_path: str, alloc: list, keep=False) -> list:
        """abstract + model/py comparison + oracle.  Returns the (signature, defect) list."""
        ctx = self.ctx
        try:
            src = self.src_pkg(src_path)
        except Exception as e:  # noqa: BLE001
            ctx.dist("source-not-abstractable")
            ctx.notes.append(f"source {Path(src_path).name} could not be abstracted ({type(e).__name__}); skipped")
            return []
        try:
            dst = A.Pkg(dst_path)
            a = A.abstract(dst, src)
        except Exception as e:  # noqa: BLE001
            ctx.oracle_fail(f"saved-package-unreadable:{type(e).__name__}", case, f"{type(e).__name__}: {e}"[:300])
            return [("saved-package-unreadable", "")]
        self.remember(dst_path, dst)     # the next generation's source
        name = case.get("name", "?")
        try:
            return self._check(case, name, a, dst, dst_path, alloc, keep)
        except Exception as e:  # noqa: BLE001 - a package the checks cannot digest is a finding, not a machinery failure
            import traceback
            ctx.oracle_fail(f"package-check-crashed:{type(e).__name__}", case, traceback.format_exc()[-600:])
            return [(f"package-check-crashed:{type(e).__name__}", str(e)[:100])]

    def _check(self, case, name, a, dst, dst_path, alloc, keep):
        ctx = self.ctx
        d_pkg = A.py_validate_pkg(a)
        self.queue("package/validate", name, A.pkg_line(a), A.render(d_pkg))
        # the same package with the known finding's references allowed: must be clean (closure_partial)
        K = sorted({(o["id"], 0) for o in a["objects"] if o["added"] and o["tname"] == "TST.TableModelArchive"
                    for r, pth in o["refs"] if r == 0 and pth == "TST.TableModelArchive.category_owner"})
        if K:
            ak = dict(a, D=sorted(set(a["D"]) | set(K)))
            self.queue("package/validate-modulo-known", name, A.pkg_line(ak), A.render(A.py_validate_pkg(ak)))
        defects = list(d_pkg)
        for t in a["tables"]:
            ctx.dist("tables:rewritten" if t["rewritten"] else "tables:kept-from-source")
            if not t["rewritten"]:
                continue
            dt = A.py_validate_tbl(t)
            self.queue("table/validate", f"{name}:{t['id']}:{t['nrows']}x{t['ncols']}", A.tbl_line(t), A.render(dt))
            self.queue("table/tile-sizes", f"{name}:{t['nrows']}", f"tsz\t{t['nrows']}", ",".join(str(len(tl["rows"])) for tl in t["tiles"]))
            defects += dt
        ctx.dist("objects", len(a["objects"]))
        ctx.dist("objects:added", sum(o["added"] for o in a["objects"]))
        ctx.dist("objects:rewritten", sum(o["touched"] and not o["added"] for o in a["objects"]))
        ctx.dist("references-checked", sum(len(o["refs"]) + len(o["hrefs"]) for o in a["objects"] if o["touched"]))
        ctx.dist("source-dangling-pairs", len(a["D"]))
        ctx.count("oracle-package")
        ctx.nontrivial(("pkg", name, len(a["objects"]), a["last"]))
        sigs = self.signatures(a, defects, alloc)
        sigs += self.extra_structure(a, dst)
        if keep and len(self.abstracts) < 12:
            self.abstracts.append((name, dict(a, objects=[{k: v for k, v in o.items() if k not in ("msg", "bytes")} for o in a["objects"]])))
        self.sample_rows(name, dst)
        # reopen
        try:
            from numbers_parser import Document
            from .c06 import LookupWatch
            with LookupWatch() as lw:
                d2 = Document(dst_path)
                for s in d2.sheets:
                    for t in s.tables:
                        _ = t.num_rows, t.num_cols
                        if t.num_rows * t.num_cols <= 4000:
                            for row in t.rows():
                                for c in row:
                                    _ = c.value
            ctx.count("oracle-reopen")
            # a cell record of a rewritten table that points at a string/rich-text/format entry its table's lookup list
            # does not hold is dangling structure as well (the reader silently shows '' for it)
            added_tables = {t["id"] for t in a["tables"] if t["rewritten"]}
            ev = [e for e in lw.events if e[1] in added_tables and e[2] != 0]
            if ev and not case.get("base"):
                sigs.append(("dangling-list-key:" + str(ev[0][0]), f"table {ev[0][1]}: key {ev[0][2]} is used by a cell record but missing from the table's {ev[0][0]} list ({len(ev)} such lookups)"))
        except Exception as e:  # noqa: BLE001
            sigs.append((f"reopen-raises:{type(e).__name__}", f"{type(e).__name__}: {e}"[:200]))
        return sigs

    def extra_structure(self, a, dst: A.Pkg) -> list:
        """Implementation-only clauses next to the verified checker's: (1) the header buckets of a rewritten table describe
        exactly its declared rows and columns; (2) the archive header of an object the library created or rewrote lists
        every object its body refers to (the header's reference list is what Numbers uses to find an archive's
        dependencies)."""
        out = []
        by_id = {o["id"]: o for o in dst.objects}
        rew = {t["id"]: t for t in a["tables"] if t["rewritten"]}
        for o in dst.objects:
            if o["tname"] == "TST.TableModelArchive" and o["id"] in rew:
                t = rew[o["id"]]
                bds = o["msg"].base_data_store
                col = by_id.get(bds.columnHeaders.identifier)
                if col is not None:
                    idx = sorted(h.index for h in col["msg"].headers)
                    if idx != list(range(t["ncols"])):
                        out.append(("header-bucket:columns", f"table {o['id']} declares {t['ncols']} columns, its column header bucket describes {idx[:12]}"))
                rows = []
                for b in bds.rowHeaders.buckets:
                    rb = by_id.get(b.identifier)
                    if rb is not None:
                        rows += [h.index for h in rb["msg"].headers]
                if rows and sorted(rows) != list(range(t["nrows"])):
                    out.append(("header-bucket:rows", f"table {o['id']} declares {t['nrows']} rows, its row header buckets describe {len(rows)} rows ({sorted(rows)[:8]}...)"))
        for o in a["objects"]:
            if not o["touched"]:
                continue
            body = {r for r, _ in o["refs"] if r != 0}
            missing = sorted(body - set(o["hrefs"]))
            if missing:
                out.append((f"header-omits-reference:{o['tname']}", f"object {o['id']} ({o['tname']}) refers to {missing[:6]} but its archive header object_references omits them"))
                break
        return out

    def sample_rows(self, name, dst: A.Pkg):
        """abs_row of the model on the records found in a saved row = the harness' abstraction of that row."""
        if self.rows_seen > (400 if self.ctx.quick else 6000):
            return
        from array import array
        from numbers_parser.model import get_storage_buffers_for_row
        for o in dst.objects:
            if o["tname"] != "TST.Tile":
                continue
            tile = o["msg"]
            infos = list(tile.rowInfos)
            for ri in infos[:: max(1, len(infos) // 3)][:4]:
                if not ri.has_wide_offsets:
                    continue
                offs = array("h", ri.cell_offsets).tolist()
                if len(offs) > 300:
                    continue
                bufs = get_storage_buffers_for_row(ri.cell_storage_buffer, ri.cell_offsets, len(offs), True)
                cells = ",".join("-" if b is None else (bytes(b).hex() or "e") for b in bufs)
                buf = ri.cell_storage_buffer
                flags = [A.record_flags(buf, x * 4) for x in offs if x >= 0]
                exp = ",".join(map(str, offs)) + "\t" + ",".join(map(str, flags)) + f"\t{len(buf)}\t{ri.cell_count}"
                self.queue("saved-rows/abs", f"{name}:{o['id']}:{ri.tile_row_index}", f"abs\t{cells}", exp)
                self.rows_seen += 1
                # hypothesis records_ok of tiles_wf on the records actually stored: as long as their flags word says
                lens = [len(b) for b in bufs if b is not None]
                self.ctx.count("saved-rows/record-length")
                if lens != [A.reclen(f) for f in flags]:
                    self.ctx.disagree("saved-rows/record-length", f"{name}:{o['id']}:{ri.tile_row_index}",
                                      str([A.reclen(f) for f in flags])[:200], str(lens)[:200])


def report(ctx: Ctx, chk: Checker, case: dict, sigs: list, rerun=None):
    """Turn (signature, defect) pairs into oracle failures; minimise the history of a new signature once."""
    seen = set()
    for sig, detail in sigs:
        if sig in seen:
            continue
        seen.add(sig)
        c = dict(case)
        if rerun is not None and sig not in chk.known and sig not in chk.minimised and case.get("ops"):
            chk.minimised.add(sig)
            c["ops"] = minimise(ctx, case, sig)
            c["minimised"] = True
        ctx.oracle_fail(sig, c, f"{sig}: defect {detail}")


def run_case(tmp: Path, case: dict, chk: Checker | None = None, ctx: Ctx | None = None) -> list:
    """Execute a recorded case (base + ops, saves at "SV" and at the end) and return all signatures found.
    With chk=None a throw-away checker without model comparison is used (replay / minimisation; ctx required)."""
    if chk is None:
        chk = Checker(ctx, None)
    try:
        r = Runner(tmp, re.sub(r"\W", "_", case.get("name", "case")), case.get("base"))
    except Exception as e:  # noqa: BLE001
        return [(f"open-raises:{type(e).__name__}", str(e)[:100])] if case.get("must_open") else []
    sigs = []
    for op in case.get("ops", []) + [["SV"]]:
        if op[0] in ("SV", "SS"):
            try:
                src, dst, alloc = r.save()
            except Exception as e:  # noqa: BLE001
                chk.ctx.dist(f"save-raises:{type(e).__name__}")
                if not any(n.startswith("save raised") for n in chk.ctx.notes[-3:]):
                    chk.ctx.notes.append(f"save raised {type(e).__name__} for case {case.get('name')} (no package produced; outside C07)")
                break
            sigs += chk.check(case, src, dst, alloc, keep=case.get("keep", False))
            if op[0] == "SS":
                continue      # the same Document object goes on and is saved again later
            try:
                r.continue_from(dst)
            except Exception:  # noqa: BLE001 - already reported by check() as reopen-raises
                break
        else:
            r.apply(op)
    return sigs


def minimise(ctx: Ctx, case: dict, sig: str) -> list:
    ops = list(case["ops"])
    i = 0
    budget = 40
    while i < len(ops) and budget > 0:
        trial = ops[:i] + ops[i + 1:]
        budget -= 1
        sub = common.Ctx("C07", "quick", 0, LEVEL)
        try:
            found = run_case(sub.tmp, dict(case, ops=trial), None, sub)
        except Exception:  # noqa: BLE001
            found = []
        sub.cleanup()
        if any(s == sig for s, _ in found):
            ops = trial
        else:
            i += 1
    return ops


# ---------------------------------------------------------------- identifier allocation correspondence
class FakeMeta:
    last_object_identifier = 0

def idalloc_impl(keys, last, ops):
    from numbers_parser import containers
    from numbers_parser.constants import PACKAGE_ID
    from numbers_parser.generated import TSTArchives_pb2 as TSTArchives
    class FakeIWork:
        def __init__(self, handler=None):
            self.h = handler

        def open(self, filepath):
            for k in keys:
                self.h._objects[k] = FakeMeta() if k == PACKAGE_ID else object()
                self.h._object_to_filename_map[k] = "Index/Document.iwa"
            if PACKAGE_ID in self.h._objects:
                self.h._objects[PACKAGE_ID].last_object_identifier = last
            from numbers_parser.iwafile import IWAFile
            self.h._file_store["Index/CalculationEngine.iwa"] = IWAFile.from_dict({"chunks": [{"archives": []}]})
    orig = containers.IWork
    containers.IWork = FakeIWork
    try:
        st = containers.ObjectStore(Path("x.numbers"))
        ids = []
        for o in ops:
            if o == "n":
                ids.append(st.new_message_id())
            else:
                i, _ = st.create_object_from_dict("CalculationEngine", {"max_order": 1}, TSTArchives.StrokeSidecarArchive)
                ids.append(i)
        lastv = st._objects[PACKAGE_ID].last_object_identifier if PACKAGE_ID in st._objects else last
        return ",".join(map(str, ids)) + f"\t{st._max_id}\t{lastv}\t{len(st._objects)}"
    except Exception as e:  # noqa: BLE001
        return "!" + type(e).__name__
    finally:
        containers.IWork = orig



def idalloc_stream(ctx: Ctx, exe):
    """(1) the literal ObjectStore.__init__ / new_message_id / create_object_from_dict over stubbed loaders,
    (2) real allocations on the default document."""
    from numbers_parser import containers
    from numbers_parser.constants import PACKAGE_ID
    from numbers_parser.generated import TSTArchives_pb2 as TSTArchives
    rng = ctx.rng
    cases, reqs, outs = [], [], []

    impl_run = idalloc_impl

    key_sets = [[], [1], [2], [1, 2], [1, 2, 999999], [1, 2, 1000000], [1, 2, 1000001], [1, 2, 907355], [2, 5, 1999999],
                [2, 2000000], [1, 2, 3, 16659], [2, 10 ** 9 + 1], [2, 2 ** 40 + 12345], [2, 7 * 10 ** 12], [2, 999999999999],
                [2, 1000001, 1000002]]
    for _ in range(40 if ctx.quick else 400):
        m = rng.choice([rng.randrange(3, 3 * 10 ** 6), rng.randrange(10 ** 6, 10 ** 9), rng.choice([1, 2, 3, 17]) * 10 ** 6 + rng.choice([-1, 0, 1])])
        key_sets.append(sorted({1, 2, m, rng.randrange(1, m + 1)}) if rng.random() < 0.9 else [1, m])
    for ks in key_sets:
        for j in range(3):
            ops = "".join(rng.choice("nc") for _ in range(rng.randrange(0, 9)))
            last = max(ks) if ks else 0
            if j == 2 and ks and max(ks) > 3:
                # a recorded high-water mark that lags behind the objects present (tests/data/issue-18.numbers has
                # one), also from an earlier million-block than the highest object
                last = rng.choice([max(ks) - 1, max(ks) // 2, max(3, max(ks) - 1000001), 3])
            cases.append({"keys": ks, "ops": ops, "last": last})
            reqs.append(f"ids\t{','.join(map(str, ks))}\t{last}\t{ops}")
            o = impl_run(ks, last, ops)
            outs.append(o)
            # implementation-only: added identifiers are new, distinct and not above the recorded mark
            if not o.startswith("!") and ops and PACKAGE_ID in ks:
                ids_s, _mx, lastv, _n = o.split("\t")
                ids = [int(x) for x in ids_s.split(",") if x]
                ctx.count("oracle-idalloc")
                if len(set(ids)) != len(ids) or any(x in ks for x in ids) or max(ids) > int(lastv):
                    ctx.oracle_fail("id-allocation", {"keys": ks, "last": last, "ops": ops},
                                    f"objects {ks[-4:]}, recorded mark {last}: allocated {ids[:8]}, mark afterwards {lastv}")
    ctx.dist("idalloc:stubbed", len(cases))
    # real document
    from numbers_parser import Document
    for i in range(4 if ctx.quick else 30):
        doc = Document()
        st = doc._model.objects
        keys = list(st._objects.keys())
        last0 = st._objects[PACKAGE_ID].last_object_identifier
        ops = "".join(rng.choice("ncc") for _ in range(rng.randrange(1, 30)))
        ids = []
        for o in ops:
            if o == "n":
                ids.append(st.new_message_id())
            else:
                ids.append(st.create_object_from_dict("CalculationEngine", {"max_order": 1}, TSTArchives.StrokeSidecarArchive)[0])
        cases.append({"keys": "default-document", "ops": ops})
        reqs.append(f"ids\t{','.join(map(str, keys))}\t{last0}\t{ops}")
        outs.append(",".join(map(str, ids)) + f"\t{st._max_id}\t{st._objects[PACKAGE_ID].last_object_identifier}\t{len(st._objects)}")
        # implementation-only: fresh, unique, below the mark
        if len(set(ids)) != len(ids) or any(x in keys for x in ids) or (ids and max(ids) > st._objects[PACKAGE_ID].last_object_identifier):
            ctx.oracle_fail("id-allocation", {"ops": ops}, f"ids {ids[:10]} last {st._objects[PACKAGE_ID].last_object_identifier}")
    ctx.dist("idalloc:default-document", 4 if ctx.quick else 30)
    if exe:
        ctx.compare("idalloc", cases, reqs, outs, exe, nontrivial=lambda c, o: not o.startswith("!"))


# ---------------------------------------------------------------- seeded defects at the abstract level
def seeded_defects(ctx: Ctx, chk: Checker):
    """Mutate abstract packages so that both checkers must report the same non-empty defect lists."""
    rng = ctx.rng
    import copy
    n = 0
    for name, a0 in chk.abstracts:
        for kind in ["drop-object", "dup-id", "lower-last", "drop-component", "drop-member", "flip-touched", "bad-data",
                     "tile-shift", "tile-offset", "tile-count", "tile-index", "tile-move-row", "drop-D",
                     "bad-dataref", "bad-uuid", "tile-big", "tile-offslen", "tile-offneg", "tile-flagslen"]:
            a = copy.deepcopy(a0)
            objs = a["objects"]
            added = [o for o in objs if o["added"]] or objs
            if kind == "drop-object":
                victim = rng.choice(added)
                a["objects"] = [o for o in objs if o is not victim]
            elif kind == "dup-id":
                rng.choice(added)["id"] = rng.choice(objs)["id"]
            elif kind == "lower-last":
                a["last"] = max(o["id"] for o in objs) - rng.randrange(1, 3)
            elif kind == "drop-component":
                cs = [c for c in a["components"] if c["added"]]
                if not cs:
                    continue
                a["components"].remove(rng.choice(cs))
            elif kind == "drop-member":
                ms = [i for i, (nm, ad) in enumerate(a["members"]) if ad and nm.endswith(".iwa")]
                if not ms:
                    continue
                i = rng.choice(ms)
                a["members"][i] = (a["members"][i][0] + ".gone", True)
            elif kind == "flip-touched":
                for o in objs:
                    o["touched"] = True
                a["D"] = []
            elif kind == "bad-data":
                a["datas"].append({"id": a["datas"][0]["id"] if a["datas"] else 1, "file": "nope.png", "added": True})
            elif kind == "bad-dataref":
                v = rng.choice(added)
                v["touched"] = True
                v["drefs"] = list(v["drefs"]) + [(987654321, "seeded")]
                v["hdrefs"] = list(v["hdrefs"]) + [987654322]
            elif kind == "bad-uuid":
                if not a["components"]:
                    continue
                rng.choice(a["components"])["uuid"].append((987654323, True))
            elif kind == "drop-D":
                a["D"] = a["D"][1:]
                for o in objs:
                    o["touched"] = True
            tmut = None
            if kind.startswith("tile-"):
                ts = [t for t in a["tables"] if t["rewritten"] and t["tiles"] and t["tiles"][0]["rows"]]
                if not ts:
                    continue
                tmut = rng.choice(ts)
                tl = tmut["tiles"][0]
                row = rng.choice(tl["rows"])
                if kind == "tile-shift":
                    tmut["nrows"] += rng.choice([-1, 1])
                elif kind == "tile-offset":
                    pres = [i for i, x in enumerate(row["offs"]) if x >= 0]
                    if len(pres) < 2:
                        continue
                    row["offs"][pres[1]] -= 1
                elif kind == "tile-count":
                    row["count"] += 1
                elif kind == "tile-index":
                    row["index"] = rng.choice([256, tl["rows"][0]["index"]]) if len(tl["rows"]) > 1 else 256
                elif kind == "tile-big":
                    import copy as _c
                    while len(tl["rows"]) <= 256:
                        nr_ = _c.deepcopy(tl["rows"][-1])
                        nr_["index"] += 1
                        tl["rows"].append(nr_)
                    tl["numrows"] = len(tl["rows"])
                elif kind == "tile-offslen":
                    row["offs"].append(-1)
                elif kind == "tile-offneg":
                    row["offs"][rng.randrange(len(row["offs"]))] = -2
                elif kind == "tile-flagslen":
                    if not row["flags"]:
                        continue
                    row["flags"].pop()
                elif kind == "tile-move-row":
                    if len(tmut["tiles"]) < 2:
                        tmut["tiles"].append({"tileid": 1, "numrows": 0, "rows": [], "oid": 0})
                    tmut["tiles"][1]["rows"].append(tl["rows"].pop())
            if tmut is not None:
                exp = A.render(A.py_validate_tbl(tmut))
                chk.queue("seeded/table", f"{name}:{kind}", A.tbl_line(tmut), exp)
            else:
                exp = A.render(A.py_validate_pkg(a))
                chk.queue("seeded/package", f"{name}:{kind}", A.pkg_line(a), exp)
            ctx.dist("seeded:reported" if exp != "ok" else "seeded:no-effect")
            for dk in {x.split(":")[0] for x in exp.split(";")} - {"ok"}:
                ctx.dist("seeded-defect-kind:" + dk)
            n += 1
    ctx.dist("seeded-abstract-defects", n)


# ---------------------------------------------------------------- case generators
def random_case(ctx: Ctx, chk: Checker, name: str, base, length: int, weights=None, sv_prob=0.08) -> dict:
    """Generate ops online against a live document, checking at every save; returns the recorded case."""
    rng = ctx.rng
    case = {"name": name, "base": base, "ops": []}
    r = Runner(ctx.tmp, name, base)
    sigs = []
    for _ in range(length):
        if rng.random() < sv_prob:
            op = ["SV"]
        else:
            op = gen_op(rng, r, weights)
        case["ops"].append(op)
        if op[0] in ("SV", "SS"):
            try:
                src, dst, alloc = r.save()
            except Exception as e:  # noqa: BLE001
                ctx.dist(f"save-raises:{type(e).__name__}")
                ctx.notes.append(f"save raised {type(e).__name__}: {str(e)[:120]} in history {name} (no package produced; outside C07)")
                return case
            sigs += chk.check(case, src, dst, alloc, keep=True)
            if op[0] == "SS":
                continue
            try:
                r.continue_from(dst)
            except Exception:  # noqa: BLE001 - already reported by check() as reopen-raises
                report(ctx, chk, dict(case, ops=list(case["ops"])), sigs, rerun=True)
                return case
        else:
            out = r.apply(op)
            ctx.dist("op:" + op[0])
            if out.startswith("!"):
                ctx.dist("op-refused:" + op[0])
    try:
        src, dst, alloc = r.save()
    except Exception as e:  # noqa: BLE001
        ctx.dist(f"save-raises:{type(e).__name__}")
        ctx.notes.append(f"save raised {type(e).__name__}: {str(e)[:120]} after history {name} (no package produced; outside C07)")
        return case
    sigs += chk.check(case, src, dst, alloc, keep=True)
    report(ctx, chk, dict(case, ops=[o for o in case["ops"]]), sigs, rerun=True)
    return case


def fixtures() -> list:
    d = common.REPO / "tests" / "data"
    return sorted(str(p) for p in d.glob("*.numbers"))


SHAPES_QUICK = [(255, 3), (256, 4), (257, 2), (512, 2), (2, 256), (3, 257), (2, 1000), (257, 257)]
SHAPES_FULL = [(r, c) for r in (255, 256, 257, 512) for c in (256, 257, 1000)] + [(1, 1), (513, 1), (1024, 2)]


def run(ctx: Ctx) -> int:
    rng = ctx.rng
    common.standard_trusted_base(ctx, [
        "harness/c07_abstract.py: the abstraction of a saved zip (numbers_parser.iwafile.IWAFile parsing, protobuf descriptors: fields typed TSP.Reference / TSP.DataReference, MessageInfo.object_references/data_references, PackageMetadata, zip member list, tiles) is trusted glue; the extracted checker and the independent Python re-statement only see its output",
        "added/touched flags and D come from the same abstraction of the source document (touched = identifier absent from the source or serialized header+message bytes differ)",
        "record lengths are taken from each record's own flags word via CellRecord.doc_layout (21 documented fields); flag bits above 2^20 are not accounted",
        "protobuf, snappy and zipfile are library code; Document(saved) must succeed on every saved file",
        "ObjectStore.__init__ computes math.ceil(max_id / 1000000) in binary64; the model uses exact integer arithmetic (identical below 2^52 / 10^6-spaced boundaries exercised by the idalloc stream up to 7*10^12)",
        "modelled, not verified: containers.ObjectStore.__init__/_max_id, new_message_id, create_object_from_dict (identifier allocation only); model.recalculate_row_info / tile split (Model/TileCodec.v); Cell._to_buffer (Model/CellRecord.v)",
    ])
    ctx.assumptions += [
        "referential closure for all histories is checked per saved package by the verified checker, not proved for model.py",
        "identifier 0 is not an object: a TSP.Reference with identifier 0 counts as unresolved",
        "tables the library does not rewrite (pivot tables; tiles kept from the source) are not subject to the tile checks",
    ]
    ctx.extra["rule"] = ("every saved package is abstracted and checked twice (extracted Coq validate vs independent Python oracle, outputs must be identical; "
                         "oracle must be empty). histories: random edits over write/add/delete rows+cols/merge/styles/bg images/borders/custom+builtin "
                         "formats/control cells/captions/new tables/new sheets with saves at random points (each generation checked against its own source); "
                         "re-save of a seeded sample (quick) / all (thorough) fixtures, plain and after an edit; shapes across tile boundaries "
                         "(255/256/257/512 rows x 256/257/1000 cols: a covering subset quick, full product thorough); seeded defects at the abstract level; "
                         "identifier allocation in lock-step. non-trivial = a package was produced and checked; distinct by (name, object count, last id)")
    cr = common.coq_check_props("C07", clean=not ctx.quick)
    ctx.coq, ctx.theorems = cr, cr.theorems
    if not cr.ok:
        ctx.obligation_errors += cr.errors
    if not ctx.quick:
        ctx.extra["coqchk"] = common.coqchk("C07")
        if ctx.extra["coqchk"]["exit"] != 0:
            ctx.obligation_errors.append("coqchk failed: " + ctx.extra["coqchk"]["tail"])
    try:
        exe = common.build_model(ENTRY)
    except RuntimeError as e:
        ctx.obligation_errors.append(str(e))
        exe = None
    chk = Checker(ctx, exe)
    warnings.simplefilter("ignore")
    import time as _time
    phase = {}
    t_phase = [_time.time()]

    def mark(name):
        phase[name] = round(_time.time() - t_phase[0], 1)
        t_phase[0] = _time.time()
        ctx.extra["phase_s"] = phase
        ctx.notes[:] = [n for n in ctx.notes if not n.startswith("phase seconds")] + [f"phase seconds: {phase}"]
    mark("coq+extract")

    # ---- A. identifier allocation
    idalloc_stream(ctx, exe)

    mark("idalloc")
    # ---- B. corpus (minimised failing cases, always first), then each edit kind alone on the default document
    for f in sorted((common.VERIF / "corpus" / "C07").glob("*.json")):
        cc = json.loads(f.read_text())["case"]
        report(ctx, chk, cc, run_case(ctx.tmp, cc, chk), rerun=False)
        ctx.dist("cases:corpus")
    singles = [
        ("plain", []), ("add-table", [["NT", 0, 3, 3]]), ("add-sheet", [["NS", 4, 2]]),
        ("style", [["ST", 0, 0, 0, 3, 1], ["ST", 0, 1, 1, 0, 0]]), ("image", [["IMG", 0, 0, 0, 7, 0], ["IMG", 0, 1, 1, 8, 1]]),
        ("border", [["BD", 0, 1, 1, 3, 0, 3], ["BD", 0, 1, 1, 0, 1, 1], ["BD", 0, 2, 1, 3, 2, 1]]),
        ("custom-formats", [["CF", 0, 0, 0, 0, 1], ["CF", 0, 0, 1, 1, 0], ["CF", 0, 0, 2, 2, 1]]),
        ("formats", [["FM", 0, 1, i, i] for i in range(len(FORMATS))]),
        ("controls", [["CT", 0, 2, i, i, 3] for i in range(len(CONTROLS))]),
        ("caption", [["CAP", 0, "hello", 1]]), ("caption-new-table", [["NT", 0, 2, 2], ["CAP", 1, "cap", 1]]),
        ("merge", [["M", 0, 1, 1, 2, 2], ["W", 0, 0, 0, ["s", "x"]]]),
        ("two-generations", [["NT", 0, 2, 2], ["SV"], ["W", 1, 5, 5, ["i", 1]], ["ST", 1, 0, 0, 1, 1], ["SV"], ["NS", 2, 2]]),
        ("grow", [["W", 0, 300, 2, ["i", 5]], ["AR", 0, 3, None], ["AC", 0, 2, 0], ["DR", 0, 1, 0]]),
    ]
    for name, ops in singles:
        case = {"name": "single-" + name, "base": None, "ops": ops, "keep": name in ("add-table", "image", "two-generations", "grow")}
        report(ctx, chk, case, run_case(ctx.tmp, case, chk), rerun=True)
    ctx.dist("cases:single-edit", len(singles))

    mark("single-edits")
    # ---- C. random histories
    nh = 70 if ctx.quick else 900
    for i in range(nh):
        base = rng.choice([None, None, ["new", rng.randrange(1, 6), rng.randrange(1, 6)], ["new", rng.choice([255, 256, 257]), rng.randrange(1, 4)]])
        random_case(ctx, chk, f"hist{i}", base, rng.randrange(3, 25))
        if i % 10 == 0:
            chk.flush()
    ctx.dist("cases:random-histories", nh)

    mark("random-histories")
    # ---- D. shapes across tile boundaries
    for (nr, nc) in (SHAPES_QUICK if ctx.quick else SHAPES_FULL):
        ops = [["W", 0, rng.choice([0, nr - 1, rng.randrange(nr)]), rng.choice([0, nc - 1, rng.randrange(nc)]), enc_value(rand_value(rng))] for _ in range(12)]
        ops.append(["W", 0, nr + (1 if nr % 2 else 0), 0, ["s", "grown"]])
        if nc < 999:
            ops.append(["AC", 0, 1, None])
        case = {"name": f"shape-{nr}x{nc}", "base": ["new", nr, nc], "ops": ops}
        report(ctx, chk, case, run_case(ctx.tmp, case, chk), rerun=False)
        ctx.dist("cases:shapes")
        chk.flush()

    mark("shapes")
    # ---- E. fixtures: plain re-save, and re-save after an edit
    fx = fixtures()
    always = [f for f in fx if Path(f).name in ("issue-3.numbers", "test-1.numbers", "create-formulas.numbers", "issue-14.numbers", "issue-9.numbers")]
    sample = always + rng.sample([f for f in fx if f not in always], 10) if ctx.quick else fx
    for f in sample:
        nm = Path(f).stem
        try:
            from numbers_parser import Document
            Document(f)
        except Exception as e:  # noqa: BLE001
            ctx.dist(f"fixture-not-openable:{type(e).__name__}")
            continue
        case = {"name": "resave-" + nm, "base": f, "ops": []}
        report(ctx, chk, case, run_case(ctx.tmp, case, chk), rerun=False)
        ctx.dist("cases:fixture-resave")
        if ctx.quick and rng.random() < 0.5 and f not in always:
            continue
        case = {"name": "edit-" + nm, "base": f, "ops": [["W", 0, 1, 1, ["s", "edited"]], ["ST", 0, 0, 0, 2, 0]] + [["CT", ti, 1, 1, 4, 3] for ti in range(8)] + [["CT", 0, 0, 1, 2, 3], ["NT", 0, 2, 2], ["SV"], ["W", 1, 0, 0, ["i", 3]]]}
        report(ctx, chk, case, run_case(ctx.tmp, case, chk), rerun=False)
        ctx.dist("cases:fixture-edit")
        chk.flush()

    mark("fixtures")
    # ---- F. seeded defects (abstract level): both checkers must agree on non-empty reports
    seeded_defects(ctx, chk)
    chk.flush()
    mark("seeded")
    return common.finish(ctx, search)


def search(ctx: Ctx, broken) -> list:
    """A broken obligation / correspondence: look for a saved package the implementation-only oracle rejects,
    first on the cases that disagreed, then on a fresh denser stream of histories."""
    sub = common.Ctx("C07", ctx.tier, ctx.seed + 7, LEVEL)
    chk = Checker(sub, None)
    names = {str(c).split(":")[0] for (_, c, _, _) in ctx.disagreements}
    found = []
    try:
        for i in range(150):
            base = sub.rng.choice([None, ["new", sub.rng.randrange(1, 6), sub.rng.randrange(1, 6)], ["new", sub.rng.choice([255, 256, 257]), 2]])
            random_case(sub, chk, f"search{i}", base, sub.rng.randrange(3, 30))
            if sub.oracle_failures:
                known = chk.known
                new = [f for f in sub.oracle_failures if f[0] not in known]
                if new:
                    found = new
                    break
    finally:
        out = found or [f for f in sub.oracle_failures]
        sub.cleanup()
    ctx.notes.append(f"witness search: {len(names)} disagreeing package(s); {len(out)} oracle failure(s) found on a fresh stream")
    return out


def replay(path: str) -> int:
    d = json.loads(open(path).read())
    if d.get("kind") == "failing-input" and d.get("signature") == "id-allocation" and "keys" in d["case"]:
        c = d["case"]
        o = idalloc_impl(c["keys"], c["last"], c["ops"])
        bad = o.startswith("!")
        if not bad:
            ids = [int(x) for x in o.split("\t")[0].split(",") if x]
            bad = len(set(ids)) != len(ids) or any(x in c["keys"] for x in ids) or (ids and max(ids) > int(o.split("\t")[2]))
        if bad:
            print(f"replay: still failing: id-allocation ({o})")
            print(f"VIOLATION property=C07 replay={path}")
            return 1
        print("replay: case passes on the current tree")
        return 0
    if d.get("kind") == "failing-input":
        case = d["case"]
        sub = common.Ctx("C07", "quick", 0, LEVEL)
        try:
            sigs = run_case(sub.tmp, case, None, sub)
        finally:
            sub.cleanup()
        hit = [s for s in sigs if s[0] == d.get("signature")]
        if hit:
            print(f"replay: still failing: {hit[0][0]} ({hit[0][1]})")
            print(f"VIOLATION property=C07 replay={path}")
            return 1
        print("replay: case passes on the current tree" + (f" (other findings: {sorted({s for s, _ in sigs})})" if sigs else ""))
        return 0
    print("replay: no failing input was recorded; broken obligations/correspondences were:")
    print(json.dumps(d.get("broken"), indent=1)[:4000])
    return 1
