"""Shared lock-step machinery for the table-grid model (C03, C11, C12).

A history is a list of ops (tuples, see coq/Model/C03Entry.v).  `run_impl`
executes it on real Document/Table objects and prints each result in the same
canonical text the extracted model prints; `request` renders the history as a
model request line."""
from __future__ import annotations

import warnings
from datetime import datetime, timedelta
from pathlib import Path

warnings.filterwarnings("ignore")

MUTATING = {"N", "W", "AR", "AC", "DR", "DC", "M", "RN"}


def fmt(x):
    return "-" if x is None else str(x)


def request(ops) -> str:
    return "|".join(",".join(fmt(f) for f in op) for op in ops)


def impl_value(v):
    """Value written to the implementation for the model's token v: every third token is written as text,
    so that string tables (one per table) take part in the isolation and save/reopen observations."""
    if v is None:
        return None
    if v % 7 == 0:
        # a date-time with a sub-second part, before the 2001 storage epoch
        return _DT_BASE + timedelta(microseconds=v * _DT_STEP)
    return f"t{v}" if v % 3 == 0 else v


_DT_BASE = datetime(2000, 1, 1)
_DT_STEP = 1234567


def val_token(v):
    if v is None:
        return "-"
    if isinstance(v, datetime):
        us = (v - _DT_BASE) // timedelta(microseconds=1)
        return str(us // _DT_STEP) if us % _DT_STEP == 0 else _foreign(v)
    if isinstance(v, str) and v[:1] == "t" and v[1:].lstrip("-").isdigit():
        return v[1:]
    if isinstance(v, bool):
        return "B" + str(int(v))
    if isinstance(v, float) and v == int(v):
        return str(int(v))
    if isinstance(v, int):
        return str(v)
    return _foreign(v)


def _foreign(v):
    """A value that is no token of the history: shown with the dump's own separators removed."""
    return "?" + "".join(ch if ch not in ".:;/\t\n" else "_" for ch in repr(v))


def show_cell(c) -> str:
    from numbers_parser.cell import MergedCell
    if getattr(c, "is_merged", False):
        attr = f"A{c.size[0]}x{c.size[1]}"
    elif getattr(c, "rect", None) is not None:
        r = c.rect
        attr = f"R{r[0]}_{r[1]}_{r[2]}_{r[3]}"
    else:
        attr = "P"
    return f"{c.row}.{c.col}.{val_token(c.value)}.{'m' if isinstance(c, MergedCell) else 'c'}.{attr}"


def canon_ranges(rs):
    return ";".join("_".join(map(str, r)) for r in sorted(set(rs)))


def dump_table(t) -> str:
    from numbers_parser.xrefs import xl_cell_to_rowcol
    rows = ";".join("/".join(show_cell(c) for c in row) for row in t.rows())
    rs = []
    for s in t.merge_ranges:
        a, b = s.split(":") if ":" in s else (s, s)
        rs.append(xl_cell_to_rowcol(a) + xl_cell_to_rowcol(b))
    return f"{t.num_rows}:{t.num_cols}:{rows}:{canon_ranges(rs)}"


def canon_model_out(op, out: str) -> str:
    """Bring a model result into the harness' canonical form (sorted, de-duplicated merge ranges; error names)."""
    if out == "!CRASH:index":
        return "!IndexError"
    if op[0] in ("D", "RO") and out.count(":") == 3:
        nr, nc, rows, rs = out.split(":")
        if rs:
            rs = canon_ranges(tuple(int(x) for x in r.split("_")) for r in rs.split(";"))
        return f"{nr}:{nc}:{rows}:{rs}"
    return out


class ImplDoc:
    """One real document driven by history ops."""

    def __init__(self, tmp: Path, name: str):
        self.tmp = tmp
        self.name = name
        self.doc = None
        self.tables = []
        self.names = []      # current name of table i: tables are addressed by name through the API on every step
        self.saves = 0

    def _table(self, i):
        return self.doc.sheets[0].tables[self.names[i]]

    def apply(self, op) -> str:
        from numbers_parser import Document
        from numbers_parser.xrefs import xl_range
        k = op[0]
        try:
            if k == "N":
                if self.doc is None:
                    self.doc = Document(num_rows=op[1], num_cols=op[2], num_header_rows=0, num_header_cols=0)
                    self.tables.append(self.doc.sheets[0].tables[0])
                else:
                    self.tables.append(self.doc.sheets[0].add_table(num_rows=op[1], num_cols=op[2]))
                self.names.append(self.tables[-1].name)
                return "ok"
            if k == "RN":
                self._table(op[1]).name = op[2]
                self.names[op[1]] = op[2]
                return "ok"
            t = self._table(op[1])
            if k == "W":
                t.write(op[2], op[3], impl_value(op[4]))
                return "ok"
            if k == "AR":
                t.add_row(num_rows=op[2], start_row=op[3], default=impl_value(op[4]))
                return "ok"
            if k == "AC":
                t.add_column(num_cols=op[2], start_col=op[3], default=impl_value(op[4]))
                return "ok"
            if k == "DR":
                t.delete_row(num_rows=op[2], start_row=op[3])
                return "ok"
            if k == "DC":
                t.delete_column(num_cols=op[2], start_col=op[3])
                return "ok"
            if k == "M":
                t.merge_cells(xl_range(op[2], op[3], op[4], op[5]))
                return "ok"
            if k == "RD":
                return show_cell(t.cell(op[2], op[3]))
            if k == "IR":
                return ";".join("/".join(show_cell(c) for c in row)
                                for row in t.iter_rows(min_row=op[2], max_row=op[3], min_col=op[4], max_col=op[5]))
            if k == "IC":
                return ";".join("/".join(show_cell(c) for c in col)
                                for col in t.iter_cols(min_col=op[2], max_col=op[3], min_row=op[4], max_row=op[5]))
            if k == "D":
                return dump_table(t)
            if k == "RO":
                self.saves += 1
                p = self.tmp / f"{self.name}_{self.saves}.numbers"
                self.doc.save(p)
                d2 = Document(p)
                tabs = [tb for sh in d2.sheets for tb in sh.tables]
                out = dump_table(tabs[op[1]])
                p.unlink()
                return out
        except Exception as e:  # noqa: BLE001
            return "!" + type(e).__name__
        return "?"


def with_dumps(ops, ntables_after):
    """Insert a dump of every table after each mutating op (isolation is observed, not assumed)."""
    out = []
    n = 0
    for op in ops:
        out.append(op)
        if op[0] == "N":
            n += 1
        if op[0] in MUTATING:
            for i in range(n):
                out.append(("D", i))
    return out


def run_impl(tmp: Path, name: str, ops) -> list[str]:
    d = ImplDoc(tmp, name)
    return [d.apply(op) for op in ops]


def lockstep(ctx, exe, stream: str, histories, names=None):
    """Run histories on implementation and model; record disagreements per op."""
    from . import common
    reqs = [request(h) for h in histories]
    mouts = common.run_model(exe, reqs)
    results = []
    for hi, (h, mline) in enumerate(zip(histories, mouts)):
        iouts = run_impl(ctx.tmp, f"{stream}{hi}", h)
        mo = [canon_model_out(op, o) for op, o in zip(h, mline.split("|"))]
        ctx.count(stream, len(h))
        ok = True
        for k, (op, a, b) in enumerate(zip(h, mo, iouts)):
            if a != b:
                ctx.disagree(stream, {"history": [list(o) for o in h[:k + 1]], "at": k}, a[:400], b[:400])
                ok = False
                break
        if len(mo) != len(iouts):
            ctx.disagree(stream, {"history": [list(o) for o in h]}, f"{len(mo)} results", f"{len(iouts)} results")
        if ok:
            ctx.nontrivial((stream, request(h)))
        results.append((h, mo, iouts))
    if histories:
        h, mo, io = results[len(results) // 2]
        ctx.sample({"stream": stream, "history": request(h)[:300], "last_model": mo[-1][:200], "last_impl": io[-1][:200]})
    return results
