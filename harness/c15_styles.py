"""C15, style half: correspondence of the two small style models (dirty flags, colour quantisation)
and the implementation-only style oracle (attribute <-> protobuf plumbing is exploration only)."""
from __future__ import annotations

import hashlib
import json
import struct
import warnings
from pathlib import Path

from . import common
from .common import Ctx

ATTRS = ["alignment", "bg_image", "bg_color", "font_color", "font_size", "font_name", "bold", "italic",
         "strikethrough", "underline", "first_indent", "left_indent", "right_indent", "text_inset", "text_wrap", "name"]
H_ALIGN = ["left", "right", "center", "justified", "auto"]
V_ALIGN = ["top", "middle", "bottom"]
# float attributes are stored in float32 fields: these values are exactly representable
SIZES = [1.0, 8.0, 9.5, 10.0, 11.0, 12.25, 14.0, 36.0, 72.0, 144.0]
INDENTS = [0.0, 1.0, 2.5, 4.0, 11.0, 14.0, 1.25, 40.0]
INSETS = [0.0, 1.0, 4.0, 14.0, 2.5, 11.0]
CORNERS = [(0, 0, 0), (255, 255, 255), (255, 0, 0), (0, 255, 0), (0, 0, 255), (1, 23, 45), (12, 3, 45), (1, 2, 34), (12, 34, 0), (123, 4, 0)]
FLOAT_ATTRS = ("font_size", "first_indent", "left_indent", "right_indent", "text_inset")
# ... and these are not (they come back as the nearest float32 after reload)
INEXACT = [10.1, 0.1, 1.01, 12.3]


def f32(x: float) -> float:
    return struct.unpack("<f", struct.pack("<f", x))[0]


PNG = bytes.fromhex("89504e470d0a1a0a0000000d4948445200000001000000010802000000907753de0000000c49444154789c63f8cfc0000003010100c9fe92ef0000000049454e44ae426082")


def style_kwargs(spec: dict) -> dict:
    """JSON-able style spec -> keyword arguments of Document.add_style."""
    from numbers_parser import RGB, Alignment, BackgroundImage
    kw = {}
    for k, v in spec.items():
        if k == "alignment":
            kw[k] = Alignment(v[0], v[1])
        elif k in ("bg_color", "font_color"):
            kw[k] = None if v is None else RGB(*v)
        elif k == "bg_image":
            kw[k] = None if v is None else BackgroundImage(PNG + bytes([v[1]]), v[0])
        else:
            kw[k] = v
    return kw


def observe_style(st) -> dict:
    def col(c):
        if c is None:
            return None
        if isinstance(c, list):
            return ["gradient"] + [list(x) for x in c]
        return list(c)
    return {
        "alignment": [int(st.alignment.horizontal), int(st.alignment.vertical)],
        "bg_image": None if st.bg_image is None else [st.bg_image.filename, hashlib.sha1(st.bg_image.data).hexdigest()[:12]],
        "bg_color": col(st.bg_color), "font_color": col(st.font_color),
        "font_size": float(st.font_size).hex(), "font_name": st.font_name,
        "bold": st.bold, "italic": st.italic, "strikethrough": st.strikethrough, "underline": st.underline,
        "first_indent": float(st.first_indent).hex(), "left_indent": float(st.left_indent).hex(),
        "right_indent": float(st.right_indent).hex(), "text_inset": float(st.text_inset).hex(),
        "text_wrap": bool(st.text_wrap), "name": st.name,
    }


def expected_style(spec: dict, name: str) -> dict:
    """What a cell given the style must report: the given attributes, the documented defaults otherwise."""
    from numbers_parser.cell import HORIZONTAL_MAP, VERTICAL_MAP
    from numbers_parser.constants import DEFAULT_FONT, DEFAULT_FONT_SIZE, DEFAULT_TEXT_INSET, DEFAULT_TEXT_WRAP
    al = spec.get("alignment", ["auto", "top"])
    img = spec.get("bg_image")
    return {
        "alignment": [int(HORIZONTAL_MAP[al[0]]), int(VERTICAL_MAP[al[1]])],
        "bg_image": None if img is None else [img[0], hashlib.sha1(PNG + bytes([img[1]])).hexdigest()[:12]],
        "bg_color": None if spec.get("bg_color") is None else list(spec["bg_color"]),
        "font_color": list(spec.get("font_color", (0, 0, 0))),
        "font_size": float(spec.get("font_size", DEFAULT_FONT_SIZE)).hex(), "font_name": spec.get("font_name", DEFAULT_FONT),
        "bold": spec.get("bold", False), "italic": spec.get("italic", False),
        "strikethrough": spec.get("strikethrough", False), "underline": spec.get("underline", False),
        "first_indent": float(spec.get("first_indent", 0)).hex(), "left_indent": float(spec.get("left_indent", 0)).hex(),
        "right_indent": float(spec.get("right_indent", 0)).hex(), "text_inset": float(spec.get("text_inset", DEFAULT_TEXT_INSET)).hex(),
        "text_wrap": spec.get("text_wrap", DEFAULT_TEXT_WRAP), "name": name,
    }


def build_styled(case: dict):
    """A 5x4 table; style i is applied to cell (1+i, 1) by set_cell_style and to (1+i, 2) by write(style=)."""
    from numbers_parser import Document
    doc = Document(num_rows=2 + len(case["styles"]), num_cols=4)
    t = doc.sheets[0].tables[0]
    names = []
    for i, spec in enumerate(case["styles"]):
        st = doc.add_style(**style_kwargs(spec))
        names.append(st.name)
        t.write(1 + i, 1, f"s{i}")
        t.set_cell_style(1 + i, 1, st)
        t.write(1 + i, 2, i + 0.5, style=st)
    return doc, t, names


def unstyled_cells(t, n):
    return [(r, c) for r in range(t.num_rows) for c in range(t.num_cols) if not (1 <= r <= n and c in (1, 2))]


def style_oracle(case: dict, tmp: Path, tag: str) -> list:
    from numbers_parser import Document
    fails = []
    n = len(case["styles"])
    try:
        base_doc, base_t, _ = build_styled({"styles": []})
        base = observe_style(base_t.cell(0, 0).style), observe_style(base_t.cell(1, 1).style)
        doc, t, names = build_styled(case)
    except Exception as e:  # noqa: BLE001
        return [("style-build-raises", f"{type(e).__name__}: {e}")]

    def check(tt, where, dd):
        for i, spec in enumerate(case["styles"]):
            want = expected_style(spec, names[i])
            for (r, c) in ((1 + i, 1), (1 + i, 2)):
                got = observe_style(tt.cell(r, c).style)
                for a in ATTRS:
                    if got[a] != want[a]:
                        if a in FLOAT_ATTRS and float.fromhex(got[a]) == f32(float.fromhex(want[a])):
                            fails.append(("style-float-stored-as-float32", f"{where}: cell({r},{c}).style.{a} = {float.fromhex(got[a])!r}, given {float.fromhex(want[a])!r}"))
                        else:
                            fails.append((f"style-attribute-changed:{a}", f"{where}: cell({r},{c}).style.{a} = {got[a]!r}, given {want[a]!r} (style {i} of {n})"))
        for (r, c) in unstyled_cells(tt, n):
            got = observe_style(tt.cell(r, c).style)
            ref = base[0] if (r == 0 or c == 0) else base[1]
            for a in ATTRS:
                if got[a] != ref[a]:
                    fails.append(("unstyled-cell-changed", f"{where}: cell({r},{c}).style.{a} = {got[a]!r}, an unstyled cell of a fresh table has {ref[a]!r}"))
                    return
        for i, nm in enumerate(names):
            if nm not in dd.styles:
                fails.append(("style-missing-from-document", f"{where}: Document.styles lacks {nm!r}"))
                continue
            # the document's own entry for the style carries the character attributes it was created with (the attributes
            # Document.styles reads for a reopened document: font, size, colour, bold/italic/underline/strikethrough)
            want = expected_style(case["styles"][i], nm)
            try:
                got = observe_style(dd.styles[nm])
            except Exception as e:  # noqa: BLE001
                fails.append(("document-style-differs", f"{where}: reading Document.styles[{nm!r}] raised {type(e).__name__}: {e}"))
                continue
            for a in ("bold", "italic", "underline", "strikethrough", "font_name", "font_color", "font_size"):
                if got[a] != want[a] and not (a in FLOAT_ATTRS and float.fromhex(got[a]) == f32(float.fromhex(want[a]))):
                    fails.append((f"document-style-differs:{a}", f"{where}: Document.styles[{nm!r}].{a} = {got[a]!r}, the style was created with {want[a]!r}"))

    try:
        check(t, "open document", doc)
        keys_before = sorted(doc.styles)
        p = tmp / f"{tag}_a.numbers"
        doc.save(p)
        if sorted(doc.styles) != keys_before:
            fails.append(("reading-changes-styles", "Document.styles changed by reading and saving"))
        d2 = Document(p)
        t2 = d2.sheets[0].tables[0]
        check(t2, "after save and reopen", d2)
        # reading everything, then saving again, changes nothing
        for row in t2.rows():
            for cell in row:
                _ = cell.style
                _ = cell.border
        _ = d2.styles
        p2 = tmp / f"{tag}_b.numbers"
        d2.save(p2)
        d3 = Document(p2)
        t3 = d3.sheets[0].tables[0]
        n_before, n_after = len(d2._model.objects._objects), len(d3._model.objects._objects)
        check(t3, "after reading every style and saving again", d3)
        if sorted(d3.styles) != sorted(Document(p).styles):
            fails.append(("reading-changes-styles", f"Document.styles differs after read+save: {sorted(set(d3.styles) ^ set(Document(p).styles))[:4]}"))
        o1 = style_objects(Document(p))
        o3 = style_objects(d3)
        if o1 != o3:
            fails.append(("reading-changes-saved-styles", f"style archives in the file: {o1} before, {o3} after reading every cell style and saving"))
    except Exception as e:  # noqa: BLE001
        fails.append(("style-save-reopen-raises", f"{type(e).__name__}: {e}"))
    return fails


def restyle_oracle(case: dict, tmp: Path, tag: str) -> list:
    """A style changed after it has already been saved once: apply, save, change attributes of the same Style
    object, save again, reopen - open document and second file must both show the values given last."""
    from numbers_parser import Document
    fails = []
    first, second = case["styles"][0], case["styles"][1]
    try:
        doc = Document(num_rows=4, num_cols=3)
        t = doc.sheets[0].tables[0]
        st = doc.add_style(**style_kwargs(first))
        t.write(1, 1, "restyled")
        t.set_cell_style(1, 1, st)
        t.write(2, 1, 2.5, style=st)
        doc.save(tmp / f"{tag}_1.numbers")
        for k, v in style_kwargs(second).items():
            if k != "name":
                setattr(st, k, v)
        # a cell has one fill: giving a colour replaces an earlier image and vice versa
        if "bg_color" in second and "bg_image" not in second:
            st.bg_image = None
        if "bg_image" in second and "bg_color" not in second:
            st.bg_color = None
        want = expected_style(second, st.name)
        doc.save(tmp / f"{tag}_2.numbers")
        d2 = Document(tmp / f"{tag}_2.numbers")
        for where, tt in (("open document after the second save", t), ("second saved file", d2.sheets[0].tables[0])):
            for (r, c) in ((1, 1), (2, 1)):
                got = observe_style(tt.cell(r, c).style)
                for a in ATTRS:
                    if a in second and got[a] != want[a]:
                        if a in FLOAT_ATTRS and float.fromhex(got[a]) == f32(float.fromhex(want[a])):
                            continue
                        fails.append((f"restyle-lost:{a}", f"{where}: cell({r},{c}).style.{a} = {got[a]!r}, set to {want[a]!r} after the first save"))
    except Exception as e:  # noqa: BLE001
        fails.append(("restyle-raises", f"{type(e).__name__}: {e}"))
    return fails


SINGLE_VALUES = {"alignment": [[2, 1], [1, 2], [0, 2], [3, 0]], "bold": [True], "italic": [True], "underline": [True], "strikethrough": [True],
                 "font_size": [17.0, 9.0], "font_name": ["Courier New", "Arial"], "font_color": [[255, 0, 0]], "bg_color": [[0, 255, 0]],
                 "first_indent": [5.0], "left_indent": [6.0], "right_indent": [7.0], "text_inset": [8.0], "text_wrap": [False]}


def single_attr_oracle(case: dict, tmp: Path, tag: str) -> list:
    """ONE attribute of a style that is already in use is changed - a preset applied by name, or a style made with
    add_style whose document has been saved once (its change flags are clear): the open document and the saved file
    both show the new value, and every other attribute is the same in both."""
    from numbers_parser import RGB, Alignment, Document
    src, a, v = case["source"], case["attr"], case["value"]
    try:
        doc = Document(num_rows=4, num_cols=3)
        t = doc.sheets[0].tables[0]
        t.write(1, 1, "x")
        t.write(2, 2, "other")
        if src == "preset":
            t.set_cell_style(1, 1, case.get("preset", "Body"))
        else:
            init = dict(name="Mine", bold=False, font_size=12.0)
            init.update(style_kwargs(case.get("initial", {})))
            st0 = doc.add_style(**init)
            t.set_cell_style(1, 1, st0)
            doc.save(tmp / f"{tag}_0.numbers")
        st = t.cell(1, 1).style
        val = Alignment(*v) if a == "alignment" else RGB(*v) if a in ("bg_color", "font_color") else v
        setattr(st, a, val)
        mem = observe_style(t.cell(1, 1).style)
        doc.save(tmp / f"{tag}_1.numbers")
        back = observe_style(Document(tmp / f"{tag}_1.numbers").sheets[0].tables[0].cell(1, 1).style)
    except Exception as e:  # noqa: BLE001
        return [("restyle-raises", f"{src} style, {a} := {v!r}: {type(e).__name__}: {e}")]
    want = float(v).hex() if a in FLOAT_ATTRS else v
    fails = []
    for where, got in (("open document", mem), ("saved file", back)):
        g = got[a]
        if g != want and not (a in FLOAT_ATTRS and float.fromhex(g) == f32(float(v))):
            fails.append((f"restyle-lost:{a}", f"{where}: {src} style, only {a} changed to {v!r}: reads {g!r}"))
    other = [k for k in mem if k != a and mem[k] != back[k]]
    if other:
        fails.append((f"restyle-changed-other:{other[0]}", f"{src} style, only {a} changed: {other[0]} is {mem[other[0]]!r} on the open document, {back[other[0]]!r} in the saved file"))
    return fails


def style_objects(doc) -> dict:
    """How many paragraph / cell style archives the file holds."""
    m = doc._model
    return {"paragraph": len(m.find_refs("ParagraphStyleArchive")), "cell": len(m.find_refs("CellStyleArchive"))}


def fixture_read_oracle(name: str, tmp: Path) -> list:
    """Reading every style of a fixture and saving must neither raise nor add style archives."""
    from numbers_parser import Document
    path = str(common.REPO / "tests" / "data" / name)
    try:
        d0 = Document(path)
        d0.save(tmp / "fx_plain.numbers")
    except Exception:  # noqa: BLE001   not saveable even untouched: outside C15
        return []
    try:
        d1 = Document(path)
        for s in d1.sheets:
            for t in s.tables:
                for row in t.rows():
                    for cell in row:
                        _ = cell.style
    except Exception:  # noqa: BLE001
        # a source document whose styles cannot be read at all (e.g. a font missing from the library's font table
        # raises KeyError in cell.style): C15 speaks of styles that are read back; nothing is decided on this document
        return [("SKIP", "style-read-raises")]
    try:
        d1.save(tmp / "fx_read.numbers")
    except Exception as e:  # noqa: BLE001
        return [("reading-styles-breaks-save", f"{name}: after reading every cell.style, saving raised {type(e).__name__}: {e}")]
    a, b = style_objects(Document(tmp / "fx_plain.numbers")), style_objects(Document(tmp / "fx_read.numbers"))
    if a != b:
        return [("reading-changes-saved-styles", f"{name}: style archives {a} when saved untouched, {b} when saved after reading every cell.style")]
    # nothing was styled: every cell (blank ones included) keeps its previous style, whether or not the saving document
    # ever looked at it
    def views(p):
        out = {}
        for si, s in enumerate(Document(p).sheets):
            for ti, t in enumerate(s.tables):
                for row in t.rows():
                    for cell in row:
                        if type(cell).__name__ == "ErrorCell":
                            continue    # the library warns that it cannot write formula-error cells (saved as empty)
                        try:
                            out[(si, ti, cell.row, cell.col)] = observe_style(cell.style)
                        except Exception as e:  # noqa: BLE001
                            out[(si, ti, cell.row, cell.col)] = "!" + type(e).__name__
        return out
    ref = views(path)
    for tag, p in (("untouched", tmp / "fx_plain.numbers"), ("after reading every cell.style", tmp / "fx_read.numbers")):
        got = views(p)
        if not set(ref) <= set(got):
            return [("unstyled-cells-changed", f"{name}: saved {tag}: cells are missing")]
        for k in ref:
            if got[k] != ref[k]:
                d = [a_ for a_ in ref[k] if got[k].get(a_) != ref[k][a_]] if isinstance(ref[k], dict) and isinstance(got[k], dict) else "raises"
                return [("unstyled-cells-changed", f"{name}: saved {tag}: sheet {k[0]} table {k[1]} cell ({k[2]},{k[3]}) style differs in {d}: "
                                                   f"{ref[k] if not isinstance(ref[k], dict) else {x: ref[k][x] for x in d}} -> {got[k] if not isinstance(got[k], dict) else {x: got[k][x] for x in d}}")]
    return []


# ---------------------------------------------------------------- generators
def gen_style(rng, i: int) -> dict:
    from numbers_parser.model import FONT_FAMILY_TO_NAME
    fonts = sorted(FONT_FAMILY_TO_NAME)
    spec = {}
    for a in ATTRS:
        if rng.random() < 0.45:
            continue
        if a == "alignment":
            spec[a] = [rng.choice(H_ALIGN), rng.choice(V_ALIGN)]
        elif a == "bg_image":
            if rng.random() < 0.2:
                spec[a] = [f"img{i}_{rng.randrange(1000)}.png", rng.randrange(256)]
        elif a == "bg_color":
            spec[a] = rng.choice([None, rng.choice(CORNERS), (rng.randrange(256), rng.randrange(256), rng.randrange(256))])
        elif a == "font_color":
            spec[a] = rng.choice([rng.choice(CORNERS), (rng.randrange(256), rng.randrange(256), rng.randrange(256))])
        elif a == "font_size":
            spec[a] = rng.choice(SIZES if rng.random() < 0.9 else INEXACT)
        elif a == "font_name":
            spec[a] = rng.choice(fonts)
        elif a in ("bold", "italic", "strikethrough", "underline", "text_wrap"):
            spec[a] = rng.random() < 0.5
        elif a in ("first_indent", "left_indent", "right_indent"):
            spec[a] = rng.choice(INDENTS)
        elif a == "text_inset":
            spec[a] = rng.choice(INSETS)
        elif a == "name" and rng.random() < 0.5:
            spec[a] = f"Style {i} {rng.randrange(10**6)}"
    if "bg_image" in spec:
        spec.pop("bg_color", None)
    return spec


STYLE_CORPUS = [
    # two background colours whose digits concatenate alike
    {"kind": "style", "styles": [{"bg_color": [1, 23, 45]}, {"bg_color": [12, 3, 45]}]},
    # the same with an inset in front and with three styles
    {"kind": "style", "styles": [{"text_inset": 4.0, "text_wrap": True, "bg_color": [1, 23, 4]}, {"text_inset": 4.0, "text_wrap": True, "bg_color": [12, 3, 4]}]},
    # float attributes that are not float32 values
    {"kind": "style", "styles": [{"font_size": 10.1, "left_indent": 0.1}]},
    {"kind": "style", "styles": [{"text_inset": 1.0, "bg_color": [1, 2, 34]}, {"text_inset": 1.0, "bg_color": [12, 34, 0]}, {"bg_color": [123, 4, 0]}]},
    {"kind": "style", "styles": [{"bold": True, "font_color": [230, 25, 25], "font_size": 14.0, "font_name": "Lucida Grande",
                                  "alignment": ["right", "bottom"], "italic": True, "underline": True, "strikethrough": True}]},
    {"kind": "style", "styles": [{"bg_image": ["a.png", 1], "text_wrap": False}, {"bg_image": ["b.png", 2]}]},
    # pairs of styles in one table that differ in exactly ONE cell-level attribute (each needs an archive of its own)
    {"kind": "style", "styles": [{"text_inset": 4.0, "text_wrap": True, "bg_color": [1, 2, 3]}, {"text_inset": 4.0, "text_wrap": False, "bg_color": [1, 2, 3]}]},
    {"kind": "style", "styles": [{"text_wrap": False}, {"text_wrap": True}, {"text_wrap": False, "bold": True}]},
    {"kind": "style", "styles": [{"alignment": ["left", "top"], "text_inset": 3.0}, {"alignment": ["left", "middle"], "text_inset": 3.0}, {"alignment": ["left", "bottom"], "text_inset": 3.0}]},
    {"kind": "style", "styles": [{"first_indent": 2.0, "bg_color": [5, 5, 5]}, {"first_indent": 3.0, "bg_color": [5, 5, 5]}]},
    {"kind": "style", "styles": [{"left_indent": 2.0}, {"left_indent": 4.0}, {"right_indent": 2.0}, {"right_indent": 4.0}]},
    {"kind": "style", "styles": [{"text_inset": 2.0}, {"text_inset": 6.0}]},
    # explicit names of the automatic form, given out of order, followed by styles that get an automatic name
    {"kind": "style", "styles": [{"name": "Custom Style 2", "bold": True}, {"name": "Custom Style 1", "italic": True}, {"font_size": 17.0}]},
    {"kind": "style", "styles": [{"name": "Custom Style 7", "bg_color": [9, 9, 9]}, {"name": "Custom Style 3", "underline": True}, {"bold": True}, {"italic": True}]},
]


def run_styles(ctx: Ctx, exe):
    warnings.simplefilter("ignore")
    rng = ctx.rng
    # ---- correspondence: dirty flags for every attribute name (and a few others), colours 0..255
    if exe:
        from numbers_parser.cell import Style
        names = ATTRS + ["_text_style_obj_id", "_cell_style_obj_id", "_update_text_style", "_update_cell_style", "bogus", "Bold", ""]
        outs = []
        for nm in names:
            s = Style()
            s.__dict__["_update_text_style"] = False
            s.__dict__["_update_cell_style"] = False
            if nm:
                try:
                    setattr(s, nm, getattr(s, nm, None))
                except Exception:  # noqa: BLE001
                    pass
                outs.append(f"{int(s._update_text_style)}{int(s._update_cell_style)}")
            else:
                outs.append("00")
        ctx.compare("style-dirty-flags", names, [f"dty\t{nm}" for nm in names], outs, exe, nontrivial=lambda c, o: True)
        from numbers_parser.generated import TSPMessages_pb2 as TSP
        from numbers_parser.model import rgb
        outs = []
        for v in range(256):
            col = TSP.Color(model=TSP.Color.rgb, r=v / 255, g=v / 255, b=v / 255, a=1.0)
            back = rgb(TSP.Color.FromString(col.SerializeToString()))
            f32 = round(struct.unpack("<f", struct.pack("<f", v / 255))[0] * 255)
            outs.append(str(back.r) if back.r == back.g == back.b == f32 else f"!{back}/{f32}")
        ctx.compare("colour-quantisation", list(range(256)), [f"col\t{v}" for v in range(256)], outs, exe, nontrivial=lambda c, o: True)
    # ---- oracle
    cases = list(STYLE_CORPUS)
    for i in range(25 if ctx.quick else 400):
        cases.append({"kind": "style", "styles": [gen_style(rng, j) for j in range(rng.randrange(1, 4))]})
    for i, case in enumerate(cases):
        ctx.count("oracle-styles")
        ctx.dist("styles:cases")
        ctx.dist("styles:styles", len(case["styles"]))
        ctx.nontrivial(("style", json.dumps(case, sort_keys=True)))
        for sig, detail in style_oracle(case, ctx.tmp, f"st{i}"):
            ctx.oracle_fail(sig, case, detail)
    for i in range(6 if ctx.quick else 60):
        case = {"kind": "restyle", "styles": [gen_style(rng, 0), gen_style(rng, 1)]}
        # image bytes enter the package only through Document.add_style (store_image): assigning a new
        # BackgroundImage to an existing style is not a supported way to add an image, so the later values
        # of the restyle scenario carry no image
        case["styles"][1].pop("bg_image", None)
        ctx.count("oracle-restyle")
        ctx.nontrivial(("restyle", json.dumps(case, sort_keys=True)))
        for sig, detail in restyle_oracle(case, ctx.tmp, f"rs{i}"):
            ctx.oracle_fail(sig, case, detail)
    singles = [{"kind": "single-attr", "source": src, "attr": a, "value": v} for src in ("preset", "added") for a, vs in SINGLE_VALUES.items() for v in vs]
    if ctx.quick:
        singles = [c for i, c in enumerate(singles) if c["attr"] == "alignment" or i % 2 == ctx.seed % 2]
    # an attribute of a saved style set BACK to its default value (automatic alignment, not bold, black, no fill, ...)
    resets = [("alignment", [4, 0], {"alignment": ["right", "top"]}), ("alignment", [4, 0], {"alignment": ["center", "bottom"]}),
              ("bold", False, {"bold": True}), ("italic", False, {"italic": True}), ("underline", False, {"underline": True}),
              ("strikethrough", False, {"strikethrough": True}), ("font_color", [0, 0, 0], {"font_color": [200, 10, 10]}),
              ("text_wrap", True, {"text_wrap": False}), ("first_indent", 0.0, {"first_indent": 5.0}), ("left_indent", 0.0, {"left_indent": 5.0}),
              ("right_indent", 0.0, {"right_indent": 5.0}), ("font_size", 10.0, {"font_size": 18.0})]
    singles += [{"kind": "single-attr", "source": "added", "attr": a, "value": v, "initial": ini} for a, v, ini in resets]
    for i, case in enumerate(singles):
        ctx.count("oracle-single-attr")
        ctx.nontrivial(("single-attr", json.dumps(case, sort_keys=True)))
        for sig, detail in single_attr_oracle(case, ctx.tmp, f"sa{i}"):
            ctx.oracle_fail(sig, case, detail)
    fixtures = ["issue-7.numbers", "test-styles.numbers", "issue-56.numbers", "test-bgcolour.numbers"]
    if not ctx.quick:
        fixtures = sorted(p.name for p in (common.REPO / "tests" / "data").glob("*.numbers"))
    for f in fixtures:
        if not (common.REPO / "tests" / "data" / f).exists():
            continue
        ctx.count("oracle-fixture-style-read")
        try:
            res = fixture_read_oracle(f, ctx.tmp)
        except Exception:  # noqa: BLE001  unreadable fixtures are C17's
            continue
        for sig, detail in res:
            if sig == "SKIP":
                ctx.dist("fixture-style-read:skipped:" + detail)
                continue
            ctx.oracle_fail(sig, {"kind": "fixture-style-read", "fixture": f}, detail)


def search_styles(ctx: Ctx) -> list:
    found = []
    rng = ctx.rng
    for i in range(60):
        case = {"kind": "style", "styles": [gen_style(rng, j) for j in range(rng.randrange(1, 4))]}
        for sig, detail in style_oracle(case, ctx.tmp, f"ss{i}"):
            found.append((sig, case, detail))
        if len(found) > 10:
            break
    return found


def replay_case(case: dict, tmp: Path) -> list:
    if case.get("kind") == "fixture-style-read":
        return [x for x in fixture_read_oracle(case["fixture"], tmp) if x[0] != "SKIP"]
    if case.get("kind") == "single-attr":
        return single_attr_oracle(case, tmp, "replay")
    if case.get("kind") == "restyle":
        return restyle_oracle(case, tmp, "replay")
    return style_oracle(case, tmp, "replay")
