"""C07 - abstraction of a saved Numbers package into the line format of coq/Model/C07Entry.v,
and the independent Python re-statement of the structural checks (implementation-only oracle).

Abstraction = protobuf reflection over every archive of every .iwa member (TSP.Reference /
TSP.DataReference typed fields, MessageInfo.object_references / data_references), the
PackageMetadata (components, external references, uuid map entries, datas,
last_object_identifier), the zip member list and the tiles of every table.  The same
abstraction of the SOURCE document supplies D (references already unresolved there) and the
added / touched flags (touched = identifier absent from the source or serialized archive changed)."""
from __future__ import annotations

import io
import re
import zipfile
from array import array
from pathlib import Path

METADATA_MEMBER = "Index/Metadata.iwa"
TILE_SIZE = 256


# ---------------------------------------------------------------- reading
def _norm(name: str) -> str:
    return re.sub(r".*\.numbers/+", "", name)


def read_members(path) -> dict:
    """member name -> bytes for a single-file document or a package directory (Index.zip flattened)."""
    path = Path(path)
    out: dict = {}

    def from_zip(zf: zipfile.ZipFile):
        for n in zf.namelist():
            if n.endswith("/"):
                continue
            blob = zf.read(n)
            if n.lower().endswith("index.zip"):
                from_zip(zipfile.ZipFile(io.BytesIO(blob)))
            else:
                out[_norm(n)] = blob

    if path.is_dir():
        for sub in sorted(path.rglob("*")):
            if sub.is_dir():
                continue
            rel = _norm(str(sub.relative_to(path.parent)) if path.suffix == ".numbers" else str(sub))
            if sub.name.lower() == "index.zip":
                from_zip(zipfile.ZipFile(sub))
            else:
                out[rel] = sub.read_bytes()
    else:
        from_zip(zipfile.ZipFile(path))
    return out


def walk_refs(msg, refs: list, drefs: list, path: str):
    """every TSP.Reference / TSP.DataReference typed field value reachable in msg (by descriptor)."""
    for fd, val in msg.ListFields():
        mt = fd.message_type
        if mt is None:
            continue
        name = mt.full_name
        items = val if fd.is_repeated else [val]
        here = path + "." + fd.name
        if name == "TSP.Reference":
            refs += [(it.identifier, here) for it in items]
        elif name == "TSP.DataReference":
            drefs += [(it.identifier, here) for it in items]
        else:
            for it in items:
                walk_refs(it, refs, drefs, here)


class Pkg:
    """decoded package: what the abstraction needs, nothing of numbers_parser's model layer."""

    def __init__(self, path):
        from numbers_parser.iwafile import IWAFile
        self.blobs = read_members(path)
        self.members = list(self.blobs)
        self.objects = []      # dicts, in file/archive order
        self.meta = None
        self.msgs = {}         # id -> first message
        self.tiles = {}        # id -> first TST.Tile message stored under that id
        for mi, name in enumerate(self.members):
            if not name.endswith(".iwa"):
                continue
            iwa = IWAFile.from_buffer(self.blobs[name], name)
            for chunk in iwa.chunks:
                for arch in chunk.archives:
                    refs, drefs = [], []
                    msgs = [getattr(o, "data", o) for o in arch.objects]
                    tname = type(msgs[0]).DESCRIPTOR.full_name if msgs else "?"
                    for m in msgs:
                        walk_refs(m, refs, drefs, type(m).DESCRIPTOR.full_name)
                    infos = arch.header.message_infos
                    o = {
                        "id": arch.header.identifier, "file": mi, "type": infos[0].type if infos else 0, "tname": tname,
                        "refs": refs, "drefs": drefs,
                        "hrefs": [r for i in infos for r in i.object_references],
                        "hdrefs": [r for i in infos for r in i.data_references],
                        "bytes": arch.header.SerializeToString() + b"".join(m.SerializePartialToString() for m in msgs),
                        "msg": msgs[0] if msgs else None,
                    }
                    self.objects.append(o)
                    self.msgs.setdefault(o["id"], msgs[0] if msgs else None)
                    if tname == "TST.Tile":
                        self.tiles.setdefault(o["id"], msgs[0])
                    if tname == "TSP.PackageMetadata" and self.meta is None:
                        self.meta = msgs[0]


def comp_file(c) -> str:
    return "Index/" + (c.locator or c.preferred_locator) + ".iwa"


def record_flags(buf: bytes, off: int) -> int:
    return int.from_bytes(buf[off + 8:off + 12], "little") if 0 <= off and off + 12 <= len(buf) else 0


def abstract(dst: Pkg, src: Pkg | None) -> dict:
    """The abstract package (plain python data; `to_lines` renders the line protocol)."""
    src_objs = {}
    src_ids = set()
    D, Dd = [], []
    src_members, src_comps, src_ext, src_uuid, src_datas = set(), set(), set(), set(), set()
    if src is not None:
        for o in src.objects:
            src_objs.setdefault(o["id"], (src.members[o["file"]], o["bytes"]))
        src_ids = set(src_objs)
        sd = set(d.identifier for d in src.meta.datas) if src.meta is not None else set()
        for o in src.objects:
            for r, _ in o["refs"]:
                if r not in src_ids:
                    D.append((o["id"], r))
            for r in o["hrefs"]:
                if r not in src_ids:
                    D.append((o["id"], r))
            for r, _ in o["drefs"]:
                if r not in sd:
                    Dd.append((o["id"], r))
            for r in o["hdrefs"]:
                if r not in sd:
                    Dd.append((o["id"], r))
        src_members = set(src.members)
        if src.meta is not None:
            for c in src.meta.components:
                src_comps.add(c.identifier)
                for x in c.external_references:
                    src_ext.add((c.identifier, x.component_identifier, x.object_identifier if x.HasField("object_identifier") else None))
                for u in c.object_uuid_map_entries:
                    src_uuid.add((c.identifier, u.identifier))
            src_datas = set(d.identifier for d in src.meta.datas)
    D = sorted(set(D))
    Dd = sorted(set(Dd))
    objs = []
    for o in dst.objects:
        added = o["id"] not in src_ids
        touched = added or src_objs[o["id"]] != (dst.members[o["file"]], o["bytes"])
        objs.append(dict(o, added=added, touched=touched))
    meta = dst.meta
    comps, datas = [], []
    if meta is not None:
        for c in meta.components:
            comps.append({
                "id": c.identifier, "locator": c.locator, "preferred": c.preferred_locator,
                "added": c.identifier not in src_comps,
                "ext": [(x.component_identifier, x.object_identifier if x.HasField("object_identifier") else None,
                         (c.identifier, x.component_identifier, x.object_identifier if x.HasField("object_identifier") else None) not in src_ext)
                        for x in c.external_references],
                "uuid": [(u.identifier, (c.identifier, u.identifier) not in src_uuid) for u in c.object_uuid_map_entries],
            })
        for d in meta.datas:
            datas.append({"id": d.identifier, "file": d.file_name or d.preferred_file_name, "added": d.identifier not in src_datas})
    return {
        "last": meta.last_object_identifier if meta is not None else 0,
        "D": D, "Dd": Dd,
        "members": [(n, n not in src_members) for n in dst.members],
        "components": comps, "datas": datas, "objects": objs,
        "tables": abstract_tables(dst, {o["id"]: o for o in objs}),
    }


def abstract_tables(pkg: Pkg, objs: dict) -> list:
    """declared size + tiles of every table whose model and tiles the library wrote."""
    out = []
    for o in pkg.objects:
        if o["tname"] != "TST.TableModelArchive":
            continue
        tm = o["msg"]
        tiles = []
        rewritten = objs[o["id"]]["touched"]
        resolved = True
        for t in tm.base_data_store.tiles.tiles:
            tobj = pkg.tiles.get(t.tile.identifier)
            if tobj is None:
                resolved = False   # reported as a dangling reference by the object-level check
                continue
            if not objs[t.tile.identifier]["added"]:
                rewritten = False  # tiles kept from the source (pivot tables are not rewritten)
            rows = []
            for ri in tobj.rowInfos:
                offs = array("h", ri.cell_offsets).tolist()
                wide = bool(ri.has_wide_offsets)
                buf = ri.cell_storage_buffer
                flags = [record_flags(buf, x * 4 if wide else x) for x in offs if x >= 0]
                rows.append({"index": ri.tile_row_index, "count": ri.cell_count, "wide": wide, "slen": len(buf),
                             "offs": offs, "flags": flags})
            tiles.append({"tileid": t.tileid, "numrows": tobj.numrows, "rows": rows, "oid": t.tile.identifier})
        out.append({"id": o["id"], "nrows": tm.number_of_rows, "ncols": tm.number_of_columns, "tiles": tiles,
                    "rewritten": rewritten and resolved})
    return out


# ---------------------------------------------------------------- line protocol
def hx(s: str) -> str:
    return s.encode("utf-8").hex()


def b01(b) -> str:
    return "1" if b else "0"


def dots(xs) -> str:
    return ".".join(str(x) for x in xs)


def pkg_line(a: dict) -> str:
    pairs = lambda l: ",".join(f"{x}:{y}" for x, y in l)  # noqa: E731
    members = ",".join(f"{hx(n)}:{b01(ad)}" for n, ad in a["members"])
    comps = ",".join(
        ":".join([str(c["id"]), hx(c["locator"]), hx(c["preferred"]), b01(c["added"]),
                  "/".join(f"{x}.{'-' if y is None else y}.{b01(ad)}" for x, y, ad in c["ext"]),
                  "/".join(f"{u}.{b01(ad)}" for u, ad in c["uuid"])])
        for c in a["components"])
    datas = ",".join(f"{d['id']}:{hx(d['file'])}:{b01(d['added'])}" for d in a["datas"])
    objs = ",".join(
        ":".join([str(o["id"]), str(o["file"]), str(o["type"]), b01(o["added"]), b01(o["touched"]),
                  dots(r for r, _ in o["refs"]), dots(o["hrefs"]), dots(r for r, _ in o["drefs"]), dots(o["hdrefs"])])
        for o in a["objects"])
    return "\t".join(["pkg", str(a["last"]), pairs(a["D"]), pairs(a["Dd"]), members, comps, datas, objs])


def tbl_line(t: dict) -> str:
    tiles = "|".join(
        ";".join([str(tl["tileid"]), str(tl["numrows"])] +
                 [":".join([str(r["index"]), str(r["count"]), b01(r["wide"]), str(r["slen"]),
                            ",".join(map(str, r["offs"])), ",".join(map(str, r["flags"]))]) for r in tl["rows"]])
        for tl in t["tiles"])
    return "\t".join(["tbl", str(t["id"]), str(t["nrows"]), str(t["ncols"]), tiles])


# ---------------------------------------------------------------- independent oracle
LAYOUT = [(0, 16), (1, 8), (2, 8)] + [(b, 4) for b in range(3, 21)]


def reclen(flags: int) -> int:
    return 12 + sum(w for b, w in LAYOUT if flags >> b & 1)


def py_validate_pkg(a: dict) -> list:
    """Same checks, same order, as Package.validate_pkg - written against the python data."""
    out = []
    ids = {}
    for o in a["objects"]:
        ids[o["id"]] = ids.get(o["id"], 0) + 1
    D, Dd = set(a["D"]), set(a["Dd"])
    data_ids = {}
    for d in a["datas"]:
        data_ids[d["id"]] = data_ids.get(d["id"], 0) + 1
    names = [n for n, _ in a["members"]]
    nameset = set(names)
    for o in a["objects"]:
        if o["touched"]:
            out += [f"ref:{o['id']}:{r}" for r, _ in o["refs"] if r not in ids and (o["id"], r) not in D]
            out += [f"href:{o['id']}:{r}" for r in o["hrefs"] if r not in ids and (o["id"], r) not in D]
            out += [f"dref:{o['id']}:{r}" for r, _ in o["drefs"] if r not in data_ids and (o["id"], r) not in Dd]
            out += [f"hdref:{o['id']}:{r}" for r in o["hdrefs"] if r not in data_ids and (o["id"], r) not in Dd]
    for o in a["objects"]:
        if o["added"]:
            if ids[o["id"]] != 1:
                out.append(f"dupid:{o['id']}")
            if o["id"] > a["last"]:
                out.append(f"above:{o['id']}")
    files = set(comp_file_of(c) for c in a["components"])
    for i, (n, added) in enumerate(a["members"]):
        if added and n.endswith(".iwa") and n != METADATA_MEMBER and n not in files:
            out.append(f"unlisted:{i}")
    comp_ids = set(c["id"] for c in a["components"])
    for c in a["components"]:
        f = comp_file_of(c)
        if c["added"]:
            if f not in nameset:
                out.append(f"nofile:{c['id']}")
            if not any(o["id"] == c["id"] and 0 <= o["file"] < len(names) and names[o["file"]] == f for o in a["objects"]):
                out.append(f"noroot:{c['id']}")
        for x, y, ad in c["ext"]:
            if ad:
                if x not in comp_ids:
                    out.append(f"extcomp:{c['id']}:{x}")
                if y is not None and y not in ids:
                    out.append(f"extobj:{c['id']}:{y}")
        for u, ad in c["uuid"]:
            if ad and u not in ids:
                out.append(f"uuid:{c['id']}:{u}")
    for d in a["datas"]:
        if d["added"]:
            if data_ids[d["id"]] != 1:
                out.append(f"dupdata:{d['id']}")
            if "Data/" + d["file"] not in nameset:
                out.append(f"nodata:{d['id']}")
    return out


def comp_file_of(c: dict) -> str:
    return "Index/" + (c["locator"] or c["preferred"]) + ".iwa"


def py_validate_tbl(t: dict) -> list:
    out = []
    tid = t["id"]
    total = sum(len(tl["rows"]) for tl in t["tiles"])
    if total != t["nrows"]:
        out.append(f"rows:{tid}:{total}")
    glob = [tl["tileid"] * TILE_SIZE + r["index"] for tl in t["tiles"] for r in tl["rows"]]
    if glob != list(range(t["nrows"])):
        out.append(f"cover:{tid}")
    for tl in t["tiles"]:
        k = tl["tileid"]
        if len(tl["rows"]) > TILE_SIZE:
            out.append(f"tilebig:{tid}:{k}")
        if len(tl["rows"]) != tl["numrows"]:
            out.append(f"numrows:{tid}:{k}")
        idx = [r["index"] for r in tl["rows"]]
        if any(i >= TILE_SIZE for i in idx) or any(b <= a_ for a_, b in zip(idx, idx[1:])):
            out.append(f"rowindex:{tid}:{k}")
        for r in tl["rows"]:
            i = r["index"]
            offs = r["offs"]
            if len(offs) != t["ncols"]:
                out.append(f"offslen:{tid}:{k}:{i}")
            if any(x < -1 for x in offs):
                out.append(f"offneg:{tid}:{k}:{i}")
            present = [x * 4 if r["wide"] else x for x in offs if x >= 0]
            if len(present) != r["count"]:
                out.append(f"count:{tid}:{k}:{i}")
            if len(r["flags"]) != len(present):
                out.append(f"flagslen:{tid}:{k}:{i}")
            recs = list(zip(present, r["flags"]))
            bad = False
            for j, (x, f) in enumerate(recs):
                nxt = recs[j + 1][0] if j + 1 < len(recs) else r["slen"]
                if x % 4 != 0 or x + reclen(f) > nxt:
                    bad = True
            if bad:
                out.append(f"records:{tid}:{k}:{i}")
    return out


def render(defects: list) -> str:
    return ";".join(defects) if defects else "ok"
