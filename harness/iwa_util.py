"""Shared helpers of the C05 / C17 checks (IWA container model): corpus of IWA
members, recording proxies for the external libraries (python-snappy, protobuf),
digests, synthetic archive builders, an independent stream walker."""
from __future__ import annotations

import glob
import io
import os
import resource
import struct
import warnings
import zipfile
import zlib

from . import common

warnings.simplefilter("ignore")


def raise_stack_limit():
    """The extracted model recurses over byte lists; give the child processes the hard stack limit."""
    soft, hard = resource.getrlimit(resource.RLIMIT_STACK)
    if soft != hard:
        try:
            resource.setrlimit(resource.RLIMIT_STACK, (hard, hard))
        except (ValueError, OSError):
            pass


def iwa():
    from numbers_parser import iwafile
    return iwafile


# ------------------------------------------------------------------ corpus
def fixture_paths():
    return sorted(glob.glob(str(common.REPO / "tests/data/*.numbers"))) + \
        [str(common.REPO / "src/numbers_parser/data/empty.numbers")]


def zip_members(z):
    for name in z.namelist():
        try:
            blob = z.read(name)
        except Exception:  # noqa: BLE001 - deliberately damaged fixtures
            continue
        if name.lower().endswith("index.zip"):
            try:
                z2 = zipfile.ZipFile(io.BytesIO(blob))
            except Exception:  # noqa: BLE001
                continue
            yield from zip_members(z2)
        else:
            yield name, blob


def members_of(path):
    """(member name, bytes) of every file inside a .numbers file or package."""
    if os.path.isdir(path):
        for root, _, files in os.walk(path):
            for fn in sorted(files):
                p = os.path.join(root, fn)
                if fn.lower() == "index.zip":
                    try:
                        z = zipfile.ZipFile(p)
                    except Exception:  # noqa: BLE001
                        continue
                    yield from zip_members(z)
                else:
                    with open(p, "rb") as fh:
                        yield os.path.relpath(p, path), fh.read()
    else:
        try:
            z = zipfile.ZipFile(path)
        except Exception:  # noqa: BLE001
            return
        yield from zip_members(z)


def iwa_members(paths=None):
    """All well-framed .iwa members: (fixture, name, blob)."""
    m = iwa()
    out = []
    for f in (paths or fixture_paths()):
        for name, blob in members_of(f):
            if not name.endswith(".iwa"):
                continue
            try:
                if not m.is_iwa_file(blob):
                    continue
            except Exception:  # noqa: BLE001
                continue
            out.append((os.path.basename(f), name, blob))
    return out


# ------------------------------------------------------------------ recording proxies
class SnappyRecorder:
    """Stands in for the `snappy` module inside numbers_parser.iwafile and records the
    graph of compress / uncompress on the arguments the implementation passes."""

    def __init__(self):
        import snappy
        self._s = snappy
        self.un: dict[bytes, bytes | None] = {}
        self.co: dict[bytes, bytes] = {}

    def uncompress(self, data):
        data = bytes(data)
        try:
            r = self._s.uncompress(data)
        except Exception:
            self.un[data] = None
            raise
        self.un[data] = r
        return r

    def compress(self, data):
        data = bytes(data)
        r = self._s.compress(data)
        self.co[data] = r
        return r

    def __enter__(self):
        self._m = iwa()
        self._old = self._m.snappy
        self._m.snappy = self
        return self

    def __exit__(self, *a):
        self._m.snappy = self._old

    @staticmethod
    def table(d: dict) -> str:
        return ",".join(k.hex() + ":" + ("-" if v is None else v.hex()) for k, v in d.items())


def snappy_un(data: bytes):
    import snappy
    try:
        return snappy.uncompress(data)
    except Exception:  # noqa: BLE001
        return None


# ------------------------------------------------------------------ digests (mirror of C05Entry.show_*)
def dg(b: bytes) -> str:
    return f"{len(b)}:{zlib.adler32(b)}"


def seg_digest(seg) -> str:
    return dg(seg.header.SerializeToString()) + "|" + "|".join(dg(o.SerializeToString()) for o in seg.objects)


def chunk_digest(chunk) -> str:
    return ";".join(seg_digest(s) for s in chunk.archives)


def file_digest(f) -> str:
    return f"{len(f.chunks)} " + " ".join(chunk_digest(c) for c in f.chunks)


def raw_stream(blob: bytes) -> bytes:
    return b"".join(iwa().IWACompressedChunk._decompress_all(blob))


def exn(e: BaseException) -> str:
    """Exception -> the model's !Name vocabulary (PyBase.exn_name)."""
    n = type(e).__name__
    if isinstance(e, struct.error):
        return "!CRASH:struct"
    if isinstance(e, zipfile.BadZipFile):
        return "!CRASH:zip"
    if n in ("IndexError", "ValueError", "KeyError", "TypeError", "FileError", "FileFormatError", "UnsupportedError"):
        return "!" + n
    return "!CRASH"


# ------------------------------------------------------------------ builders (independent of iwafile.py)
def varint(n: int) -> bytes:
    out = bytearray()
    while True:
        b = n & 0x7F
        n >>= 7
        if n:
            out.append(b | 0x80)
        else:
            out.append(b)
            return bytes(out)


def frame_py(payload: bytes) -> bytes:
    return b"\x00" + struct.pack("<I", len(payload))[:3] + payload


def frame_pieces(pieces, modes) -> bytes:
    import snappy
    return b"".join(frame_py(snappy.compress(p) if m == "c" else p) for p, m in zip(pieces, modes))


SYN_TYPE = 2006   # TSWP.UIGraphicalAttachment: a message type without fields, every field is "unknown to the schema"


def filler(n: int) -> bytes:
    """A well-formed protobuf byte string of exactly n bytes (n != 1) made of fields no schema knows."""
    if n == 0:
        return b""
    for pads in range(3):
        m = n - 2 * pads
        if m < 0:
            break
        if m == 0:
            return b"\x08\x01" * pads
        for lv in (1, 2, 3, 4, 5):
            body = m - 1 - lv
            if body >= 0 and len(varint(body)) == lv:
                return b"\x08\x01" * pads + b"\x12" + varint(body) + bytes((i * 7 + 3) & 0xFF for i in range(body))
    raise ValueError(f"no filler of size {n}")


def make_segment(ident: int, payloads: list[bytes], types=None, lengths=None, extra_header: bytes = b"") -> bytes:
    """Raw bytes of one archive segment built with the protobuf API only."""
    from numbers_parser.generated.TSPArchiveMessages_pb2 import ArchiveInfo
    h = ArchiveInfo()
    h.identifier = ident
    for i, p in enumerate(payloads):
        mi = h.message_infos.add()
        mi.type = (types or [SYN_TYPE] * len(payloads))[i]
        mi.version.extend([1, 0, 5])
        mi.length = len(p) if lengths is None else lengths[i]
    hb = h.SerializeToString() + extra_header
    return varint(len(hb)) + hb + b"".join(payloads)


def walk_stream(raw: bytes):
    """Independent walker over an uncompressed stream: [(header bytes, [payload bytes])].
    Uses protobuf only to read message_infos lengths."""
    from numbers_parser.generated.TSPArchiveMessages_pb2 import ArchiveInfo
    out = []
    pos = 0
    while pos < len(raw):
        n = 0
        shift = 0
        while True:
            b = raw[pos]
            pos += 1
            n |= (b & 0x7F) << shift
            shift += 7
            if not b & 0x80:
                break
        hb = raw[pos:pos + n]
        if n == 0:
            raise ValueError("empty ArchiveInfo")
        if len(hb) != n:
            raise ValueError("header runs past the end of the stream")
        pos += n
        h = ArchiveInfo.FromString(hb)
        ps = []
        for mi in h.message_infos:
            p = raw[pos:pos + mi.length]
            if len(p) != mi.length:
                raise ValueError("message runs past the end of the stream")
            ps.append(p)
            pos += mi.length
        out.append((hb, ps))
    return out
