"""C20 - CSV import followed by CSV export reproduces the cell grid.

Theorems: coq/Props/C20.v over coq/Model/Csv.v (coercion, grid bookkeeping, cell_as_string,
skeleton of main, and an excel-dialect csv writer/reader pair).  Correspondence / glue:
generated grids are written as CSV, converted by csv2numbers' main in-process, re-opened,
exported by cat-numbers -b in-process and parsed by Python's csv module; the extracted model
predicts every cell's class and exported text, the outcome of main and the output text; the
model's csv writer/reader, whitespace rules are compared with CPython's on their own streams.
Oracle: the property stated directly on the two command-line tools."""
from __future__ import annotations

import contextlib
import csv
import io
import json
import math
import re
import sys
import warnings
from pathlib import Path

from . import common
from .common import Ctx, cps

LEVEL = "proof"
ENTRY = "C20Entry"
TINY = 1e-307


# ---------------------------------------------------------------- running the tools in-process
def run_tool(mod, argv):
    """(exit status, stdout, stderr, escaped exception)"""
    out, err = io.StringIO(newline=""), io.StringIO()
    old_argv = sys.argv
    sys.argv = argv
    code, exc = 0, None
    had = hasattr(mod, "stderr")
    old_err = getattr(mod, "stderr", None)
    if had:
        mod.stderr = err  # _csv2numbers binds sys.stderr at import time
    try:
        with contextlib.redirect_stdout(out), contextlib.redirect_stderr(err), warnings.catch_warnings():
            warnings.simplefilter("ignore")
            mod.main()
    except SystemExit as e:
        code = e.code if isinstance(e.code, int) else (0 if e.code is None else 1)
    except BaseException as e:  # noqa: BLE001
        exc = e
    finally:
        sys.argv = old_argv
        if had:
            mod.stderr = old_err
        lg = getattr(mod, "logger", None)
        if lg is not None:
            lg.handlers.clear()
    return code, out.getvalue(), err.getvalue(), exc


def tools():
    from numbers_parser import _cat_numbers, _csv2numbers
    return _csv2numbers, _cat_numbers


FLAG_NAMES = ("--no-header", "--reverse", "--whitespace")


def write_csv(path: Path, rows, variant: int):
    """Several spellings of the same well-formed CSV file."""
    buf = io.StringIO(newline="")
    if variant == 1:
        csv.writer(buf, dialect="excel", quoting=csv.QUOTE_ALL).writerows(rows)
    elif variant == 2:
        csv.writer(buf, dialect="excel", quoting=csv.QUOTE_ALL, lineterminator="\n").writerows(rows)
    else:
        csv.writer(buf, dialect="excel").writerows(rows)
    text = buf.getvalue()
    if variant == 3 and text.endswith("\r\n") and not text.endswith('""\r\n'):
        text = text[:-2]
    with open(path, "w", encoding="utf-8", newline="") as f:
        f.write(text)
    return text


def convert_and_export(tmp: Path, case):
    """Run csv2numbers then cat-numbers -b on one case. Returns a dict of observations."""
    c2n, cat = tools()
    rows, flags, variant = case["rows"], case["flags"], case.get("variant", 0)
    src, dst = tmp / "in.csv", tmp / "out.numbers"
    if dst.exists():
        dst.unlink()
    text = write_csv(src, rows, variant)
    argv = ["csv2numbers"] + [n for n, f in zip(FLAG_NAMES, flags) if f] + [str(src), "-o", str(dst)]
    code, out, err, exc = run_tool(c2n, argv)
    obs = {"csv": text, "code": code, "stderr": err, "exc": exc, "table": None, "export": None, "export_text": None}
    if exc is not None or code != 0:
        return obs
    from numbers_parser import Document
    try:
        with warnings.catch_warnings():
            warnings.simplefilter("ignore")
            t = Document(str(dst)).sheets[0].tables[0]
            obs["table"] = [[type(c).__name__ for c in r] for r in t.rows()]
    except Exception as e:  # noqa: BLE001
        obs["exc"] = e
        return obs
    code2, out2, err2, exc2 = run_tool(cat, ["cat-numbers", "-b", str(dst)])
    if exc2 is not None or code2 != 0:
        obs["exc"] = exc2 or RuntimeError(f"cat-numbers exit {code2}: {err2[:200]}")
        return obs
    obs["export_text"] = out2
    obs["export"] = list(csv.reader(io.StringIO(out2, newline=""), dialect="excel"))
    return obs


# ---------------------------------------------------------------- the property, stated on the tools
def py_float(v: str):
    try:
        return float(v.replace(",", ""))
    except ValueError:
        return None


def py_norm(v: str) -> str:
    return re.sub(r"\s+", " ", v.strip())


def oracle(case, obs):
    """Implementation-only statement of C20 for one grid: [(signature, detail)]."""
    rows, (no_header, reverse, ws) = case["rows"], case["flags"]
    fails = []
    flat = [v for r in (rows if no_header else rows[1:]) for v in r]
    vals = [py_float(v) for v in flat]
    if obs["exc"] is not None:
        e = obs["exc"]
        name = type(e).__name__
        if name == "ValueError" and any(f is not None and not math.isfinite(f) for f in vals):
            bad = next(v for v, f in zip(flat, vals) if f is not None and not math.isfinite(f))
            return [("special-float-crash", f"cell {bad!r}: {name}: {e}")]
        if name == "ZeroDivisionError" and any(f is not None and 0 < abs(f) < TINY for f in vals):
            bad = next(v for v, f in zip(flat, vals) if f is not None and 0 < abs(f) < TINY)
            return [("tiny-number-crash", f"cell {bad!r}: {name}: {e}")]
        return [("crash", f"{name}: {e}")]
    if obs["code"] != 0:
        lines = obs["stderr"].splitlines()
        if len(lines) != 1:
            fails.append(("error-not-one-line", f"exit {obs['code']}, stderr {obs['stderr'][:300]!r}"))
        else:
            fails.append(("wellformed-csv-rejected", f"exit {obs['code']}: {lines[0][:300]}"))
        return fails
    got = obs["export"]
    header = None if no_header else rows[0]
    data = rows if no_header else rows[1:]
    if reverse:
        data = data[::-1]
    exp = ([] if no_header else [[("H", v) for v in header]]) + [[("D", v) for v in r] for r in data]
    nr, nc = len(exp), len(exp[0])
    gr, gc = len(got), (len(got[0]) if got else 0)
    if any(len(r) != gc for r in got):
        fails.append(("grid-shape", f"exported rows are ragged: {[len(r) for r in got]}"))
        return fails
    if (gr, gc) != (nr, nc):
        if header is not None and len(set(header)) != len(header):
            fails.append(("duplicate-header-collapses-columns", f"header {header!r}: {nr}x{nc} grid exported as {gr}x{gc}: {got[:3]!r}"))
            return fails
        if (nr < 2 or nc < 2) and (gr, gc) == (max(nr, 2), max(nc, 2)) and \
                all(got[i][j] == "" for i in range(gr) for j in range(gc) if i >= nr or j >= nc):
            fails.append(("small-grid-padded", f"{nr}x{nc} grid exported as {gr}x{gc} (padded with empty cells)"))
        else:
            fails.append(("grid-shape", f"{nr}x{nc} grid exported as {gr}x{gc}"))
            return fails
    elif header is not None and len(set(header)) != len(header):
        fails.append(("duplicate-header-collapses-columns", f"header {header!r}: values moved between columns: {got[:3]!r}"))
        return fails
    for i in range(nr):
        for j in range(nc):
            kind, v = exp[i][j]
            g = got[i][j]
            if kind == "H":
                if g != v and not (ws and g == py_norm(v)):
                    cr = g == v.replace("\r\n", "\n").replace("\r", "\n")
                    fails.append(cell_fail("cr-becomes-lf" if cr else "text-differs", i, j, v, g))
                continue
            f = py_float(v)
            if f is not None and math.isfinite(f):
                try:
                    gf = float(g)
                except ValueError:
                    gf = None
                if gf is None or gf != f:
                    if sig_digits(v) <= 15:
                        fails.append(cell_fail("number-differs", i, j, v, g))
                continue
            want = py_norm(v) if ws else v
            if g != want:
                if f is not None:
                    fails.append(cell_fail("special-not-text", i, j, v, g))
                elif g == want.replace("\r\n", "\n").replace("\r", "\n"):
                    fails.append(cell_fail("cr-becomes-lf", i, j, v, g))
                else:
                    fails.append(cell_fail("text-differs", i, j, v, g))
            if len(fails) > 6:
                return fails
    return fails


def cell_fail(sig, i, j, v, g):
    return (sig, f"cell ({i},{j}) {v!r} came back as {g!r}")


def sig_digits(v: str) -> int:
    """Significant decimal digits of a numeric spelling (mantissa only)."""
    import unicodedata
    m = v.replace(",", "").replace("_", "").strip().lstrip("+-")
    m = re.split(r"[eE]", m)[0]
    ds = "".join(str(unicodedata.decimal(c)) for c in m if c != "." and unicodedata.decimal(c, None) is not None)
    ds = ds.lstrip("0")
    if "." not in m:
        ds = ds.rstrip("0")
    return len(ds)


# ---------------------------------------------------------------- model requests
def float_table(cells) -> str:
    ent = []
    seen = set()
    for v in cells:
        k = v.replace(",", "")
        if k in seen:
            continue
        seen.add(k)
        try:
            f = float(k)
        except ValueError:
            continue
        if math.isnan(f):
            ent.append(f"{cps(k)}:N")
        elif math.isinf(f):
            ent.append(f"{cps(k)}:I")
        else:
            ent.append(f"{cps(k)}:F:{cps(repr(f + 0.0))}")
    return ";".join(ent)


def enc_rows(rows) -> str:
    return "/".join("+" + ";".join("=" + cps(c) for c in r) for r in rows)


def enc_flags(flags, finite_only=True) -> str:
    return "".join("1" if f else "0" for f in flags) + ("1" if finite_only else "0")


CLASS = {"TextCell": "T", "NumberCell": "N", "EmptyCell": "E"}


def impl_conv_line(obs) -> str:
    if obs["exc"] is not None:
        return "!" + type(obs["exc"]).__name__
    if obs["code"] != 0:
        return "reported"
    tab, ex = obs["table"], obs["export"]
    if len(tab) != len(ex) or any(len(a) != len(b) for a, b in zip(tab, ex)):
        return f"document {len(tab)} rows / export {len(ex)} rows"
    return "ok\t" + "/".join("+" + ";".join(CLASS.get(k, "?" + k) + "=" + cps(t) for k, t in zip(a, b)) for a, b in zip(tab, ex))


def impl_main_line(obs) -> str:
    if obs["exc"] is not None:
        return "crash:" + type(obs["exc"]).__name__
    if obs["code"] == 0:
        return "exit0"
    return "reported" if len(obs["stderr"].splitlines()) == 1 and obs["code"] == 1 else f"exit{obs['code']}:{len(obs['stderr'].splitlines())}lines"


# ---------------------------------------------------------------- generators
TEXT_ATOMS = ["a", "b", "Z", "é", "ß", "数", "据", "\U0001F4CA", "á", " ", " ", "  ", "\t", ",", ",", '"', '"', '""', "\r", "\n", "\r\n",
              ";", "'", "=", "-", "+", ".", "e", "E", "_", "0", "1", "٣", "\xa0", " ", " ", "\x0b", "\x1f", "\x85",
              "﻿", "​", "x\x00y", "\\", "/", "|", "#", "nan", "inf", "1e5x", "\U0010ffff"]
SPECIALS = ["nan", "NaN", "NAN", "inf", "-inf", "+inf", "Inf", "INF", "infinity", "-Infinity", "+INFINITY", " nan", "nan ", "\tinf\n",
            "1e400", "-1e400", "1e309", "9" * 400, "-1.5e999", "n,an", "in,f", ",nan,", "1,e400", "\xa0nan\xa0", "+nan", "-nan"]
NEAR_NUMBERS = ["1e", "e5", "0x10", "1.2.3", "--1", "1 2", "١٢٣abc", "1__0", "_1", "1_", "1_.5", "1e_5", "+", "-", ".", "1,2,", ",",
                ",,", "1e+", "١e٢x", "1.0f", "1d5", "0b1", "0o7", "1/2", "50%", "$5", "(5)", "1 000", "12:30", "2020-01-02", "True", "None",
                "nane", "infi", "infinit", "in f", "na n"]
DIGITSETS = ["0123456789", "٠١٢٣٤٥٦٧٨٩", "０１２３４５６７８９", "०१२३४५६७८९"]


def gen_number(rng) -> str:
    nd = rng.randrange(1, 16)
    digs = str(rng.randrange(1, 10)) + "".join(str(rng.randrange(10)) for _ in range(nd - 1))
    r = rng.random()
    if r < 0.35:
        s = digs
    elif r < 0.7:
        p = rng.randrange(0, nd + 1)
        s = digs[:p] + "." + digs[p:]
        if rng.random() < 0.3:
            s = "0" * rng.randrange(1, 4) + s if p else "0" * rng.randrange(0, 3) + s
    else:
        p = rng.randrange(0, nd + 1)
        e = rng.choice([rng.randrange(-12, 13), rng.randrange(-30, 31), rng.randrange(-290, 291), rng.randrange(-340, 341)])
        s = (digs[:p] + ("." + digs[p:] if p < nd or rng.random() < 0.3 else "")) + rng.choice("eE") + rng.choice(["", "+", ""] if e >= 0 else [""]) + str(e)
        if s.startswith(("e", "E", ".e", ".E")):
            s = "0" + s
    if rng.random() < 0.2 and "." not in s and "e" not in s.lower() and len(s) > 3:
        # thousands separators
        head, groups = s[: len(s) % 3 or 3], []
        rest = s[len(head):]
        groups = [rest[i:i + 3] for i in range(0, len(rest), 3)]
        s = ",".join([head] + groups)
    if rng.random() < 0.1 and len(s) > 2:
        p = rng.randrange(1, len(s))
        if s[p - 1].isdigit() and s[p].isdigit():
            s = s[:p] + "_" + s[p:]
    if rng.random() < 0.12:
        ds = rng.choice(DIGITSETS[1:])
        s = "".join(ds[int(c)] if c.isdigit() else c for c in s)
    s = rng.choice(["", "", "", "-", "+"]) + s
    if rng.random() < 0.1:
        s = rng.choice([" ", "\t", "\xa0", "  "]) + s + rng.choice(["", " ", "\n", " "])
    if rng.random() < 0.05:
        s = rng.choice(["0", "0.0", "-0", "0e0", "00", "-0.000", "1e-400", "0.0e-999"])
    return s


def gen_text(rng) -> str:
    n = rng.choice([1, 1, 2, 3, 4, 6, 10, 25])
    return "".join(rng.choice(TEXT_ATOMS) for _ in range(n))


def gen_cell(rng, profile) -> str:
    r = rng.random()
    for p, kind in profile:
        if r < p:
            break
    if kind == "text":
        return gen_text(rng)
    if kind == "num":
        return gen_number(rng)
    if kind == "special":
        return rng.choice(SPECIALS)
    if kind == "near":
        return rng.choice(NEAR_NUMBERS)
    return ""


PROFILES = {
    "mixed": [(0.35, "text"), (0.70, "num"), (0.78, "special"), (0.90, "near"), (1.0, "empty")],
    "text": [(0.85, "text"), (0.90, "near"), (1.0, "empty")],
    "numbers": [(0.9, "num"), (1.0, "empty")],
    "hostile": [(0.3, "text"), (0.4, "num"), (0.7, "special"), (1.0, "near")],
}


def gen_grid(rng, small=False):
    nr = rng.choice([1, 2, 2, 3, 3, 4, 5, 6, 7]) if small else rng.choice([1, 2, 2, 3, 5, 8, 13, 21, 34, 40, rng.randrange(1, 41)])
    nc = rng.choice([1, 2, 2, 3, 3, 4, 4]) if small else rng.choice([1, 2, 2, 3, 4, 6, 9, 12, rng.randrange(1, 13)])
    pname = rng.choice(["mixed", "mixed", "mixed", "text", "numbers", "hostile"])
    profile = PROFILES[pname]
    flags = [rng.random() < 0.35, rng.random() < 0.3, rng.random() < 0.3]
    rows = [[gen_cell(rng, profile) for _ in range(nc)] for _ in range(nr)]
    if not flags[0]:
        # header row: mostly distinct names, sometimes duplicates (a known finding)
        hdr = [gen_cell(rng, PROFILES["text"]) if rng.random() < 0.6 else f"col{j}" for j in range(nc)]
        if rng.random() < 0.9:
            seen, out = set(), []
            for j, h in enumerate(hdr):
                while h in seen:
                    h = h + str(j)
                seen.add(h)
                out.append(h)
            hdr = out
        rows[0] = hdr
    return {"rows": rows, "flags": flags, "variant": rng.choice([0, 0, 0, 1, 2, 3]), "profile": pname}


def scripted_grids():
    g = []
    base = [["name", "value", "note"], ["a,b", "1,234.50", 'say "hi"'], ["line\nbreak", "-0.5e-3", "cr\rx"], ["crlf\r\ny", "١٢٣", ""],
            ["  padded  text ", " 12 ", "1_000"], ["nan", "inf", "1e400"], ["NaN ", "-Infinity", "n,an"]]
    for fl in ([False, False, False], [True, False, False], [False, True, False], [False, False, True], [True, True, True]):
        g.append({"rows": base, "flags": fl, "variant": 0})
    # canonically equivalent spellings side by side: each cell keeps its own code points
    equiv = [["name", "alt", "n"], ["caf\u00e9", "cafe\u0301", "1"], ["\u00c5", "\u212b", "A\u030a"], ["\u1e69", "s\u0323\u0307", "s\u0307\u0323"],
             ["\uac00", "\u1100\u1161", "\ufb01"], ["cafe\u0301", "caf\u00e9", "2"]]
    for fl in ([False, False, False], [True, False, False], [False, False, True]):
        g.append({"rows": equiv, "flags": fl, "variant": 0})
    g.append({"rows": [["x"]], "flags": [False, False, False], "variant": 0})
    g.append({"rows": [["7"]], "flags": [True, False, False], "variant": 0})
    g.append({"rows": [["a", "b", "c"]], "flags": [False, False, False], "variant": 0})
    g.append({"rows": [["a"], ["1"], ["2"], ["x"]], "flags": [False, True, False], "variant": 0})
    g.append({"rows": [["a", "a", "b"], ["1", "2", "3"], ["4", "5", "6"]], "flags": [False, False, False], "variant": 0})
    g.append({"rows": [["", "", "k"], ["p", "q", "r"]], "flags": [False, False, False], "variant": 0})
    g.append({"rows": [["a", "b"], ["1e-320", "5e-324"], ["1e-307", "2.5e-310"]], "flags": [False, False, False], "variant": 0})
    g.append({"rows": [["a", "b"], ["", ""], ["", ""]], "flags": [False, False, False], "variant": 3})
    g.append({"rows": [["", ""], ["", ""]], "flags": [True, False, True], "variant": 0})
    return g


CSV_ALPHA = ["a", "b", ",", ",", '"', '"', "\r", "\n", "\r\n", " ", "x", "é", '""', '","', '"\r\n']


def gen_csv_text(rng) -> str:
    return "".join(rng.choice(CSV_ALPHA) for _ in range(rng.randrange(0, 14)))


def gen_rows_for_writer(rng):
    nr = rng.randrange(0, 5)
    return [[gen_text(rng) if rng.random() < 0.7 else "" for _ in range(rng.randrange(0, 5))] for _ in range(nr)]


def py_read(text: str, strict: bool) -> str:
    try:
        rows = list(csv.reader(io.StringIO(text, newline=""), dialect="excel", strict=strict))
    except csv.Error:
        return "!ValueError"
    return "ok\t" + enc_rows(rows)


def py_write(rows) -> str:
    buf = io.StringIO(newline="")
    csv.writer(buf, dialect="excel").writerows(rows)
    return cps(buf.getvalue())


# ---------------------------------------------------------------- run
def pure_streams(ctx: Ctx, exe):
    """The model's csv writer / reader / whitespace rules against CPython's."""
    rng = ctx.rng
    n = 6000 if ctx.quick else 100000
    # writer
    rows_l = [gen_rows_for_writer(rng) for _ in range(n // 3)] + [[[""]], [[]], [], [[""], [""]], [["", ""]], [['"']], [["\r"]], [["\n"]], [[","]]]
    reqs = ["csvw\t" + enc_rows(r) if r else "csvw" for r in rows_l]
    outs = [py_write(r) for r in rows_l]
    ctx.compare("csv-writer", rows_l, reqs, outs, exe, nontrivial=lambda c, o: bool(o))
    # reader on written text (round trip in CPython itself = the csv_roundtrip assumption) and on arbitrary text
    texts = [csv_text_of(r) for r in rows_l] + [gen_csv_text(rng) for _ in range(n)]
    texts += ["", "a", "a,b", "a\r", "a\n", "a\r\n", '"', '""', '"a', '"a"b', '"a"\r\nb', "a\r\rb", "a\n\nb", '"a\rb"', 'a"b', ',', ',\r\n,', '"a""', '"a"""', '" "', '"",""']
    for strict in (True, False):
        reqs = [f"csvr\t{int(strict)}\t{cps(t)}" for t in texts]
        outs = [py_read(t, strict) for t in texts]
        ctx.compare("csv-reader-strict" if strict else "csv-reader", texts, reqs, outs, exe)
        for rows, t in zip(rows_l, texts):
            # CPython's own round trip (assumption csv_roundtrip): a row [] reads back as []
            if py_read(t, strict) != "ok\t" + enc_rows(rows):
                ctx.oracle_fail("cpython-csv-roundtrip", {"rows": rows}, f"csv.reader(csv.writer({rows!r})) differs")
    # whitespace normalisation
    ws_atoms = ["a", "b", " ", "  ", "\t", "\n", "\r", "\x0b", "\x0c", "\x1c", "\x1f", "\x85", "\xa0", " ", " ", " ", "​",
                " ", " ", " ", " ", "　", "﻿", "é", ",", "\x00", "\x1b", "᠎", "⁠"]
    strs = ["".join(rng.choice(ws_atoms) for _ in range(rng.randrange(0, 9))) for _ in range(n // 2)]
    ctx.compare("whitespace", strs, ["ws\t" + cps(s) for s in strs], [cps(py_norm(s)) for s in strs], exe, nontrivial=lambda c, o: bool(o))
    # str.isspace over all code points (surrogates included; re \s agrees, checked on the non-surrogates)
    step = 0x4000
    los = list(range(0, 0x110000, step))
    reqs = [f"sp\t{lo}\t{lo + step}" for lo in los]
    outs = [",".join(str(c) for c in range(lo, lo + step) if chr(c).isspace()) for lo in los]
    ctx.compare("isspace-all-codepoints", los, reqs, outs, exe, nontrivial=lambda c, o: True)
    ctx.count("isspace-all-codepoints", 0x110000 - len(los))
    bad = [c for c in range(0x110000) if not 0xD800 <= c <= 0xDFFF and bool(re.fullmatch(r"\s", chr(c))) != chr(c).isspace()]
    if bad:
        ctx.oracle_fail("regex-space-differs", {"codepoints": bad[:10]}, "re \\s and str.isspace() differ")


def csv_text_of(rows) -> str:
    buf = io.StringIO(newline="")
    csv.writer(buf, dialect="excel").writerows(rows)
    return buf.getvalue()


def grid_stream(ctx: Ctx, exe, grids, stream="grids"):
    cases, conv_reqs, conv_outs, main_reqs, main_outs, rt_cases, rt_reqs, rt_outs = [], [], [], [], [], [], [], []
    for case in grids:
        obs = convert_and_export(ctx.tmp, case)
        ctx.count("oracle:" + stream)
        for sig, detail in oracle(case, obs):
            ctx.oracle_fail(sig, case, detail)
        rows, flags = case["rows"], case["flags"]
        ft = float_table([v for r in rows for v in r])
        fl = enc_flags(flags)
        cases.append(case)
        conv_reqs.append(f"conv\t{fl}\t{ft}\t{enc_rows(rows)}")
        conv_outs.append(impl_conv_line(obs))
        main_reqs.append(f"main\t{fl}\t{ft}\tT{cps(obs['csv'])}")
        main_outs.append(impl_main_line(obs))
        if obs["export_text"] is not None:
            rt_cases.append(case)
            rt_reqs.append(f"rt\t{fl}\t{ft}\t{cps(obs['csv'])}")
            rt_outs.append("=" + cps(obs["export_text"]))
        ctx.dist("cells", sum(len(r) for r in rows))
        ctx.dist("grids:" + "".join("hrw"[i] if f else "-" for i, f in enumerate(flags)))
        ctx.dist(f"grids:variant{case.get('variant', 0)}")
        if obs["exc"] is not None:
            ctx.dist("conversions-crashed")
    if exe:
        ok = lambda c, o: o.startswith(("ok", "=", "exit0"))  # noqa: E731
        ctx.compare(stream + ":cells", cases, conv_reqs, conv_outs, exe, nontrivial=ok)
        ctx.compare(stream + ":main", cases, main_reqs, main_outs, exe, nontrivial=ok)
        ctx.compare(stream + ":text", rt_cases, rt_reqs, rt_outs, exe, nontrivial=ok)


def error_stream(ctx: Ctx, exe):
    """Failure paths of main: missing file, malformed CSV (strict dialect)."""
    c2n, _ = tools()
    rng = ctx.rng
    cases, reqs, outs = [], [], []
    bad_texts = ['a,"b"c\r\n', '"a\r\n', 'x,y\r\n"unterminated', 'a"b,"c"d\r\n', '"a" ,b\r\n', "a\rb,c\r\n\"x\"y"] + \
        [t for t in (gen_csv_text(rng) for _ in range(400)) if py_read(t, True).startswith("!") and t.strip()][:25]
    for t in [None] + bad_texts:
        src = ctx.tmp / "bad.csv"
        if t is None:
            src = ctx.tmp / "does-not-exist.csv"
        else:
            with open(src, "w", encoding="utf-8", newline="") as f:
                f.write(t)
        code, out, err, exc = run_tool(c2n, ["csv2numbers", str(src), "-o", str(ctx.tmp / "bad.numbers")])
        obs = {"code": code, "stderr": err, "exc": exc}
        line = impl_main_line(obs)
        cases.append({"file": t})
        reqs.append("main\t0001\t\t" + ("M" if t is None else "T" + cps(t)))
        outs.append(line)
        ctx.count("oracle:errors")
        if line != "reported":
            ctx.oracle_fail("error-not-reported", {"file": t}, f"{'missing file' if t is None else repr(t)}: {line}; stderr {err[:200]!r}")
    # several files in one invocation (implementation only): a file that cannot be converted is reported by one line and a
    # non-zero exit status wherever it stands in the list
    good = ctx.tmp / "good.csv"
    with open(good, "w", encoding="utf-8", newline="") as f:
        f.write("a,b\r\n1,2\r\n")
    bad = ctx.tmp / "bad2.csv"
    with open(bad, "w", encoding="utf-8", newline="") as f:
        f.write('x,y\r\n"unterminated')
    missing = ctx.tmp / "does-not-exist.csv"
    for order in ([bad, good], [good, bad], [missing, good], [good, missing], [good, bad, good]):
        for extra in ([], ["--no-header"]):
            code, out, err, exc = run_tool(c2n, ["csv2numbers", *extra, *map(str, order)])
            names = [p.name for p in order]
            ctx.count("oracle:errors")
            if exc is not None or code == 0 or len(err.splitlines()) != 1:
                ctx.oracle_fail("error-not-reported", {"files": names, "flags": extra},
                                f"csv2numbers {' '.join(extra + names)}: exit {code}, {len(err.splitlines())} line(s) on stderr, escaped {type(exc).__name__ if exc else None}")
    if exe:
        ctx.compare("main-errors", cases, reqs, outs, exe, nontrivial=lambda c, o: o == "reported")


def run(ctx: Ctx) -> int:
    common.standard_trusted_base(ctx, [
        "Section variables of Model/Csv.v: pyfloat = Python's float(str) (None = ValueError), sig15 = sigfig.round(x, sigfigs=15), "
        "stored = the NumberCell value after Document.save/Document(path) (C01's subject), frepr = repr(float) as csv.writer prints it; "
        "hypotheses of number_equal: repr_roundtrip (float(repr(x)) = x), sig15_id and stored_exact on values of at most 15 significant digits",
        "in the correspondence runs the model's pyfloat is a per-line table computed by Python's float() (finite / inf / nan / ValueError) "
        "carrying repr(x + 0.0) as the expected exported text",
        "CPython's csv module: the model carries its own excel-dialect writer and reader (csv_quote_roundtrip is proved of those); they are tied to "
        "CPython's by the csv-writer / csv-reader streams; CPython's own round trip is checked on every generated row list",
        "str.isspace()/regex \\s: modelled as a code point set, compared on all 1 114 112 code points every run",
        "document construction, storage and reading of cells (Table.write, save, Document(path)) are C01/C03's subject; here they are exercised, not modelled",
    ])
    ctx.assumptions += [
        "input files are well-formed UTF-8 CSV (readable, decodable); rectangular grids of 1..40 x 1..12 cells; no --date/--transform/--rename/--delete options",
        "numeric spellings with more than 15 significant digits are only required to convert without failure",
        "with --whitespace a header cell may come back raw (as the code does) or normalised",
        "an empty input file is outside the quantifier (the model shows StopIteration / IndexError escaping there)",
    ]
    ctx.extra["rule"] = ("grid streams: one evaluation per grid per stream (cells / main / text); non-trivial = the conversion succeeded and a table came back; "
                         "pure streams: one evaluation per string / row list / 16384-code-point block; distinct by (stream, case)")
    cr = common.coq_check_props("C20", clean=not ctx.quick)
    ctx.coq = cr
    ctx.theorems = cr.theorems
    if not cr.ok:
        ctx.obligation_errors += cr.errors
    if not ctx.quick:
        ctx.extra["coqchk"] = common.coqchk("C20")
        if ctx.extra["coqchk"]["exit"] != 0:
            ctx.obligation_errors.append("coqchk failed: " + ctx.extra["coqchk"]["tail"])
    try:
        exe = common.build_model(ENTRY)
    except RuntimeError as e:
        ctx.obligation_errors.append(str(e))
        exe = None
    if exe:
        pure_streams(ctx, exe)
    rng = ctx.rng
    grids = scripted_grids() + [gen_grid(rng, small=True) for _ in range(60 if ctx.quick else 600)] + \
        [gen_grid(rng) for _ in range(60 if ctx.quick else 900)]
    grid_stream(ctx, exe, grids)
    error_stream(ctx, exe)
    return common.finish(ctx, search)


def search(ctx: Ctx, broken) -> list:
    found = []
    cands = [case for stream, case, m, i in ctx.disagreements if isinstance(case, dict) and "rows" in case and "flags" in case]
    rng = ctx.rng
    cands += scripted_grids() + [gen_grid(rng, small=True) for _ in range(120)]
    for case in cands:
        try:
            obs = convert_and_export(ctx.tmp, case)
            fails = oracle(case, obs)
        except Exception as e:  # noqa: BLE001
            fails = [("driver-crash", f"{type(e).__name__}: {e}")]
        for sig, detail in fails:
            found.append((sig, case, detail))
        if len(found) > 30:
            break
    return found


def replay(path: str) -> int:
    import tempfile
    d = json.loads(open(path).read())
    if d.get("kind") == "failing-input":
        case = d["case"]
        with tempfile.TemporaryDirectory(prefix="verif_C20_replay_") as t:
            if "rows" in case and "flags" in case:
                obs = convert_and_export(Path(t), case)
                fails = oracle(case, obs)
            elif "file" in case:
                c2n, _ = tools()
                src = Path(t) / ("missing.csv" if case["file"] is None else "bad.csv")
                if case["file"] is not None:
                    with open(src, "w", encoding="utf-8", newline="") as f:
                        f.write(case["file"])
                code, out, err, exc = run_tool(c2n, ["csv2numbers", str(src), "-o", str(Path(t) / "o.numbers")])
                line = impl_main_line({"code": code, "stderr": err, "exc": exc})
                fails = [] if line == "reported" else [("error-not-reported", line)]
            elif "files" in case:
                c2n, _ = tools()
                texts = {"good.csv": "a,b\r\n1,2\r\n", "bad2.csv": 'x,y\r\n"unterminated'}
                for nm, tx in texts.items():
                    with open(Path(t) / nm, "w", encoding="utf-8", newline="") as f:
                        f.write(tx)
                code, out, err, exc = run_tool(c2n, ["csv2numbers", *case.get("flags", []), *[str(Path(t) / n) for n in case["files"]]])
                bad = exc is not None or code == 0 or len(err.splitlines()) != 1
                fails = [("error-not-reported", f"exit {code}, {len(err.splitlines())} stderr line(s)")] if bad else []
            else:
                fails = []
        known_open = {k["signature"] for k in common.load_known() if k["property"] == d.get("property") and k.get("status") == "open"}
        fails = [f for f in fails if f[0] == d.get("signature")] or [f for f in fails if f[0] not in known_open]
        if fails:
            print(f"replay: still failing: [{fails[0][0]}] {fails[0][1]}")
            print(f"VIOLATION property=C20 replay={path}")
            return 1
        print("replay: case passes on the current tree")
        return 0
    print("replay: no failing input was recorded; broken obligations/correspondences were:")
    print(json.dumps(d.get("broken"), indent=1)[:4000])
    return 1
