"""./check dispatcher."""
import argparse
import importlib
import os
import subprocess
import sys
import time
import traceback

from . import common


def setup():
    t0 = time.time()
    from tools import translate
    translate.main()
    import json
    ready = json.loads((common.VERIF / "harness" / "registry.json").read_text()).get("_ready", [])
    # build everything, keep going past files that are still work in progress; the claimed properties must build
    ok, out = common.coq_make(["-k"], jobs=16, timeout=7000)
    missing = [p for p in ready if not (common.COQ / "Props" / f"{p}.vo").exists()]
    if missing:
        print(out[-6000:])
        print("SETUP FAILED: coq build of claimed properties", missing)
        return 1
    if not ok:
        print("setup: some unclaimed (work in progress) Coq files did not build; claimed properties are fine")
    for e in sorted(p.stem for p in (common.COQ / "Model").glob("*Entry.v")):
        try:
            common.build_model(e)
        except RuntimeError as ex:
            print(f"setup: model {e} not built: {str(ex)[:200]}")
    print(f"setup ok in {time.time() - t0:.0f}s")
    return 0


def main():
    ap = argparse.ArgumentParser()
    ap.add_argument("prop", nargs="?")
    ap.add_argument("--setup", action="store_true")
    ap.add_argument("--tier", default=os.environ.get("VERIF_TIER", "quick"), choices=["quick", "thorough"])
    ap.add_argument("--replay")
    a = ap.parse_args()
    if a.setup:
        sys.exit(setup())
    if not a.prop:
        ap.error("property id required")
    seed = int(os.environ.get("VERIF_SEED", "20261001"))
    mod = importlib.import_module(f"harness.{a.prop.lower()}")
    if a.replay:
        sys.exit(mod.replay(a.replay))
    ctx = common.Ctx(a.prop, a.tier, seed, mod.LEVEL)
    try:
        from tools import translate
        translate.main()
        rc = mod.run(ctx)
    except Exception as e:
        # the harness could not complete (typically: the implementation behaved in a way the driver did not
        # anticipate).  The property is then not shown to hold on this tree: report it as such, naming what stopped.
        tb = traceback.format_exc()
        traceback.print_exc()
        # first give the property's own witness search a chance: an implementation that makes the driver stumble
        # usually fails the implementation-only statement of the property on some concrete input as well
        try:
            ctx.obligation_errors.append(f"the correspondence/oracle run stopped with {type(e).__name__}: {e}\n{tb[-1500:]}")
            rc = common.finish(ctx, getattr(mod, "search", None))
            sys.exit(rc or 1)
        except SystemExit:
            raise
        except Exception:  # noqa: BLE001
            traceback.print_exc()
        ctx.cleanup()
        import hashlib, json
        rep = common.VERIF / "replays"
        rep.mkdir(exist_ok=True)
        path = rep / f"{a.prop}-unproved-{hashlib.sha1(tb.encode()).hexdigest()[:12]}.json"
        path.write_text(json.dumps({"property": a.prop, "kind": "no-failing-input-found",
                                    "broken": [{"kind": "harness-exception", "what": f"{type(e).__name__}: {e}", "traceback": tb[-3000:]}],
                                    "note": "the check's correspondence/oracle run did not complete; nothing was decided"}, indent=1))
        print(f"VIOLATION property={a.prop} replay={path} no-failing-input-found")
        sys.exit(1)
    sys.exit(rc)


if __name__ == "__main__":
    main()
