"""C04 - cell storage records decode to exactly what was encoded, field by field.

Theorems: coq/Props/C04.v.  Correspondence (cross-wise): records emitted by
Cell._to_buffer are decoded by the extracted model, records emitted by the
model (own encoder and the documented-layout reference encoder) are decoded by
Cell._from_storage.  Oracle (implementation only): decode(encode(c)) == c and
decode(python_ref_encode(S, v)) == v restricted to the interpreted fields."""
from __future__ import annotations

import itertools
import json
import struct
from datetime import datetime, timedelta

from . import common
from .common import Ctx

LEVEL = "proof"
ENTRY = "C04Entry"

# documented layout: (bit, width, attribute or None when not interpreted)
DOC = [(0, 16, "_d128"), (1, 8, "_double"), (2, 8, "_seconds"), (3, 4, "_string_id"), (4, 4, "_rich_id"),
       (5, 4, "_cell_style_id"), (6, 4, "_text_style_id"), (7, 4, None), (8, 4, None), (9, 4, "_formula_id"),
       (10, 4, "_control_id"), (11, 4, None), (12, 4, "_suggest_id"), (13, 4, "_num_format_id"),
       (14, 4, "_currency_format_id"), (15, 4, "_date_format_id"), (16, 4, "_duration_format_id"),
       (17, 4, "_text_format_id"), (18, 4, "_bool_format_id"), (19, 4, None), (20, 4, None)]
ID_ATTRS = ["_rich_id", "_cell_style_id", "_text_style_id", "_formula_id", "_control_id", "_suggest_id",
            "_num_format_id", "_currency_format_id", "_date_format_id", "_duration_format_id",
            "_text_format_id", "_bool_format_id"]
ID_SLOT = {a: i for i, (_, _, a) in enumerate(DOC) if a}
KINDS = ["number", "currency", "text", "date", "bool", "duration", "empty", "richtext"]
KIND_TYPE = {"number": 2, "currency": 10, "text": 3, "date": 5, "bool": 6, "duration": 7, "empty": 0, "richtext": 9}
KIND_SLOT = {"number": 0, "currency": 0, "text": 3, "date": 2, "bool": 1, "duration": 1}
STRING_KEY = 0x0A0B0C0D


class Merge:
    def get(self, _):
        return None


class StubModel:
    def table_string(self, table_id, key):
        return f"s{key}"

    def table_string_key(self, table_id, value):
        return STRING_KEY

    def table_rich_text(self, table_id, key):
        return {"text": f"r{key}", "bullets": [], "hyperlinks": [], "bulleted": False, "bullet_chars": []}

    def merge_cells(self, table_id):
        return Merge()

    def table_name(self, table_id):
        return "T"


STUB = StubModel()


def impl_decode(buf: bytes):
    """Cell._from_storage -> canonical dict of what was read, or '!Exc'."""
    from numbers_parser.cell import Cell
    try:
        c = Cell._from_storage(1, 0, 0, bytearray(buf), STUB)
    except Exception as e:  # noqa: BLE001
        return "!" + type(e).__name__
    out = {"type": buf[1], "extras": c._extras, "flags": c._flags}
    for _, _, a in DOC:
        if a:
            out[a] = getattr(c, a, None)
    return out


def model_decode_view(line: str, unpack_d128):
    """Model's `dec` output line -> same canonical dict."""
    if line.startswith("!"):
        return {"CRASH:index": "!IndexError", "CRASH:struct": "!error"}.get(line[1:], line)
    t, ex, fl, vs = line.split("\t")
    vals = vs.split(",")
    out = {"type": int(t), "extras": int(ex), "flags": int(fl)}
    for i, (_, w, a) in enumerate(DOC[:19]):
        if not a:
            continue
        v = vals[i]
        if v == "-":
            out[a] = None
        else:
            b = bytes.fromhex(v)
            if w == 16:
                out[a] = unpack_d128(bytearray(b))
            elif w == 8:
                out[a] = struct.unpack("<d", b)[0]
            else:
                out[a] = struct.unpack("<i", b)[0]
    return out


def canon(d):
    if isinstance(d, str):
        return d
    return json.dumps({k: (v.hex() if isinstance(v, float) else v) for k, v in d.items()}, sort_keys=True)


def make_cell(kind: str, ids: dict, sid_set: bool):
    """A Cell object of the given kind carrying the given reference ids; returns (cell, payload bytes)."""
    from numbers_parser import cell as C
    from numbers_parser.constants import EPOCH, CellType
    if kind == "number":
        c = C.NumberCell(0, 0, 1234.5)
        payload = bytes(C._pack_decimal128(1234.5))
    elif kind == "currency":
        c = C.NumberCell(0, 0, 99.25, cell_type=CellType.CURRENCY)
        payload = bytes(C._pack_decimal128(99.25))
    elif kind == "text":
        c = C.TextCell(0, 0, "hello")
        payload = struct.pack("<i", STRING_KEY)
    elif kind == "date":
        v = datetime(2024, 2, 29, 13, 14, 15)
        c = C.DateCell(0, 0, v)
        payload = struct.pack("<d", float((v - EPOCH).total_seconds()))
    elif kind == "bool":
        c = C.BoolCell(0, 0, True)
        payload = struct.pack("<d", 1.0)
    elif kind == "duration":
        v = timedelta(days=3, seconds=7, microseconds=250000)
        c = C.DurationCell(0, 0, v)
        payload = struct.pack("<d", float(v.total_seconds()))
    elif kind == "empty":
        c = C.EmptyCell(0, 0)
        payload = b""
    else:
        c = C.RichTextCell(0, 0, STUB.table_rich_text(1, 1))
        payload = b""
    c._model = STUB
    c._table_id = 1
    for a in ID_ATTRS:
        setattr(c, a, ids.get(a))
    c._string_id = 77 if sid_set else None
    return c, payload


def expected_view(kind, payload, ids, unpack_d128):
    out = {}
    for i, (_, w, a) in enumerate(DOC[:19]):
        if a:
            out[a] = None
    if kind in KIND_SLOT:
        _, w, a = DOC[KIND_SLOT[kind]]
        out[a] = unpack_d128(bytearray(payload)) if w == 16 else struct.unpack("<d" if w == 8 else "<i", payload)[0]
    for a in ID_ATTRS:
        out[a] = ids.get(a)
    return out


def enc_request(kind, payload, ids, sid_set):
    return "\t".join(["enc", str(KINDS.index(kind)), payload.hex(), "1" if sid_set else "0"]
                     + [("-" if ids.get(a) is None else str(ids[a])) for a in ID_ATTRS])


def py_ref_encode(t, extras, vals):
    """Independent encoder written from the documented layout (harness-side, not the model)."""
    flags = 0
    body = b""
    for (bit, w, _), v in zip(DOC, vals):
        if v is not None:
            assert len(v) == w
            flags |= 1 << bit
            body += v
    return bytes([5, t, 0, 0, 0, 0, extras, 0]) + struct.pack("<I", flags) + body


def ref_values(rng, subset, sane=True):
    """Values for the fields in `subset` (bit indices): distinct sentinel ids, sane payloads."""
    from numbers_parser.cell import _pack_decimal128
    vals = []
    for bit, w, a in DOC:
        if bit not in subset:
            vals.append(None)
        elif w == 16:
            vals.append(bytes(_pack_decimal128(rng.choice([1.0, 12.0, 0.5, 1234.5, -7.25, 1e10, 3.0]))))
        elif w == 8:
            vals.append(struct.pack("<d", rng.choice([0.0, 1.0, 86400.0, 123456.5, -3600.0, 7e8])))
        else:
            vals.append(struct.pack("<i", rng.choice([1, -1, 2**31 - 1, -2**31]) if rng.random() < 0.05
                                    else (0x01010101 * (bit + 1) + rng.randrange(1 << 16)) & 0x7FFFFFFF))
    return vals


def ref_type_for(rng, subset, mismatch=False):
    ok = [0, 2, 3, 8, 9, 10] + ([5] if 2 in subset else []) + ([6, 7] if 1 in subset else [])
    if mismatch:
        return rng.choice([5, 6, 7, 1, 4, 11, 255])
    return rng.choice(ok)


# ---------------------------------------------------------------- oracle (implementation only)
def oracle_encode_case(kind, ids, sid_set):
    from numbers_parser.cell import _unpack_decimal128
    c, payload = make_cell(kind, ids, sid_set)
    try:
        buf = c._to_buffer()
    except Exception as e:  # noqa: BLE001
        return ("encode-raises", f"_to_buffer raised {type(e).__name__}: {e}")
    if buf is None:
        # no record at all for a cell of a writable kind: everything the cell carried is lost
        return ("encode-produces-no-record", f"_to_buffer returned None for a cell of kind {kind} carrying {sorted(ids)}")
    got = impl_decode(bytes(buf))
    if isinstance(got, str):
        return ("decode-raises", f"_from_storage(_to_buffer(c)) raised {got}")
    exp = expected_view(kind, payload, ids, _unpack_decimal128)
    if got["type"] != KIND_TYPE[kind]:
        return ("kind-changed", f"type {got['type']} != {KIND_TYPE[kind]}")
    bad = [a for a in exp if a != "_string_id" and got.get(a) != exp[a]]
    if kind == "text" and got.get("_string_id") != STRING_KEY:
        bad.append("_string_id")
    if bad:
        kindsig = "richtext" if kind == "richtext" else "other"
        return (f"encode-decode-mismatch:{kindsig}", f"kind={kind} ids={ids}: attributes {bad} read back as "
                f"{ {a: got.get(a) for a in bad} } expected { {a: exp[a] for a in bad} }")
    if len(buf) % 4 != 0:
        return ("alignment", f"record length {len(buf)}")
    return None


def oracle_reencode_case(kind, ids1, ids2):
    """The same cell object encoded twice with its reference ids changed in between: the second record must carry
    the second set of ids (a record is a function of the cell's current attributes, not of an earlier encoding)."""
    from numbers_parser.cell import _unpack_decimal128
    c, payload = make_cell(kind, ids1, False)
    try:
        c._to_buffer()
        for a in ID_ATTRS:
            setattr(c, a, ids2.get(a))
        buf = c._to_buffer()
    except Exception as e:  # noqa: BLE001
        return ("encode-raises", f"_to_buffer raised {type(e).__name__}: {e}")
    if buf is None:
        # no record at all for a cell of a writable kind: everything the cell carried is lost
        return ("encode-produces-no-record", f"_to_buffer returned None for a cell of kind {kind} carrying {sorted(ids)}")
    got = impl_decode(bytes(buf))
    if isinstance(got, str):
        return ("decode-raises", f"_from_storage(_to_buffer(c)) raised {got}")
    bad = [a for a in ID_ATTRS if got.get(a) != ids2.get(a)]
    if bad:
        return ("re-encode-stale", f"kind={kind}: ids {ids1} then {ids2}: second record reads back { {a: got.get(a) for a in bad} }")
    return None


def oracle_decode_case(t, extras, vals):
    from numbers_parser.cell import _unpack_decimal128
    buf = py_ref_encode(t, extras, vals)
    got = impl_decode(buf)
    if isinstance(got, str):
        return ("decode-raises", f"_from_storage(ref_encode) raised {got}")
    bad = []
    for (bit, w, a), v in zip(DOC[:19], vals):
        if not a:
            continue
        if v is None:
            e = None
        elif w == 16:
            e = _unpack_decimal128(bytearray(v))
        elif w == 8:
            e = struct.unpack("<d", v)[0]
        else:
            e = struct.unpack("<i", v)[0]
        if got.get(a) != e:
            bad.append((a, got.get(a), e))
    if bad:
        present = sorted(b for (b, _, _), v in zip(DOC, vals) if v is not None)
        unint = [b for b in present if DOC[b][2] is None and b < 19]
        return ("uninterpreted-field-shifts" if unint else "decode-mismatch",
                f"flags bits {present}: {bad[:3]}")
    return None


# ---------------------------------------------------------------- streams
def encode_cases(ctx: Ctx):
    rng = ctx.rng
    cases = []
    for kind in KINDS:
        for mask in range(1 << 12):
            ids = {}
            for i, a in enumerate(ID_ATTRS):
                if mask >> i & 1:
                    ids[a] = 1000 * (i + 1) + (mask % 997)
            if kind == "richtext":
                if not (mask & 1):
                    continue
            cases.append((kind, ids, bool(mask & 0x800) ^ bool(mask & 1)))
    # extreme ids
    for kind in KINDS:
        for _ in range(40):
            ids = {a: rng.choice([0, 1, -1, 2**31 - 1, -2**31, rng.randrange(-2**31, 2**31)])
                   for a in ID_ATTRS if rng.random() < 0.5}
            if kind == "richtext":
                ids["_rich_id"] = rng.randrange(1, 10**6)
            cases.append((kind, ids, rng.random() < 0.5))
    return cases


def decode_cases(ctx: Ctx):
    rng = ctx.rng
    subsets = []
    bits = list(range(21))
    if ctx.quick:
        for k in (0, 1, 2, 3):
            subsets += [frozenset(s) for s in itertools.combinations(bits, k)]
        for k in (19, 20, 21):
            subsets += [frozenset(s) for s in itertools.combinations(bits, k)]
        for _ in range(20000):
            subsets.append(frozenset(b for b in bits if rng.random() < rng.choice([0.2, 0.5, 0.8])))
    else:
        subsets = [frozenset(b for b in bits if m >> b & 1) for m in range(1 << 21)]
    cases = []
    for s in subsets:
        mismatch = rng.random() < 0.03
        t = ref_type_for(rng, s, mismatch)
        cases.append((t, rng.choice([0, 1, 0x80, 0xAB, 255]), ref_values(rng, s)))
    return cases


def malformed_records(ctx: Ctx):
    rng = ctx.rng
    base = py_ref_encode(2, 0, ref_values(rng, frozenset([0, 5, 9, 13])))
    out = [b"", b"\x05", b"\x04" + base[1:], base[:3], base[:11], base[:12], base[:13], base[:27], base[:28],
           base[:-1], base[:-4], bytes([5, 99]) + base[2:], bytes([5, 1]) + base[2:]]
    for _ in range(300 if ctx.quick else 3000):
        b = py_ref_encode(ref_type_for(rng, frozenset(range(21))), 0,
                          ref_values(rng, frozenset(x for x in range(21) if rng.random() < 0.5)))
        out.append(b[:rng.randrange(len(b) + 1)])
    return out


def run(ctx: Ctx) -> int:
    from numbers_parser.cell import _unpack_decimal128
    common.standard_trusted_base(ctx, [
        "tools/gen_c04.py: reads the flag chains of Cell._from_storage / Cell._to_buffer from the Python AST (fail closed)",
        "struct '<i' '<d' '<I' packing and _pack/_unpack_decimal128 are used by the harness to build payloads and to interpret the model's raw field bytes (their own correctness is C01's subject)",
        "stub model object standing in for _NumbersModel (table_string, table_string_key, table_rich_text, merge_cells)",
    ])
    ctx.assumptions += ["reference ids fit a signed 32-bit integer (struct '<i'); payload values are sane floats (no NaN payload bits compared)"]
    ctx.extra["rule"] = ("encode: 8 encodable kinds x all 2^12 subsets of optional reference ids with distinct sentinel ids (exhaustive; "
                         "rich-text cells always carry their rich id) + extreme ids; decode: records from the documented-layout reference "
                         "encoder over subsets of the 21 flag bits (quick: all subsets of weight <=3 and >=19 + 20000 random; thorough: all 2^21) "
                         "with sentinel values; truncated/malformed records. non-trivial = decoding succeeded; distinct by (stream, case)")
    ctx.extra["exhaustive"] = True
    cr = common.coq_check_props("C04", clean=not ctx.quick)
    ctx.coq, ctx.theorems = cr, cr.theorems
    if not cr.ok:
        ctx.obligation_errors += cr.errors
    if not ctx.quick:
        ctx.extra["coqchk"] = common.coqchk("C04")
        if ctx.extra["coqchk"]["exit"] != 0:
            ctx.obligation_errors.append("coqchk failed: " + ctx.extra["coqchk"]["tail"])
    try:
        exe = common.build_model(ENTRY)
    except RuntimeError as e:
        ctx.obligation_errors.append(str(e))
        exe = None

    enc = encode_cases(ctx)
    dec = decode_cases(ctx)
    mal = malformed_records(ctx)
    ctx.dist("encode_cases", len(enc))
    ctx.dist("decode_cases", len(dec))
    ctx.dist("malformed_records", len(mal))
    for kind in KINDS:
        ctx.dist("kind:" + kind, sum(1 for c in enc if c[0] == kind))

    if exe:
        # (1) impl-encoded records decoded by the model; model-encoded records decoded by the impl
        impl_bufs, reqs, exps = [], [], []
        for kind, ids, sid in enc:
            c, payload = make_cell(kind, ids, sid)
            try:
                impl_bufs.append(bytes(c._to_buffer() or b''))
            except Exception as e:  # noqa: BLE001
                impl_bufs.append(None)
                ctx.disagree("impl-encode", (kind, ids, sid), "bytes", "!" + type(e).__name__)
            reqs.append(enc_request(kind, payload, ids, sid))
            e = expected_view(kind, payload, ids, _unpack_decimal128)
            if kind == "text":
                e["_string_id"] = STRING_KEY
            exps.append(e)
        model_bufs = common.run_model(exe, reqs)
        dreq = ["dec\t" + (b.hex() if b is not None else "") for b in impl_bufs]
        mdec = common.run_model(exe, dreq)
        for case, mline, mb, ib, exp in zip(enc, mdec, model_bufs, impl_bufs, exps):
            ctx.count("impl-encode/model-decode")
            if ib is None:
                continue
            mv = model_decode_view(mline, _unpack_decimal128)
            full = dict(exp, type=KIND_TYPE[case[0]])
            got = {k: mv.get(k) for k in full} if isinstance(mv, dict) else mv
            ctx.nontrivial(("e", str(case)))
            if canon(got) != canon(full):
                ctx.disagree("impl-encode/model-decode", case, canon(full), canon(got))
            # model-encoded record decoded by the implementation
            ctx.count("model-encode/impl-decode")
            iv = impl_decode(bytes.fromhex(mb))
            got2 = {k: iv.get(k) for k in full} if isinstance(iv, dict) else iv
            if canon(got2) != canon(full):
                ctx.disagree("model-encode/impl-decode", case, canon(full), canon(got2))
            if len(ib) != len(bytes.fromhex(mb)):
                ctx.disagree("record-length", case, len(bytes.fromhex(mb)), len(ib))
        ctx.sample({"stream": "encode", "case": str(enc[len(enc) // 3]), "impl_record": impl_bufs[len(enc) // 3].hex() if impl_bufs[len(enc) // 3] else None,
                    "model_record": model_bufs[len(enc) // 3]})
        # (2) reference-encoded records (model's ref_encode) decoded by model and by impl
        rreqs = ["\t".join(["ref", str(t), str(ex)] + [("-" if v is None else v.hex()) for v in vals]) for t, ex, vals in dec]
        rbufs = common.run_model(exe, rreqs)
        pyb = [py_ref_encode(t, ex, vals) for t, ex, vals in dec]
        for case, rb, pb in zip(dec, rbufs, pyb):
            ctx.count("ref-encoders-agree")
            if rb != pb.hex():
                ctx.disagree("ref-encoders-agree", str(case)[:200], rb, pb.hex())
        bufs = pyb + mal
        mdec = common.run_model(exe, ["dec\t" + b.hex() for b in bufs])
        for b, mline in zip(bufs, mdec):
            ctx.count("decode")
            mv = model_decode_view(mline, _unpack_decimal128)
            iv = impl_decode(b)
            if not isinstance(iv, str):
                ctx.nontrivial(("d", b))
            if canon(mv) != canon(iv):
                ctx.disagree("decode", b.hex(), canon(mv), canon(iv))
        ctx.sample({"stream": "decode", "record": pyb[len(pyb) // 2].hex(), "model": mdec[len(pyb) // 2]})

    # (3) implementation-only oracles
    for kind, ids, sid in enc:
        ctx.count("oracle-encode")
        r = oracle_encode_case(kind, ids, sid)
        if r:
            ctx.oracle_fail(r[0], {"op": "encode", "kind": kind, "ids": ids, "sid": sid}, r[1])
    for k in range(400 if ctx.quick else 4000):
        kind = KINDS[k % len(KINDS)]
        ids1 = {a: 100 + i for i, a in enumerate(ID_ATTRS) if ctx.rng.random() < 0.5}
        ids2 = {a: 900 + i for i, a in enumerate(ID_ATTRS) if ctx.rng.random() < 0.5}
        if kind == "richtext":
            ids1["_rich_id"], ids2["_rich_id"] = 7, 8
        ctx.count("oracle-re-encode")
        r = oracle_reencode_case(kind, ids1, ids2)
        if r:
            ctx.oracle_fail(r[0], {"op": "reencode", "kind": kind, "ids1": ids1, "ids2": ids2}, r[1])
    for t, ex, vals in dec:
        if t in (5, 6, 7, 1, 4, 11, 255):
            continue  # kind/payload mismatches are covered by the correspondence stream only
        ctx.count("oracle-decode")
        r = oracle_decode_case(t, ex, vals)
        if r:
            ctx.oracle_fail(r[0], {"op": "decode", "type": t, "extras": ex,
                                   "vals": [None if v is None else v.hex() for v in vals]}, r[1])
    return common.finish(ctx, search)


def search(ctx: Ctx, broken) -> list:
    """The oracles already ran over the exhaustive streams; a dense extra stream for the decoder."""
    found = []
    rng = ctx.rng
    for _ in range(200000):
        s = frozenset(b for b in range(21) if rng.random() < 0.5)
        t = ref_type_for(rng, s)
        vals = ref_values(rng, s)
        r = oracle_decode_case(t, 0, vals)
        if r:
            found.append((r[0], {"op": "decode", "type": t, "extras": 0,
                                 "vals": [None if v is None else v.hex() for v in vals]}, r[1]))
            if len(found) > 5:
                break
    return found


def replay(path: str) -> int:
    d = json.loads(open(path).read())
    if d.get("kind") == "failing-input":
        case = d["case"]
        if case["op"] == "reencode":
            r = oracle_reencode_case(case["kind"], case["ids1"], case["ids2"])
        elif case["op"] == "encode":
            r = oracle_encode_case(case["kind"], case["ids"], case["sid"])
        else:
            r = oracle_decode_case(case["type"], case["extras"], [None if v is None else bytes.fromhex(v) for v in case["vals"]])
        if r:
            print(f"replay: still failing: {r[1]}")
            print(f"VIOLATION property=C04 replay={path}")
            return 1
        print("replay: case passes on the current tree")
        return 0
    print("replay: no failing input was recorded; broken obligations/correspondences were:")
    print(json.dumps(d.get("broken"), indent=1)[:4000])
    return 1
