"""C19 - Sheet and table collections: unique names, consistent lookup, stable order.

Theorems: coq/Props/C19.v over coq/Model/Names.v (ItemsList, Document.add_sheet,
Sheet.add_table/_add_table, name setters).  Correspondence: lock-step histories of
add_sheet/add_table/renames/lookups, run (a) through the real Document/Sheet/ItemsList
code over a stub of _NumbersModel that only keeps ids and names (dense, fast) and
(b) on real Document() objects followed by save/reopen, against the extracted model.
Oracle: the property stated directly on the implementation's observable behaviour."""
from __future__ import annotations

import json
import re
import warnings

from . import common
from .common import Ctx, cps

LEVEL = "proof"
ENTRY = "C19Entry"
ITER_CAP = 400


# ---------------------------------------------------------------- implementation drivers
class FakeModel:
    """Stands in for _NumbersModel under Document.add_sheet / Sheet._add_table / ItemsList:
    keeps ids, names and the parent of each table; tables have no rows."""

    class _NameRefCache:
        """The real model keeps a cache of name scopes that renames mark dirty; the stand-in has nothing to refresh."""

        def mark_dirty(self):
            pass

        def refresh(self):
            pass

    def __init__(self, sheets):
        self.name_ref_cache = FakeModel._NameRefCache()
        self._next = 1000
        self._sheet_order = []
        self._sheet_names = {}
        self._table_names = {}
        self._table_parent = {}
        self._table_order = []
        for sname, tnames in sheets:
            sid = self.add_sheet(sname)
            for t in tnames:
                self.add_table(sid, t, None, 0, 0, 0, 0)

    def _new(self):
        self._next += 1
        return self._next

    def sheet_ids(self):
        return list(self._sheet_order)

    def table_ids(self, sheet_id=None):
        return [t for t in self._table_order if sheet_id is None or self._table_parent[t] == sheet_id]

    def sheet_name(self, sheet_id, value=None):
        if value is None:
            return self._sheet_names.get(sheet_id)
        self._sheet_names[sheet_id] = value
        return None

    def table_name(self, table_id, value=None):
        if value is None:
            return self._table_names[table_id]
        self._table_names[table_id] = value
        return None

    def add_sheet(self, sheet_name):
        sid = self._new()
        self._sheet_order.append(sid)
        self._sheet_names[sid] = sheet_name
        return sid

    def add_table(self, sheet_id, table_name, from_table_id, *a, **k):
        tid = self._new()
        self._table_order.append(tid)
        self._table_names[tid] = table_name
        self._table_parent[tid] = sheet_id
        return tid

    def number_of_rows(self, table_id, n=None):
        return 0

    def number_of_columns(self, table_id, n=None):
        return 0

    def set_table_data(self, table_id, data):
        pass

    def merge_cells(self, table_id):
        return None


def make_doc(kind: str, init):
    from numbers_parser import Document
    from numbers_parser.containers import ItemsList
    from numbers_parser.document import Sheet
    if kind == "stub":
        fake = FakeModel(init)
        d = Document.__new__(Document)
        d._model = fake
        d._sheets = ItemsList(fake, fake.sheet_ids(), Sheet)
        return d
    (sname, tnames), = init
    return Document(sheet_name=sname, table_name=tnames[0], num_rows=2, num_cols=2)


def iterate(coll):
    out = []
    for i, x in enumerate(coll):
        if i >= ITER_CAP:
            raise RuntimeError("iteration does not terminate")
        out.append(x)
    return out


def snapshot(d):
    return [(s, s.name, [(t, t.name) for t in iterate(s.tables)]) for s in iterate(d.sheets)]


def dump_names(snap) -> str:
    return "/".join("=" + cps(sn) + ":" + ";".join("=" + cps(tn) for _, tn in ts) for _, sn, ts in snap)


def names_only(snap):
    return [[sn, [tn for _, tn in ts]] for _, sn, ts in snap]


def same_items(a, b) -> bool:
    """identical objects, names and order"""
    return len(a) == len(b) and all(x[0] is y[0] and x[1] == y[1] for x, y in zip(a, b))


def same_sheet(a, b) -> bool:
    return a[0] is b[0] and a[1] == b[1] and same_items(a[2], b[2])


def ci_in(name: str, names) -> bool:
    return any(name.lower() == n.lower() for n in names)


def ci_pairs(names) -> int:
    low = [n.lower() for n in names]
    return sum(1 for i in range(len(low)) for j in range(i) if low[i] == low[j])


def first_free(prefix: str, names) -> str:
    j = 1
    while ci_in(f"{prefix} {j}", names):
        j += 1
    return f"{prefix} {j}"


def exn(e: BaseException) -> str:
    return "!" + type(e).__name__


def check_add(fails, what, prefix, before, after, err, name, extra=None):
    """Property clauses for one add step on one collection.
    before/after: [(obj, name, ...)] of the collection; err: exception or None."""
    names = [x[1] for x in before]
    if name is not None and ci_in(name, names):
        if not isinstance(err, IndexError):
            fails.append(("duplicate-accepted", f"{what}({name!r}) over {names!r}: {('raised ' + type(err).__name__) if err else 'succeeded'}"))
        return "dup"
    if err is not None:
        fails.append(("add-raises", f"{what}({name!r}) over {names!r} raised {type(err).__name__}: {err}"))
        return "err"
    if len(after) != len(before) + 1 or not all(a[0] is b[0] and a[1] == b[1] for a, b in zip(after, before)):
        fails.append(("order-not-stable", f"{what}({name!r}): {names!r} -> {[x[1] for x in after]!r}"))
        return "ok"
    new = after[-1][1]
    if ci_in(new, names):
        fails.append(("ci-duplicate-created", f"{what}({name!r}) named the new item {new!r} beside {names!r}"))
    if name is not None and new != name:
        fails.append(("name-not-exact", f"{what}({name!r}) named the new item {new!r}"))
    if name is None and new != first_free(prefix, names):
        fails.append(("auto-name", f"{what}() chose {new!r} over {names!r}; next free is {first_free(prefix, names)!r}"))
    if ci_pairs([x[1] for x in after]) != ci_pairs(names):
        fails.append(("ci-duplicate-created", f"{what}({name!r}): {[x[1] for x in after]!r}"))
    return "ok"


def run_impl(case, tmp=None, collect_reopen=None):
    """Run one history on the implementation.  Returns (result strings in the model's
    format, oracle failures [(signature, detail)])."""
    kind, init, ops = case["kind"], case["init"], case["ops"]
    fails: list = []
    outs: list = []
    d = make_doc(kind, init)
    for op in ops:
        tag = op[0]
        before = snapshot(d)
        if tag in ("as", "at", "rs", "rt"):
            err = None
            sheet = None
            try:
                if tag == "as":
                    d.add_sheet(op[1], op[2], num_rows=2, num_cols=2) if kind == "real" else d.add_sheet(op[1], op[2])
                elif tag == "at":
                    sheet = d.sheets[op[1]]
                    (sheet.add_table(op[2], num_rows=2, num_cols=2) if kind == "real" else sheet.add_table(op[2]))
                elif tag == "rs":
                    d.sheets[op[1]].name = op[2]
                else:
                    d.sheets[op[1]].tables[op[2]].name = op[3]
            except Exception as e:  # noqa: BLE001
                err = e
            after = snapshot(d)
            outs.append(("ok" if err is None else exn(err)) + "#" + dump_names(after))
            # ---- oracle
            n = len(before)
            if err is not None and not (len(after) == n and all(same_sheet(a, b) for a, b in zip(after, before))):
                fails.append(("failed-op-changed-state", f"{op!r} raised {type(err).__name__} but {names_only(before)!r} -> {names_only(after)!r}"))
            if tag == "as":
                r = check_add(fails, "add_sheet", "Sheet", before, after, err, op[1])
                if r == "ok" and len(after) == n + 1:
                    if not all(same_sheet(a, b) for a, b in zip(after, before)):
                        fails.append(("order-not-stable", f"add_sheet({op[1]!r}) changed existing sheets"))
                    if [t for _, t in after[-1][2]] != [op[2]]:
                        fails.append(("new-sheet-tables", f"add_sheet(.., {op[2]!r}) made tables {[t for _, t in after[-1][2]]!r}"))
            elif tag == "at":
                si = op[1]
                if not -n <= si < n:
                    if not isinstance(err, IndexError):
                        fails.append(("index-out-of-range-accepted", f"sheets[{si}] with {n} sheets: {type(err).__name__ if err else 'no error'}"))
                else:
                    i = si % n
                    r = check_add(fails, "add_table", "Table", before[i][2], after[i][2] if len(after) == n else [], err, op[2])
                    if len(after) != n or not all(same_sheet(a, b) for k, (a, b) in enumerate(zip(after, before)) if k != i) \
                            or after[i][0] is not before[i][0] or after[i][1] != before[i][1]:
                        fails.append(("order-not-stable", f"add_table on sheet {i} changed other sheets"))
            else:
                si = op[1]
                m = len(before[si % n][2]) if -n <= si < n else 0
                if not -n <= si < n or (tag == "rt" and not -m <= op[2] < m):
                    if not isinstance(err, IndexError):
                        fails.append(("index-out-of-range-accepted", f"{op!r} over {names_only(before)!r}: {type(err).__name__ if err else 'no error'}"))
                elif err is not None:
                    fails.append(("index-raises", f"{op!r} over {names_only(before)!r} raised {type(err).__name__}"))
                else:
                    exp = names_only(before)
                    if tag == "rs":
                        exp[op[1]][0] = op[2]
                    else:
                        exp[op[1]][1][op[2]] = op[3]
                    if names_only(after) != exp or not all(a[0] is b[0] and same_items([(t, None) for t, _ in a[2]], [(t, None) for t, _ in b[2]]) for a, b in zip(after, before)):
                        fails.append(("rename", f"{op!r}: {names_only(before)!r} -> {names_only(after)!r}"))
            continue
        # ---- lookups
        try:
            if tag in ("gs", "ns", "cs"):
                coll, lst = d.sheets, [s for s, _, _ in before]
                arg = op[1]
            else:
                sheet = d.sheets[op[1]]
                coll, lst = sheet.tables, iterate(sheet.tables)
                arg = op[2]
        except Exception as e:  # noqa: BLE001
            outs.append(exn(e))
            n = len(before)
            if -n <= op[1] < n or not isinstance(e, IndexError):
                fails.append(("index-raises", f"sheets[{op[1]}] with {n} sheets raised {type(e).__name__}"))
            continue
        n = len(lst)
        if len(coll) != n:
            fails.append(("len", f"len() = {len(coll)} but iteration yields {n} items"))
        val = err = None
        try:
            if tag in ("gs", "gt", "ns", "nt"):
                val = coll[arg]
            else:
                val = arg in coll
        except Exception as e:  # noqa: BLE001
            err = e
        if err is not None:
            outs.append(exn(err))
        elif tag in ("cs", "ct"):
            outs.append("1" if val else "0")
        else:
            idx = next((i for i, x in enumerate(lst) if x is val), None)
            outs.append("?" if idx is None else f"{idx}={cps(val.name)}")
        names = [x.name for x in lst]
        if tag in ("gs", "gt"):
            if -n <= arg < n:
                if err is not None:
                    fails.append(("index-raises", f"[{arg}] over {n} items raised {type(err).__name__}"))
                elif val is not lst[arg]:
                    fails.append(("index-wrong-item", f"[{arg}] over {names!r} returned {getattr(val, 'name', val)!r}"))
            elif not isinstance(err, IndexError):
                fails.append(("index-out-of-range-accepted", f"[{arg}] over {n} items ({names!r}) " + (f"returned {val.name!r}" if err is None else f"raised {type(err).__name__}")))
        elif tag in ("ns", "nt"):
            exp = next((x for x in lst if x.name == arg), None)
            if exp is None:
                if not isinstance(err, KeyError):
                    fails.append(("name-lookup", f"[{arg!r}] over {names!r}: " + (f"returned {val.name!r}" if err is None else f"raised {type(err).__name__}")))
            elif err is not None or val is not exp or val.name != arg:
                fails.append(("name-lookup", f"[{arg!r}] over {names!r}: " + (f"returned {val.name!r}" if err is None else f"raised {type(err).__name__}")))
        else:
            if err is not None or bool(val) != ci_in(arg, names):
                fails.append(("contains", f"{arg!r} in {names!r} = {val!r}/{type(err).__name__ if err else ''}"))
    if kind == "real" and tmp is not None:
        final = snapshot(d)
        path = tmp / "c19.numbers"
        with warnings.catch_warnings():
            warnings.simplefilter("ignore")
            try:
                d.save(path)
                from numbers_parser import Document
                d2 = Document(path)
                re_snap = snapshot(d2)
            except Exception as e:  # noqa: BLE001
                fails.append(("save-reopen-raises", f"{type(e).__name__}: {e}"))
                re_snap = None
        if re_snap is not None:
            if names_only(re_snap) != names_only(final):
                fails.append(("reopen-names-order", f"{names_only(final)!r} -> {names_only(re_snap)!r}"))
            if collect_reopen is not None:
                collect_reopen.append((d2, names_only(re_snap)))
    return outs, fails


# ---------------------------------------------------------------- model requests
def all_names(case):
    out = set()
    for s, ts in case["init"]:
        out.add(s)
        out.update(ts)
    for op in case["ops"]:
        for x in op[1:]:
            if isinstance(x, str):
                out.add(x)
    return out


def name_field(s) -> str:
    return "-" if s is None else "=" + cps(s)


def request(case) -> str:
    low = ";".join(f"{cps(n)}={cps(n.lower())}" for n in sorted(all_names(case)) if not n.isascii())
    doc = "/".join("=" + cps(s) + ":" + ";".join("=" + cps(t) for t in ts) for s, ts in case["init"])
    cmds = []
    for op in case["ops"]:
        cmds.append(";".join([op[0]] + [name_field(x) if (x is None or isinstance(x, str)) else str(x) for x in op[1:]]))
    return "\t".join(["hist", low, doc] + cmds)


# ---------------------------------------------------------------- generators
FIXED_NAMES = [
    "Sheet 1", "Sheet 2", "Sheet 3", "Sheet 4", "sheet 2", "SHEET 3", "sHeEt 1", "Table 1", "Table 2", "Table 3", "Table 4",
    "Table 5", "table 2", "TABLE 3", "tAbLe 1", "Table 03", "Table  2", "Table 2 ", " Table 2", "Table ２", "Table 10",
    "Table", "Sheet", "table", "Table 0", "Table -1", "Table 1.0", "Sheet 2٠", "", " ", "  ", "a", "A", "ab", "AB", "Ab",
    "Übersicht", "ÜBERSICHT", "übersicht", "Straße", "STRASSE", "strasse", "İstanbul", "i̇stanbul",
    "istanbul", "ΣΑΣ", "σας", "σασ", "数据", "Données", "DONNÉES",
    "ǅ", "ǆ", "Ǆ", "ﬁ", "FI", "fi", "\U0001F4CA", "á", "á", "Á", "Ｔable 1", "K", "K", "k",
    "x\ty", "line\nbreak", "semi;colon", "a,b", "a=b", "a/b", "a:b", "a|b", "#", "-",
]


def variants(rng, s: str) -> str:
    return rng.choice([s.upper(), s.lower(), s.swapcase(), s.title(), s.capitalize(), s + " ", s])


class Shadow:
    """Generator-side bookkeeping only (which names probably exist); not an oracle."""

    def __init__(self, init):
        self.s = [[n, list(ts)] for n, ts in init]

    def add(self, coll, name, prefix):
        names = coll
        if name is None:
            names.append(first_free(prefix, names))
        elif not ci_in(name, names):
            names.append(name)


def pick_name(rng, existing, prefix):
    r = rng.random()
    if existing and r < 0.30:
        return variants(rng, rng.choice(existing))
    if r < 0.50:
        return f"{rng.choice([prefix, prefix.lower(), prefix.upper()])} {rng.randrange(1, len(existing) + 3)}"
    if r < 0.85:
        return rng.choice(FIXED_NAMES)
    return "".join(rng.choice("aAbB 1éÉ") for _ in range(rng.randrange(0, 4)))


def gen_history(rng, kind: str, nops: int, max_items: int):
    if kind == "stub":
        ns = rng.randrange(1, 4)
        init = [[pick_name(rng, [], "Sheet") if rng.random() < 0.5 else f"Sheet {i + 1}",
                 [pick_name(rng, [], "Table") if rng.random() < 0.4 else f"Table {j + 1}" for j in range(rng.randrange(1, 4))]]
                for i in range(ns)]
    else:
        init = [[rng.choice(["Sheet 1", "Sheet 1", "Sheet 2", "sheet 3", pick_name(rng, [], "Sheet")]),
                 [rng.choice(["Table 1", "Table 1", "Table 2", "TABLE 3", pick_name(rng, [], "Table")])]]]
    sh = Shadow(init)
    ops = []
    for _ in range(nops):
        n = len(sh.s)
        r = rng.random()
        si = rng.randrange(n)
        si_arg = si - n if rng.random() < 0.3 else si
        if r < 0.22:
            if n >= max_items:
                continue
            name = None if rng.random() < 0.4 else pick_name(rng, [x[0] for x in sh.s], "Sheet")
            tname = rng.choice(["Table 1", "Table 1", "Table 2", "table 1", pick_name(rng, [], "Table")])
            ops.append(["as", name, tname])
            before = len(sh.s)
            names = [x[0] for x in sh.s]
            sh.add(names, name, "Sheet")
            if len(names) > before:
                sh.s.append([names[-1], [tname]])
        elif r < 0.50:
            if len(sh.s[si][1]) >= max_items:
                continue
            name = None if rng.random() < 0.4 else pick_name(rng, sh.s[si][1], "Table")
            ops.append(["at", si_arg, name])
            sh.add(sh.s[si][1], name, "Table")
        elif r < 0.58:
            v = pick_name(rng, [x[0] for x in sh.s], "Sheet")
            ops.append(["rs", si_arg, v])
            sh.s[si][0] = v
        elif r < 0.68:
            ti = rng.randrange(len(sh.s[si][1]))
            v = pick_name(rng, sh.s[si][1], "Table")
            ops.append(["rt", si_arg, ti - len(sh.s[si][1]) if rng.random() < 0.3 else ti, v])
            sh.s[si][1][ti] = v
        elif r < 0.76:
            ops.append(["gs", rng.randrange(-2 * n - 1, 2 * n + 2)])
        elif r < 0.84:
            m = len(sh.s[si][1])
            ops.append(["gt", si_arg, rng.randrange(-2 * m - 1, 2 * m + 2)])
        elif r < 0.88:
            ops.append(["ns", pick_name(rng, [x[0] for x in sh.s], "Sheet") if rng.random() < 0.4 else rng.choice(sh.s)[0]])
        elif r < 0.92:
            ops.append(["nt", si_arg, pick_name(rng, sh.s[si][1], "Table") if rng.random() < 0.4 else rng.choice(sh.s[si][1])])
        elif r < 0.96:
            ops.append(["cs", pick_name(rng, [x[0] for x in sh.s], "Sheet")])
        else:
            ops.append(["ct", si_arg, pick_name(rng, sh.s[si][1], "Table")])
    # closing sweep: every index in [-2n-1, 2n+1] on the sheets and on one sheet's tables, every name
    n = len(sh.s)
    ops += [["gs", k] for k in range(-2 * n - 1, 2 * n + 2)]
    si = rng.randrange(n)
    m = len(sh.s[si][1])
    ops += [["gt", si, k] for k in range(-2 * m - 1, 2 * m + 2)]
    ops += [["ns", x[0]] for x in sh.s] + [["nt", si, t] for t in sh.s[si][1]]
    ops += [["gt", k, 0] for k in (-n - 1, -n, n - 1, n)]
    return {"kind": kind, "init": init, "ops": ops}


def scripted_histories(kind: str):
    """The situations named by the property, spelled out."""
    one = [["Sheet 1", ["Table 1"]]]
    hs = [
        [["at", 0, None], ["at", 0, "Table 3"], ["at", 0, None], ["at", 0, None], ["at", 0, "table 2"], ["at", 0, "TABLE 5"]],
        [["as", None, "Table 1"], ["as", "Sheet 3", "Table 1"], ["as", None, "Table 1"], ["as", "SHEET 2", "x"], ["as", "sheet 4", "x"], ["as", None, "y"]],
        [["at", 0, "table 2"], ["at", 0, None], ["rt", 0, 0, "Table 4"], ["at", 0, None], ["at", 0, None]],
        [["rs", 0, "sheet 2"], ["as", None, "Table 1"], ["as", None, "Table 1"], ["rs", 1, "SHEET 3"], ["as", "Sheet 3", "t"]],
        [["at", 0, ""], ["at", 0, ""], ["at", 0, " "], ["as", "", "t"], ["as", "", "t"], ["ns", ""], ["nt", 0, ""]],
        [["at", 0, "Straße"], ["at", 0, "STRASSE"], ["at", 0, "straße"], ["at", 0, "İstanbul"], ["at", 0, "i̇stanbul"],
         ["nt", 0, "STRASSE"], ["nt", 0, "strasse"], ["ct", 0, "STRAßE"]],
        [["at", 0, None], ["rt", 0, 1, "Table 1"], ["at", 0, "table 1"], ["at", 0, None], ["nt", 0, "Table 1"], ["gt", 0, -3], ["gt", 0, -4], ["gt", 0, -7]],
        [["as", None, "Table 1"], ["gs", -3], ["gs", -4], ["gs", -5], ["gs", 2], ["gs", -1], ["gs", -2], ["at", -3, None], ["rs", -3, "x"]],
    ]
    out = []
    for ops in hs:
        n = 3
        out.append({"kind": kind, "init": one, "ops": ops + [["gs", k] for k in range(-2 * n, 2 * n + 1)] + [["gt", 0, k] for k in range(-14, 15)]})
    return out


def index_cases(rng, quick):
    """ItemsList lookups alone, exhaustively over small sizes: n = 1..8, every k in [-2n-2, 2n+2]."""
    out = []
    for n in range(1, 9):
        names = [rng.choice(FIXED_NAMES) for _ in range(n)]
        ops = [["gs", k] for k in range(-2 * n - 2, 2 * n + 3)] + [["ns", x] for x in names] + [["cs", variants(rng, x)] for x in names]
        out.append({"kind": "stub", "init": [[x, ["Table 1"]] for x in names], "ops": ops})
        tn = [rng.choice(FIXED_NAMES) for _ in range(n)]
        ops = [["gt", 0, k] for k in range(-2 * n - 2, 2 * n + 3)] + [["nt", -1, x] for x in tn] + [["ct", 0, variants(rng, x)] for x in tn]
        out.append({"kind": "stub", "init": [["Sheet 1", tn]], "ops": ops})
    return out


# ---------------------------------------------------------------- run
def reopened_queries(d2, names):
    """Lookups on the reopened document, again in lock-step with the model."""
    n = len(names)
    q = {"kind": "reopened", "init": names,
         "ops": [["gs", k] for k in range(-2 * n, 2 * n + 1)] + [["ns", s] for s, _ in names]
         + [["gt", i, k] for i in range(n) for k in range(-2 * len(names[i][1]), 2 * len(names[i][1]) + 1)]
         + [["nt", i, t] for i in range(n) for t in names[i][1]]}
    routs = []
    for op in q["ops"]:
        try:
            coll = d2.sheets if op[0] in ("gs", "ns") else d2.sheets[op[1]].tables
            lst = iterate(coll)
            v = coll[op[-1]]
            idx = next((i for i, x in enumerate(lst) if x is v), None)
            routs.append("?" if idx is None else f"{idx}={cps(v.name)}")
        except Exception as e:  # noqa: BLE001
            routs.append(exn(e))
    return q, routs


def evaluate(ctx: Ctx, stream: str, cases, with_reopen=False):
    out_cases, reqs, impl_lines = [], [], []
    for case in cases:
        reopened = [] if with_reopen else None
        try:
            outs, fails = run_impl(case, ctx.tmp if with_reopen else None, reopened)
        except Exception as e:  # noqa: BLE001
            sig = "iteration-unbounded" if "iteration does not terminate" in str(e) else "driver-crash"
            outs, fails = ["driver:" + type(e).__name__], [(sig, f"{type(e).__name__}: {e}")]
        ctx.count("oracle:" + stream, len(case["ops"]))
        for sig, detail in fails:
            ctx.oracle_fail(sig, case, detail)
        out_cases.append(case)
        reqs.append(request(case))
        impl_lines.append("|".join(outs))
        ctx.dist("ops:" + stream, len(case["ops"]))
        for o in outs:
            if o.startswith("!IndexError#"):
                ctx.dist("refused-mutations")
            elif o.startswith("ok#"):
                ctx.dist("successful-mutations")
        if reopened:
            q, routs = reopened_queries(*reopened[0])
            out_cases.append(q)
            reqs.append(request(q))
            impl_lines.append("|".join(routs))
            ctx.dist("reopened-documents")
    return out_cases, reqs, impl_lines


def run(ctx: Ctx) -> int:
    common.standard_trusted_base(ctx, [
        "Section variable `lower` = Python's str.lower(); hypothesis lower_ascii (str.lower() on an ASCII-only string is the "
        "character-wise ASCII lowering) used by auto_name_fresh / add_never_duplicates for generated names; in the correspondence "
        "runs the model's `lower` for non-ASCII names is a table computed by Python's str.lower() for the names on the request line",
        "harness FakeModel: stands in for _NumbersModel (ids and names only) under the real Document.add_sheet / Sheet.add_table / "
        "ItemsList code in the dense stream; the `real` stream uses real Document() objects",
        "save/reopen (order and names after reload) is checked by the implementation-only oracle and the reopened-document "
        "lookup stream, not by a theorem: the saved archive order is outside Names.v",
    ])
    ctx.assumptions += [
        "'equal ignoring case' is read as equality of str.lower() images (what ItemsList.__contains__ compares); "
        "full case folding (Straße vs STRASSE) is not demanded",
        "renames are unchecked in the code and may create case-insensitive duplicates; the property's clause is about add steps",
        "sheet/table index operands of mutating operations are ints; names are str without lone surrogates",
    ]
    ctx.extra["rule"] = ("a history line counts as non-trivial when the implementation returned at least one value or performed at "
                         "least one successful mutation; distinct by (stream, whole history)")
    cr = common.coq_check_props("C19", clean=not ctx.quick)
    ctx.coq = cr
    ctx.theorems = cr.theorems
    if not cr.ok:
        ctx.obligation_errors += cr.errors
    if not ctx.quick:
        ctx.extra["coqchk"] = common.coqchk("C19")
        if ctx.extra["coqchk"]["exit"] != 0:
            ctx.obligation_errors.append("coqchk failed: " + ctx.extra["coqchk"]["tail"])
    try:
        exe = common.build_model(ENTRY)
    except RuntimeError as e:
        ctx.obligation_errors.append(str(e))
        exe = None
    nontriv = lambda case, out: any(not o.startswith("!") for o in out.split("|"))  # noqa: E731
    for stream, cases, reopen in streams_for(ctx, ctx.rng):
        out_cases, reqs, impl_lines = evaluate(ctx, stream, cases, reopen)
        if exe:
            ctx.compare(stream, out_cases, reqs, impl_lines, exe, nontrivial=nontriv)
    return common.finish(ctx, search)


def streams_for(ctx: Ctx, rng):
    quick = ctx.quick
    stub = scripted_histories("stub") + index_cases(rng, quick)
    stub += [gen_history(rng, "stub", rng.randrange(4, 40), 8) for _ in range(3000 if quick else 30000)]
    real = scripted_histories("real")
    real += [gen_history(rng, "real", rng.randrange(4, 30), 6) for _ in range(22 if quick else 300)]
    return [("stub-history", stub, False), ("real-history", real, True)]


def search(ctx: Ctx, broken) -> list:
    """Witness search: the implementation-only oracle on the disagreeing histories, their prefixes,
    and a denser fresh stream."""
    found = []
    cands = []
    for stream, case, m, i in ctx.disagreements:
        if isinstance(case, dict) and case.get("kind") in ("stub", "real"):
            cands.append(case)
            cands.append({**case, "kind": "stub"} if len(case["init"]) else case)
    rng = ctx.rng
    cands += scripted_histories("stub") + index_cases(rng, True)
    cands += [gen_history(rng, "stub", rng.randrange(4, 40), 8) for _ in range(4000)]
    for case in cands:
        try:
            _, fails = run_impl(case)
        except Exception as e:  # noqa: BLE001
            fails = [("iteration-unbounded" if "iteration does not terminate" in str(e) else "driver-crash", f"{type(e).__name__}: {e}")]
        for sig, detail in fails:
            found.append((sig, case, detail))
        if len(found) > 30:
            break
    return found


def replay(path: str) -> int:
    import tempfile
    from pathlib import Path
    d = json.loads(open(path).read())
    if d.get("kind") == "failing-input":
        case = d["case"]
        with tempfile.TemporaryDirectory(prefix="verif_C19_replay_") as t:
            try:
                _, fails = run_impl(case, Path(t) if case["kind"] == "real" else None)
            except Exception as e:  # noqa: BLE001
                fails = [(d.get("signature"), f"{type(e).__name__}: {e}")]
        known_open = {k["signature"] for k in common.load_known() if k["property"] == d.get("property") and k.get("status") == "open"}
        fails = [f for f in fails if f[0] == d.get("signature")] or [f for f in fails if f[0] not in known_open]
        if fails:
            print(f"replay: still failing: [{fails[0][0]}] {fails[0][1]}")
            print(f"VIOLATION property=C19 replay={path}")
            return 1
        print("replay: case passes on the current tree")
        return 0
    print("replay: no failing input was recorded; broken obligations/correspondences were:")
    print(json.dumps(d.get("broken"), indent=1)[:4000])
    return 1
