"""C08 - Formula text is a faithful infix rendering of the stored expression.

Theorems: coq/Props/C08.v (render_compile, formula_text_faithful, show_parse,
string_literal_escape, translator ties).

Correspondence streams (extracted model vs /repo/src):
  tree_nodes    generated trees: the model's `compile` against the harness' own post-fix serialiser
  tree_render   the model's stack machine on those node arrays against the real Cell.formula of a host
                cell whose stored AST (model.formula_ast) is the materialised ASTNodeArchive list
  raw_render    random, mostly ill-formed node arrays (stack underflow, clamp, wrong counts, TypeError,
                COLON_NODE splitting, unknown function ids, ignored node types) through TableFormulas.formula
  fixtures      every formula cell of every document under tests/data: model stack machine on the stored
                node array against Cell.formula
Implementation-only oracle: an independent precedence parser (conventional precedence written down here,
nothing imported from the library except the function-name table as data) re-reads the text the library
produced and must recover the generated tree / the tree rebuilt from the stored post-fix array: operators,
operand order, function names, argument order and emptiness, literal VALUES."""
from __future__ import annotations

import datetime as _dt
import json
import re
import warnings
from decimal import Decimal
from pathlib import Path

from . import common
from .common import Ctx

LEVEL = "proof"
ENTRY = "C08Entry"
PROP = "C08"

OPS = ["+", "-", "×", "÷", "^", "&", "=", "≠", "<", ">", "≤", "≥"]          # index = the model's operator code
OP_NODE = ["ADDITION_NODE", "SUBTRACTION_NODE", "MULTIPLICATION_NODE", "DIVISION_NODE", "POWER_NODE",
           "CONCATENATION_NODE", "EQUAL_TO_NODE", "NOT_EQUAL_TO_NODE", "LESS_THAN_NODE", "GREATER_THAN_NODE",
           "LESS_THAN_OR_EQUAL_TO_NODE", "GREATER_THAN_OR_EQUAL_TO_NODE"]
# conventional precedence, written down independently of constants.OPERATOR_PRECEDENCE
PREC = {"=": 1, "≠": 1, "<": 1, ">": 1, "≤": 1, "≥": 1, "&": 2, "+": 3, "-": 3, "×": 4, "÷": 4, "^": 5}
INT_HI = 0x3040000000000000
NULLARY = {"ADDITION_NODE", "APPEND_WHITESPACE_NODE", "BEGIN_EMBEDDED_NODE_ARRAY", "COLON_NODE", "COLON_NODE_WITH_UIDS",
           "CONCATENATION_NODE", "DIVISION_NODE", "EMPTY_ARGUMENT_NODE", "END_THUNK_NODE", "EQUAL_TO_NODE",
           "GREATER_THAN_NODE", "GREATER_THAN_OR_EQUAL_TO_NODE", "LESS_THAN_NODE", "LESS_THAN_OR_EQUAL_TO_NODE",
           "MULTIPLICATION_NODE", "NEGATION_NODE", "NOT_EQUAL_TO_NODE", "PERCENT_NODE", "POWER_NODE",
           "PREPEND_WHITESPACE_NODE", "SUBTRACTION_NODE", "REFERENCE_ERROR_WITH_UIDS"}
EXC = {"IndexError": "!CRASH:index", "TypeError": "!TypeError", "ValueError": "!ValueError", "OverflowError": "!CRASH"}


def cps(s: str) -> str:
    return "=" + ",".join(str(ord(c)) for c in s)


def uncps(t: str) -> str:
    return "".join(chr(int(x)) for x in t[1:].split(",") if x)


def exc_name(e: BaseException) -> str:
    return EXC.get(type(e).__name__, "!" + type(e).__name__)


# ------------------------------------------------------------------ implementation access
class Impl:
    """A document of the bundled template whose formula table is replaced by generated ASTs."""

    def __init__(self):
        from numbers_parser import Document
        from numbers_parser.generated import TSCEArchives_pb2 as T
        from numbers_parser.generated.functionmap import FUNCTION_MAP
        from numbers_parser.formula import TableFormulas
        self.T = T
        self.N = T.ASTNodeArrayArchive.ASTNodeArchive
        self.A = T.ASTNodeArrayArchive
        self.FUNCTION_MAP = dict(FUNCTION_MAP)
        self.doc = Document()
        self.table = self.doc.sheets[0].tables[0]
        self.model = self.table._model
        self.tid = self.table._table_id
        self.model.formula_ast(self.tid)            # fills the cache slot we then own
        self.TableFormulas = TableFormulas
        self.type_names = {k: v.name for k, v in T._ASTNODEARRAYARCHIVE_ASTNODETYPE.values_by_number.items()}

    def set_asts(self, asts: dict):
        self.model._cache["formula_ast"][str(self.tid)] = asts

    def cell_formula(self, key: int, row: int, col: int) -> str:
        """The public path: Cell.formula of the host cell."""
        cell = self.table.cell(row, col)
        old = cell._formula_id
        cell._formula_id = key
        try:
            with warnings.catch_warnings():
                warnings.simplefilter("ignore")
                return cps(cell.formula)
        except Exception as e:  # noqa: BLE001
            return exc_name(e)
        finally:
            cell._formula_id = old

    def ref_text(self, node, row, col) -> str:
        return str(self.model.node_to_ref(self.tid, row, col, node))

    # ---- descriptor -> protobuf
    def pb(self, d, host):
        N, A = self.N, self.A
        t = d[0]
        hr, hc = host
        if t in NULLARY or t.startswith("OTHER:"):
            name = t.split(":", 1)[1] if t.startswith("OTHER:") else t
            return N(AST_node_type=getattr(A, name))
        if t == "ARRAY_NODE":
            return N(AST_node_type=A.ARRAY_NODE, AST_array_node_numRow=d[1], AST_array_node_numCol=d[2])
        if t in ("BOOLEAN_NODE", "TOKEN_NODE"):
            kw = {}
            if d[1] is not None:
                kw["AST_token_node_boolean"] = bool(d[1])
            if d[2] or t == "BOOLEAN_NODE":
                kw["AST_boolean_node_boolean"] = bool(d[2])
            return N(AST_node_type=getattr(A, t), **kw)
        if t == "DATE_NODE":
            return N(AST_node_type=A.DATE_NODE, AST_date_node_dateNum=float(d[1]))
        if t == "FUNCTION_NODE":
            return N(AST_node_type=A.FUNCTION_NODE, AST_function_node_index=d[1], AST_function_node_numArgs=d[2])
        if t == "LIST_NODE":
            return N(AST_node_type=A.LIST_NODE, AST_list_node_numArgs=d[1])
        if t == "NUMBER_NODE":
            return N(AST_node_type=A.NUMBER_NODE, AST_number_node_number=float.fromhex(d[3]),
                     AST_number_node_decimal_low=d[2], AST_number_node_decimal_high=d[1])
        if t == "STRING_NODE":
            return N(AST_node_type=A.STRING_NODE, AST_string_node_string=d[1])
        if t == "CELL_REFERENCE_NODE":
            _, r, ra, c, ca = d[1]
            return N(AST_node_type=A.CELL_REFERENCE_NODE,
                     AST_row={"row": r if ra else r - hr, "absolute": bool(ra)},
                     AST_column={"column": c if ca else c - hc, "absolute": bool(ca)})
        if t == "COLON_TRACT_NODE":
            _, r1, r2, c1, c2 = d[1]
            return N(AST_node_type=A.COLON_TRACT_NODE,
                     AST_sticky_bits={"begin_row_is_absolute": False, "begin_column_is_absolute": False,
                                      "end_row_is_absolute": False, "end_column_is_absolute": False},
                     AST_colon_tract={"relative_row": [{"range_begin": r1 - hr, "range_end": r2 - hr}],
                                      "relative_column": [{"range_begin": c1 - hc, "range_end": c2 - hc}],
                                      "preserve_rectangular": True})
        raise ValueError(f"descriptor {d!r}")


def node_field(d, reftext=None) -> str:
    """Descriptor -> the model's wire format for one node."""
    t = d[0]
    if t.startswith("OTHER:"):
        return "OTHER"
    if t in NULLARY:
        return t
    if t == "ARRAY_NODE":
        return f"ARRAY_NODE:{d[1]}:{d[2]}"
    if t in ("BOOLEAN_NODE", "TOKEN_NODE"):
        tok = "-" if d[1] is None else str(int(d[1]))
        return f"{t}:{tok}:{int(d[2])}"
    if t == "DATE_NODE":
        return f"DATE_NODE:{d[1]}"
    if t == "FUNCTION_NODE":
        return f"FUNCTION_NODE:{d[1]}:{d[2]}"
    if t == "LIST_NODE":
        return f"LIST_NODE:{d[1]}"
    if t == "NUMBER_NODE":
        return f"NUMBER_NODE:{d[1]}:{d[2]}:{cps(repr(float.fromhex(d[3])))}"
    if t == "STRING_NODE":
        return f"STRING_NODE:{cps(d[1])}"
    if t in ("CELL_REFERENCE_NODE", "COLON_TRACT_NODE"):
        return f"{t}:{cps(reftext)}"
    raise ValueError(f"descriptor {d!r}")


# ------------------------------------------------------------------ trees
# JSON-able trees:
#  ["n", hi, lo, floathex] ["s", text] ["b", 0/1] ["k", 0/1] ["d", secs] ["r", refspec]
#  ["B", opidx, l, r] ["N", e] ["P", e] ["L", [e..]] ["F", id, [e|None ..]] ["A", [[e..]..]]
# refspec = ["cell", row, row_abs, col, col_abs] | ["tract", r1, r2, c1, c2]   (target coordinates)

def py_compile(t) -> list:
    """Independent post-fix serialiser (the way Numbers stores a formula)."""
    k = t[0]
    if k == "n":
        return [("NUMBER_NODE", t[1], t[2], t[3])]
    if k == "s":
        return [("STRING_NODE", t[1])]
    if k == "b":
        return [("BOOLEAN_NODE", None, t[1])]
    if k == "k":
        return [("TOKEN_NODE", t[1], 0)]
    if k == "d":
        return [("DATE_NODE", t[1])]
    if k == "r":
        return [("CELL_REFERENCE_NODE" if t[1][0] == "cell" else "COLON_TRACT_NODE", t[1])]
    if k == "B":
        return py_compile(t[2]) + py_compile(t[3]) + [(OP_NODE[t[1]],)]
    if k == "N":
        return py_compile(t[1]) + [("NEGATION_NODE",)]
    if k == "P":
        return py_compile(t[1]) + [("PERCENT_NODE",)]
    if k == "L":
        return [n for e in t[1] for n in py_compile(e)] + [("LIST_NODE", len(t[1]))]
    if k == "F":
        out = []
        for a in t[2]:
            out += [("EMPTY_ARGUMENT_NODE",)] if a is None else py_compile(a)
        return out + [("FUNCTION_NODE", t[1], len(t[2]))]
    if k == "A":
        out = [n for row in t[1] for e in row for n in py_compile(e)]
        return out + [("ARRAY_NODE", len(t[1]), len(t[1][0]) if t[1] else 0)]
    raise ValueError(k)


def enc_tree(t, reftexts) -> list[str]:
    """Prefix field encoding of a tree for the model (`expr` request)."""
    k = t[0]
    if k == "n":
        return ["n", str(t[1]), str(t[2]), cps(repr(float.fromhex(t[3])))]
    if k == "s":
        return ["s", cps(t[1])]
    if k in ("b", "k"):
        return [k, str(int(t[1]))]
    if k == "d":
        return ["d", str(t[1])]
    if k == "r":
        return ["r" if t[1][0] == "cell" else "t", cps(reftexts[json.dumps(t[1])])]
    if k == "B":
        return ["B", str(t[1])] + enc_tree(t[2], reftexts) + enc_tree(t[3], reftexts)
    if k in ("N", "P"):
        return [k] + enc_tree(t[1], reftexts)
    if k == "L":
        return ["L", str(len(t[1]))] + [f for e in t[1] for f in enc_tree(e, reftexts)]
    if k == "F":
        out = ["F", str(t[1]), str(len(t[2]))]
        for a in t[2]:
            out += ["_"] if a is None else enc_tree(a, reftexts)
        return out
    if k == "A":
        out = ["A", str(len(t[1]))]
        for row in t[1]:
            out += ["R", str(len(row))] + [f for e in row for f in enc_tree(e, reftexts)]
        return out
    raise ValueError(k)


def refs_of(t, acc):
    k = t[0]
    if k == "r":
        acc.append(t[1])
    elif k == "B":
        refs_of(t[2], acc), refs_of(t[3], acc)
    elif k in ("N", "P"):
        refs_of(t[1], acc)
    elif k == "L":
        [refs_of(e, acc) for e in t[1]]
    elif k == "F":
        [refs_of(a, acc) for a in t[2] if a is not None]
    elif k == "A":
        [refs_of(e, acc) for row in t[1] for e in row]
    return acc


def is_wf(t) -> bool:
    """The well-formedness predicate of Props/C08.v, restated (checked against the model's wfb)."""
    k = t[0]
    if k == "B":
        p = PREC[OPS[t[1]]]
        l, r = t[2], t[3]
        if l[0] == "B" and PREC[OPS[l[1]]] < p:
            return False
        if r[0] == "B" and PREC[OPS[r[1]]] <= p:
            return False
        return is_wf(l) and is_wf(r)
    if k == "N":
        return t[1][0] != "B" and is_wf(t[1])
    if k == "P":
        return t[1][0] not in ("B", "N") and is_wf(t[1])
    if k == "L":
        return len(t[1]) > 0 and all(is_wf(e) for e in t[1])
    if k == "F":
        return t[2] != [None] and all(a is None or is_wf(a) for a in t[2])
    if k == "A":
        return len(t[1]) > 0 and all(len(row) > 0 and all(is_wf(e) for e in row) for row in t[1])
    return True


def parenthesise(t):
    """Insert the explicit list nodes Numbers stores where the tree alone would be read differently."""
    k = t[0]
    if k == "B":
        p = PREC[OPS[t[1]]]
        l, r = parenthesise(t[2]), parenthesise(t[3])
        if l[0] == "B" and PREC[OPS[l[1]]] < p:
            l = ["L", [l]]
        if r[0] == "B" and PREC[OPS[r[1]]] <= p:
            r = ["L", [r]]
        return ["B", t[1], l, r]
    if k == "N":
        e = parenthesise(t[1])
        return ["N", ["L", [e]] if e[0] == "B" else e]
    if k == "P":
        e = parenthesise(t[1])
        return ["P", ["L", [e]] if e[0] in ("B", "N") else e]
    if k == "L":
        return ["L", [parenthesise(e) for e in t[1]]]
    if k == "F":
        return ["F", t[1], [None if a is None else parenthesise(a) for a in t[2]]]
    if k == "A":
        return ["A", [[parenthesise(e) for e in row] for row in t[1]]]
    return t


STR_ALPHA = ['"', '"', "a", "B", " ", ",", ";", "(", ")", "{", "}", "+", "-", "×", "÷", "%", "&", "=", "<", "≠", ":", "::", "'",
             "1", "0", ".", "é", "日", "\\", "$", "TRUE", "SUM(", "😀", "^"]
FLOATS = [0.5, 1.25, 0.1, 3.14159, 123456.789, 1e-7, 1.5e-7, 1.234e-10, 1.234e-5, 0.0001, 2.5e-300, 5e-324,
          1e16, 1.5e16, 1.25e20, 1.234e20, 1.2345678901234567e25, 1.234e300, 1.7976931348623157e308, 9007199254740993.0,
          1e22, 1e23, 123456789012345680.0, 0.30000000000000004, 99999999999999.98, 2.2250738585072014e-308]


def dec128_parts(v: float) -> tuple[int, int]:
    """decimal128 halves the way Numbers stores a non-integer literal (mantissa in the low half)."""
    d = Decimal(repr(v))
    sign, digits, exp = d.as_tuple()
    mant = int("".join(map(str, digits)))
    while mant and mant % 10 == 0:
        mant //= 10
        exp += 1
    hi = (6176 + exp) << 49
    if hi == INT_HI:                      # would be read as an integer literal: shift one digit
        mant *= 10
        hi = (6176 + exp - 1) << 49
    return hi, mant & (2**64 - 1)


class Gen:
    def __init__(self, rng, fids, maxdepth):
        self.rng = rng
        self.fids = fids
        self.maxdepth = maxdepth
        self.fid_cursor = 0

    def next_fid(self):
        # sweep all known function ids, then random
        if self.fid_cursor < len(self.fids):
            f = self.fids[self.fid_cursor]
            self.fid_cursor += 1
            return f
        return self.rng.choice(self.fids)

    def number(self):
        rng = self.rng
        x = rng.random()
        if x < 0.55:
            lo = rng.choice([0, 1, 2, 7, 10, 42, 100, 255, 1000, 65536, 10**9, 10**15, 2**53, 2**63, 2**64 - 1,
                             rng.randrange(10**6), rng.randrange(10**18)])
            return ["n", INT_HI, lo, float(lo).hex()]
        if x < 0.80:
            v = rng.choice([f for f in FLOATS if f < 1e16])
        elif x < 0.85:
            v = rng.choice([f for f in FLOATS if f >= 1e16])           # positive-exponent reprs (known finding): kept rare
        elif x < 0.93:
            v = float(f"{rng.randrange(1, 10**rng.randrange(1, 17))}e{rng.randrange(-30, 12)}")
        else:
            v = rng.randrange(10**9) / rng.choice([8, 10, 100, 1000, 3, 7])
        if v == int(v) and abs(v) < 1e16 and rng.random() < 0.5:
            v += 0.5
        hi, lo = dec128_parts(v)
        return ["n", hi, lo, v.hex()]

    def string(self):
        rng = self.rng
        n = rng.choice([0, 0, 1, 1, 2, 3, 5, 8])
        return ["s", "".join(rng.choice(STR_ALPHA) for _ in range(n))]

    def date(self):
        rng = self.rng
        x = rng.random()
        if x < 0.1:
            days = rng.choice([-730485, 2921573, 0, -1, 1, 59, 60, 365, 366, -36525, 36524, 36525, -146097, 146097])
        else:
            days = rng.randrange(-730485, 2921574)
        secs = days * 86400 + (rng.choice([0, 0, 1, 43200, 86399]) if rng.random() < 0.7 else rng.randrange(86400))
        return ["d", secs]

    def ref(self):
        rng = self.rng
        if rng.random() < 0.75:
            return ["r", ["cell", rng.randrange(0, 40), int(rng.random() < 0.4), rng.randrange(0, 30), int(rng.random() < 0.4)]]
        r1, c1 = rng.randrange(0, 20), rng.randrange(0, 20)
        return ["r", ["tract", r1, r1 + rng.randrange(0, 5), c1, c1 + rng.randrange(0, 5)]]

    def atom(self, allow_ref=True):
        x = self.rng.random()
        if x < 0.35:
            return self.number()
        if x < 0.55:
            return self.string()
        if x < 0.63:
            return ["b", int(self.rng.random() < 0.5)]
        if x < 0.67:
            return ["k", int(self.rng.random() < 0.5)]
        if x < 0.75:
            return self.date()
        if allow_ref:
            return self.ref()
        return self.number()

    def tree(self, depth, in_array=False):
        rng = self.rng
        if depth <= 0 or rng.random() < 0.12:
            return self.atom(allow_ref=not in_array)
        x = rng.random()
        if x < 0.42:
            return ["B", rng.randrange(12), self.tree(depth - 1), self.tree(depth - 1)]
        if x < 0.50:
            return ["N", self.tree(depth - 1)]
        if x < 0.56:
            return ["P", self.tree(depth - 1)]
        if x < 0.64:
            return ["L", [self.tree(depth - 1) for _ in range(rng.choice([1, 1, 1, 2, 3]))]]
        if x < 0.88:
            ar = rng.choice([0, 1, 1, 2, 2, 3, 4])
            args = [None if rng.random() < 0.15 else self.tree(depth - 1) for _ in range(ar)]
            if args == [None]:
                args = [self.tree(depth - 1)]
            return ["F", self.next_fid(), args]
        rows, cols = rng.choice([(1, 1), (1, 2), (1, 3), (1, 4), (2, 1), (2, 2), (2, 3), (3, 2), (3, 1), (4, 4)])
        d = depth - 1 if rng.random() < 0.25 else 0
        return ["A", [[self.tree(d, in_array=True) for _ in range(cols)] for _ in range(rows)]]

    def case(self):
        depth = self.rng.randrange(1, self.maxdepth + 1)
        t = self.tree(depth)
        if self.rng.random() < 0.9:
            t = parenthesise(t)
        host = [self.rng.randrange(0, 12), self.rng.randrange(0, 8)]
        return {"tree": t, "host": host}


def depth_of(t):
    k = t[0]
    if k == "B":
        return 1 + max(depth_of(t[2]), depth_of(t[3]))
    if k in ("N", "P"):
        return 1 + depth_of(t[1])
    if k == "L":
        return 1 + max(depth_of(e) for e in t[1])
    if k == "F":
        return 1 + max([depth_of(a) for a in t[2] if a is not None] or [0])
    if k == "A":
        return 1 + max(depth_of(e) for row in t[1] for e in row)
    return 0


# ------------------------------------------------------------------ independent parser (oracle)
class ParseError(Exception):
    pass


FUNC_RE = re.compile(r"[A-Z][A-Z0-9._]*\(")
NUM_RE = re.compile(r"[0-9]+(?:\.[0-9]+)?")
SIMPLE_REF_RE = re.compile(r"\$?[A-Z]+\$?[0-9]+(?::\$?[A-Z]+\$?[0-9]+)?")
SINGLE = {"(": "(", ")": ")", ",": ",", ";": ";", "{": "{", "}": "}", "%": "%"}


def lex(text: str, reftexts=()):
    """Characters -> tokens.  References are opaque: the candidate texts are those the stored nodes name."""
    refs = sorted(set(reftexts), key=len, reverse=True)
    out, i, n = [], 0, len(text)
    while i < n:
        c = text[i]
        if c == '"':
            j, buf = i + 1, []
            while True:
                if j >= n:
                    raise ParseError("unterminated string")
                if text[j] == '"':
                    if j + 1 < n and text[j + 1] == '"':
                        buf.append('"')
                        j += 2
                        continue
                    break
                buf.append(text[j])
                j += 1
            out.append(("str", "".join(buf)))
            i = j + 1
            continue
        hit = next((r for r in refs if r and text.startswith(r, i)), None)
        if hit is not None and not FUNC_RE.match(text, i):
            out.append(("ref", hit))
            i += len(hit)
            continue
        m = FUNC_RE.match(text, i)
        if m:
            out.append(("func", m.group(0)[:-1]))
            i = m.end()
            continue
        if text.startswith("TRUE", i) or text.startswith("FALSE", i):
            w = "TRUE" if text.startswith("TRUE", i) else "FALSE"
            out.append(("bool", w == "TRUE"))
            i += len(w)
            continue
        if text.startswith("#REF!", i):
            out.append(("ref", "#REF!"))
            i += 5
            continue
        m = NUM_RE.match(text, i)
        if m:
            out.append(("num", Decimal(m.group(0))))
            i = m.end()
            continue
        if c in PREC:
            out.append(("op", c))
            i += 1
            continue
        if c in SINGLE:
            out.append((c, c))
            i += 1
            continue
        m = SIMPLE_REF_RE.match(text, i)
        if m:
            out.append(("ref", m.group(0)))
            i = m.end()
            continue
        raise ParseError(f"unexpected character {c!r} at {i}")
    return out


class Parser:
    """Pratt parser: binary operators left-associative with PREC, unary minus above them, postfix % above that."""

    def __init__(self, toks):
        self.t = toks
        self.i = 0

    def peek(self):
        return self.t[self.i] if self.i < len(self.t) else ("eof", None)

    def take(self, kind=None):
        tok = self.peek()
        if kind is not None and tok[0] != kind:
            raise ParseError(f"expected {kind}, found {tok}")
        self.i += 1
        return tok

    def expr(self, minp=0):
        lhs = self.unary()
        while True:
            k, v = self.peek()
            if k != "op" or PREC[v] < minp:
                return lhs
            self.take()
            rhs = self.expr(PREC[v] + 1)
            lhs = ("bin", v, lhs, rhs)

    def unary(self):
        k, v = self.peek()
        if k == "op" and v == "-":
            self.take()
            return ("neg", self.unary())
        return self.postfix(self.primary())

    def postfix(self, e):
        while self.peek()[0] == "%":
            self.take()
            e = ("pct", e)
        return e

    def primary(self):
        k, v = self.take()
        if k in ("num", "str", "bool", "ref"):
            return (k, v)
        if k == "(":
            items = [self.expr()]
            while self.peek()[0] == ",":
                self.take()
                items.append(self.expr())
            self.take(")")
            return ("paren", tuple(items))
        if k == "func":
            if self.peek()[0] == ")":
                self.take()
                return ("fun", v, ())
            args = []
            while True:
                if self.peek()[0] in (",", ")"):
                    args.append(None)
                else:
                    args.append(self.expr())
                sep = self.take()[0]
                if sep == ")":
                    break
                if sep != ",":
                    raise ParseError("expected , or ) in arguments")
            return ("fun", v, tuple(args))
        if k == "{":
            rows, row = [], [self.expr()]
            while True:
                k2 = self.take()[0]
                if k2 == ",":
                    row.append(self.expr())
                elif k2 == ";":
                    rows.append(tuple(row))
                    row = [self.expr()]
                elif k2 == "}":
                    rows.append(tuple(row))
                    break
                else:
                    raise ParseError("expected , ; or } in array")
            return ("arr", tuple(rows))
        raise ParseError(f"unexpected token {k} {v!r}")


def parse_text(text: str, reftexts=()):
    p = Parser(lex(text, reftexts))
    e = p.expr()
    if p.peek()[0] != "eof":
        raise ParseError(f"trailing tokens from {p.peek()}")
    return e


def date_ymd(secs: int):
    d = _dt.date.fromordinal(_dt.date(2001, 1, 1).toordinal() + secs // 86400)
    return d.year, d.month, d.day


def expected(t, reftexts, fmap):
    """The canonical form the independent parser must return for a generated tree (values, not texts)."""
    k = t[0]
    if k == "n":
        return ("num", Decimal(t[2]) if t[1] == INT_HI else Decimal(repr(float.fromhex(t[3]))))
    if k == "s":
        return ("str", t[1])
    if k in ("b", "k"):
        return ("bool", bool(t[1]))
    if k == "d":
        y, m, d = date_ymd(t[1])
        return ("fun", "DATE", (("num", Decimal(y)), ("num", Decimal(m)), ("num", Decimal(d))))
    if k == "r":
        return ("ref", reftexts[json.dumps(t[1])])
    if k == "B":
        return ("bin", OPS[t[1]], expected(t[2], reftexts, fmap), expected(t[3], reftexts, fmap))
    if k == "N":
        return ("neg", expected(t[1], reftexts, fmap))
    if k == "P":
        return ("pct", expected(t[1], reftexts, fmap))
    if k == "L":
        return ("paren", tuple(expected(e, reftexts, fmap) for e in t[1]))
    if k == "F":
        return ("fun", fmap[t[1]], tuple(None if a is None else expected(a, reftexts, fmap) for a in t[2]))
    if k == "A":
        return ("arr", tuple(tuple(expected(e, reftexts, fmap) for e in row) for row in t[1]))
    raise ValueError(k)


def independent_ref_text(spec) -> str:
    """A1 text of a same-table reference, written from the statement (bijective base-26 + 1-based row)."""
    def col(c):
        c += 1
        s = ""
        while c:
            c, r = divmod(c - 1, 26)
            s = chr(65 + r) + s
        return s
    if spec[0] == "cell":
        _, r, ra, c, ca = spec
        return ("$" if ca else "") + col(c) + ("$" if ra else "") + str(r + 1)
    _, r1, r2, c1, c2 = spec
    return f"{col(c1)}{r1 + 1}:{col(c2)}{r2 + 1}"          # a range node prints as a range even when one cell


def all_diffs(a, b, path="root", acc=None):
    """Every position where two canonical trees differ: [(path, expected, read)] (no descent below a shape mismatch)."""
    acc = [] if acc is None else acc
    if type(a) != type(b) or (isinstance(a, tuple) and (len(a) != len(b))):  # noqa: E721
        acc.append((path, a, b))
    elif isinstance(a, tuple):
        for i, (x, y) in enumerate(zip(a, b)):
            all_diffs(x, y, f"{path}.{i}", acc)
    elif a != b:
        acc.append((path, a, b))
    return acc


def classify_diffs(exp, got) -> list:
    """One (signature, text) per distinct signature among the differences."""
    out = {}
    for d in all_diffs(exp, got):
        out.setdefault(diff_class(d), diff_text(d))
    return sorted(out.items())


def diff_text(d) -> str:
    return f"{d[0]}: {d[1]!r} vs {d[2]!r}"[:300]


def diff_class(d) -> str:
    """Short stable signature of a parse-back difference."""
    _, a, b = d
    if isinstance(a, Decimal) and isinstance(b, Decimal):
        # the exact shape of the known number_to_str defect: the stored double's repr is d[.ddd]e+XX and the
        # text is digits * 10^(XX-1) although the k fraction digits (k != 1) already account for k powers
        r = repr(float(a))
        if "e+" in r and Decimal(r) == a:
            mant, ex = r.split("e")
            k = len(mant.partition(".")[2])
            if k != 1 and b == Decimal(int(mant.replace(".", ""))) * (Decimal(10) ** (int(ex) - 1)):
                return "number-literal-positive-exponent"
        return "number-literal-value"
    if isinstance(a, str) and isinstance(b, str) and not d[0].endswith(".0"):     # position 0 is the node kind tag
        return "string-literal"
    return "structure"




# ------------------------------------------------------------------ oracle (implementation only)
def as_list(res):
    """Oracle results are None, one (signature, detail) or a list of them."""
    if not res or res == "skip":
        return []
    return res if isinstance(res, list) else [res]


def record(ctx: Ctx, sig: str, case, detail: str, keep=4, impl=None):
    """Count every failure, keep a few per signature (common.oracle_fail caps the total); kept tree cases are
    shrunk to the smallest sub-tree failing with the same signature."""
    key = "oracle_fail_%s_%s" % (case.get("kind", "x"), sig)
    ctx.dist(key)
    if ctx.distribution[key] <= keep:
        if impl is not None and case.get("kind") == "tree":
            case, detail = shrink(impl, case, sig, detail)
        ctx.oracle_fail(sig, case, detail)


def shrink(impl, case, sig, detail):
    best, bdet = case, detail
    progress = True
    while progress:
        progress = False
        for s in sorted(shrink_candidates(best["tree"]), key=lambda x: len(json.dumps(x))):
            c2 = {**best, "tree": s}
            try:
                r2 = [x for x in as_list(oracle_tree(impl, c2)) if x[0] == sig]
            except Exception:  # noqa: BLE001
                r2 = []
            if r2:
                best, bdet, progress = c2, r2[0][1], True
                break
    return best, bdet


def oracle_tree(impl: Impl, case):
    """Generated tree -> own post-fix -> real ASTNodeArchives -> real Cell.formula -> independent parse."""
    t, host = case["tree"], tuple(case["host"])
    descs = py_compile(t)
    pbs = [impl.pb(d, host) for d in descs]
    reftexts = {}
    for spec in refs_of(t, []):
        reftexts[json.dumps(spec)] = independent_ref_text(spec)
    impl.set_asts({1: pbs})
    out = impl.cell_formula(1, host[0], host[1])
    if out.startswith("!"):
        return ("render-raises", f"Cell.formula raised {out} for {json.dumps(t)[:300]}")
    text = uncps(out)
    again = impl.cell_formula(1, host[0], host[1])
    if again != out:
        return ("nondeterministic", f"second read differs: {uncps(again)!r} vs {text!r}")
    if not is_wf(t):
        return None
    try:
        got = parse_text(text, reftexts.values())
    except ParseError as e:
        return ("unparsable", f"{text!r}: {e}")
    exp = expected(t, reftexts, impl.FUNCTION_MAP)
    ds = classify_diffs(exp, got)
    if ds:
        return [(sig, f"text {text[:200]!r} reads as a different expression; expected vs read at {dt}") for sig, dt in ds]
    return None


SUPPORTED_FIXTURE_NODES = set(OP_NODE) | {
    "NEGATION_NODE", "PERCENT_NODE", "LIST_NODE", "FUNCTION_NODE", "ARRAY_NODE", "EMPTY_ARGUMENT_NODE", "NUMBER_NODE",
    "STRING_NODE", "BOOLEAN_NODE", "TOKEN_NODE", "DATE_NODE", "CELL_REFERENCE_NODE", "COLON_TRACT_NODE",
    "PREPEND_WHITESPACE_NODE", "APPEND_WHITESPACE_NODE", "REFERENCE_ERROR_WITH_UIDS"}


def decompile(nodes, names, fmap, reftext_of):
    """Stored post-fix array -> canonical tree (independent of formula.py).  None when a node is outside the
    oracle's grammar (thunks, COLON_NODE, category references, unknown functions, stack shape not a tree)."""
    st = []
    for n in nodes:
        tn = names[n.AST_node_type]
        if tn not in SUPPORTED_FIXTURE_NODES:
            return None
        if tn in ("PREPEND_WHITESPACE_NODE", "APPEND_WHITESPACE_NODE"):
            continue
        if tn in OP_NODE:
            if len(st) < 2:
                return None
            b, a = st.pop(), st.pop()
            st.append(("bin", OPS[OP_NODE.index(tn)], a, b))
        elif tn == "NEGATION_NODE":
            if not st:
                return None
            st.append(("neg", st.pop()))
        elif tn == "PERCENT_NODE":
            if not st:
                return None
            st.append(("pct", st.pop()))
        elif tn == "LIST_NODE":
            k = n.AST_list_node_numArgs
            if len(st) < k or k == 0:
                return None
            items = st[len(st) - k:]
            del st[len(st) - k:]
            st.append(("paren", tuple(items)))
        elif tn == "FUNCTION_NODE":
            k = n.AST_function_node_numArgs
            if len(st) < k or n.AST_function_node_index not in fmap:
                return None
            items = st[len(st) - k:] if k else []
            if k:
                del st[len(st) - k:]
            if items == [None]:
                return None
            st.append(("fun", fmap[n.AST_function_node_index], tuple(items)))
        elif tn == "ARRAY_NODE":
            r, c = n.AST_array_node_numRow, n.AST_array_node_numCol
            if r == 0 or c == 0 or len(st) < r * c:
                return None
            items = st[len(st) - r * c:]
            del st[len(st) - r * c:]
            st.append(("arr", tuple(tuple(items[i * c:(i + 1) * c]) for i in range(r))))
        elif tn == "EMPTY_ARGUMENT_NODE":
            st.append(None)
        elif tn == "NUMBER_NODE":
            if n.AST_number_node_decimal_high == INT_HI:
                st.append(("num", Decimal(n.AST_number_node_decimal_low)))
            else:
                v = n.AST_number_node_number
                if v != v or v in (float("inf"), float("-inf")) or v < 0:
                    return None
                st.append(("num", Decimal(repr(v))))
        elif tn == "STRING_NODE":
            st.append(("str", n.AST_string_node_string))
        elif tn in ("BOOLEAN_NODE", "TOKEN_NODE"):
            st.append(("bool", n.AST_token_node_boolean if n.HasField("AST_token_node_boolean") else n.AST_boolean_node_boolean))
        elif tn == "DATE_NODE":
            s = n.AST_date_node_dateNum
            if s != int(s):
                return None
            y, m, d = date_ymd(int(s))
            st.append(("fun", "DATE", (("num", Decimal(y)), ("num", Decimal(m)), ("num", Decimal(d)))))
        elif tn == "REFERENCE_ERROR_WITH_UIDS":
            st.append(("ref", "#REF!"))
        else:
            st.append(("ref", reftext_of(n)))
    if len(st) != 1 or st[0] is None:
        return None
    return st[0]


def canon_wf(e) -> bool:
    """wf on canonical trees (fixtures: only formulas stored with the parentheses the reading needs)."""
    if e is None:
        return True
    k = e[0]
    if k == "bin":
        p = PREC[e[1]]
        l, r = e[2], e[3]
        if l is None or r is None:
            return False
        if l[0] == "bin" and PREC[l[1]] < p:
            return False
        if r[0] == "bin" and PREC[r[1]] <= p:
            return False
        return canon_wf(l) and canon_wf(r)
    if k == "neg":
        return e[1] is not None and e[1][0] != "bin" and canon_wf(e[1])
    if k == "pct":
        return e[1] is not None and e[1][0] not in ("bin", "neg") and canon_wf(e[1])
    if k == "paren":
        return all(x is not None and canon_wf(x) for x in e[1])
    if k == "fun":
        return all(canon_wf(x) for x in e[2])
    if k == "arr":
        return all(x is not None and canon_wf(x) for row in e[1] for x in row)
    return True


def fixture_docs():
    return sorted(p for p in (common.REPO / "tests" / "data").glob("*.numbers"))


def open_doc(path):
    from numbers_parser import Document
    with warnings.catch_warnings():
        warnings.simplefilter("ignore")
        return Document(str(path))


def oracle_fixture_cell(impl: Impl, model, tid, cell, nodes, names) -> tuple[str, str] | None | str:
    """Returns a failure, None (passed) or the string 'skip'."""
    reftexts = []

    def reftext_of(n):
        s = str(model.node_to_ref(tid, cell.row, cell.col, n))
        reftexts.append(s)
        return s
    try:
        with warnings.catch_warnings():
            warnings.simplefilter("ignore")
            exp = decompile(nodes, names, impl.FUNCTION_MAP, reftext_of)
    except Exception:  # noqa: BLE001  reference resolution is C09's business
        return "skip"
    if exp is None or not canon_wf(exp):
        return "skip"
    try:
        with warnings.catch_warnings():
            warnings.simplefilter("ignore")
            text = cell.formula
    except Exception as e:  # noqa: BLE001  "reading a formula ... never fails for such expressions"
        return ("render-raises", f"Cell.formula raised {type(e).__name__}: {e}")
    try:
        got = parse_text(text, reftexts)
    except ParseError as e:
        return ("unparsable", f"{text[:200]!r}: {e}")
    ds = classify_diffs(exp, got)
    if ds:
        return [(sig, f"text {text[:120]!r} reads as a different expression; stored vs read at {dt}") for sig, dt in ds]
    return None


def fixture_node_fields(model, tid, cell, nodes, names):
    """Stored nodes -> model wire format; None if a field is outside the model's domain."""
    out = []
    for n in nodes:
        tn = names[n.AST_node_type]
        if tn in NULLARY:
            out.append(tn)
        elif tn == "ARRAY_NODE":
            out.append(f"ARRAY_NODE:{n.AST_array_node_numRow}:{n.AST_array_node_numCol}")
        elif tn in ("BOOLEAN_NODE", "TOKEN_NODE"):
            tok = str(int(n.AST_token_node_boolean)) if n.HasField("AST_token_node_boolean") else "-"
            out.append(f"{tn}:{tok}:{int(n.AST_boolean_node_boolean)}")
        elif tn == "DATE_NODE":
            s = n.AST_date_node_dateNum
            if s != s or s in (float("inf"), float("-inf")) or s != int(s):
                return None
            out.append(f"DATE_NODE:{int(s)}")
        elif tn == "FUNCTION_NODE":
            out.append(f"FUNCTION_NODE:{n.AST_function_node_index}:{n.AST_function_node_numArgs}")
        elif tn == "LIST_NODE":
            out.append(f"LIST_NODE:{n.AST_list_node_numArgs}")
        elif tn == "NUMBER_NODE":
            out.append(f"NUMBER_NODE:{n.AST_number_node_decimal_high}:{n.AST_number_node_decimal_low}:{cps(repr(n.AST_number_node_number))}")
        elif tn == "STRING_NODE":
            s = n.AST_string_node_string
            out.append(f"STRING_NODE:{cps(s)}")
        elif tn in ("CELL_REFERENCE_NODE", "COLON_TRACT_NODE"):
            with warnings.catch_warnings():
                warnings.simplefilter("ignore")
                out.append(f"{tn}:{cps(str(model.node_to_ref(tid, cell.row, cell.col, n)))}")
        else:
            out.append("OTHER")
    return out


# ------------------------------------------------------------------ raw node arrays
def gen_raw(rng, fids):
    pool_str = ["a", "", 'q"q', "Sheet 1::Table 1::A1", "T::A1", "x::y::z", "f(x)", "::", "a::", ":", "A1", "B2", "(", "1,2"]
    n = rng.choice([0, 1, 1, 2, 3, 4, 5, 6, 8])
    out = []
    for _ in range(n):
        x = rng.random()
        if x < 0.22:
            out.append(("NUMBER_NODE", INT_HI, rng.randrange(100), float(1).hex()) if rng.random() < 0.7
                       else ("NUMBER_NODE", *dec128_parts(v := rng.choice(FLOATS)), v.hex()))
        elif x < 0.36:
            out.append(("STRING_NODE", rng.choice(pool_str)))
        elif x < 0.46:
            out.append((rng.choice(OP_NODE),))
        elif x < 0.52:
            out.append((rng.choice(["NEGATION_NODE", "PERCENT_NODE", "EMPTY_ARGUMENT_NODE"]),))
        elif x < 0.60:
            out.append(("FUNCTION_NODE", rng.choice(fids + [0, 337, 999, 5000]), rng.randrange(0, 5)))
        elif x < 0.66:
            out.append(("LIST_NODE", rng.randrange(0, 4)))
        elif x < 0.74:
            out.append(("ARRAY_NODE", rng.randrange(0, 4), rng.randrange(0, 4)))
        elif x < 0.80:
            out.append((rng.choice(["COLON_NODE", "COLON_NODE_WITH_UIDS"]),))
        elif x < 0.85:
            out.append((rng.choice(["BOOLEAN_NODE", "TOKEN_NODE"]), rng.choice([None, 0, 1]), rng.randrange(2)))
        elif x < 0.89:
            out.append(("CELL_REFERENCE_NODE", ["cell", rng.randrange(0, 9), rng.randrange(2), rng.randrange(0, 9), rng.randrange(2)]))
        elif x < 0.91:
            r1, c1 = rng.randrange(0, 9), rng.randrange(0, 9)
            out.append(("COLON_TRACT_NODE", ["tract", r1, r1 + rng.randrange(3), c1, c1 + rng.randrange(3)]))
        elif x < 0.94:
            out.append(("DATE_NODE", rng.choice([0, 86400 * 366, -86400 * 800000, 86400 * 3000000, 10**15, -10**15, 86399, -1])))
        elif x < 0.97:
            out.append((rng.choice(["APPEND_WHITESPACE_NODE", "PREPEND_WHITESPACE_NODE", "BEGIN_EMBEDDED_NODE_ARRAY",
                                    "END_THUNK_NODE", "REFERENCE_ERROR_WITH_UIDS"]),))
        else:
            out.append(("OTHER:" + rng.choice(["CATEGORY_REF_NODE", "DURATION_NODE", "THUNK_NODE", "LET_BIND_NODE"]),))
    return out


def impl_raw(impl: Impl, descs, host):
    pbs = [impl.pb(d, host) for d in descs]
    impl.set_asts({1: pbs})
    tf = impl.TableFormulas(impl.model, impl.tid)
    try:
        with warnings.catch_warnings():
            warnings.simplefilter("ignore")
            return cps(tf.formula(1, host[0], host[1])), pbs
    except Exception as e:  # noqa: BLE001
        return exc_name(e), pbs


# ------------------------------------------------------------------ run
def trusted(ctx: Ctx):
    common.standard_trusted_base(ctx, [
        "tools/gen_c08.py: reads OPERATOR_PRECEDENCE, NODE_FUNCTION_MAP and FUNCTION_MAP by importing /repo/src (Gen/GenC08.v); the first two are tied in Coq (gen_operator_precedence, gen_node_function_map), FUNCTION_MAP is data of the extracted model (theorems hold for every function-name map)",
        "CPython float repr: NUMBER_NODE carries rep = repr(AST_number_node_number) as data; number_to_str's string surgery on it is modelled, repr itself is not",
        "model.node_to_ref / CellRange.__str__: reference texts are opaque atoms here (C09); the harness passes the text the library computes to the model",
        "datetime/timedelta: DATE_NODE is modelled on integral seconds with the proleptic Gregorian calendar (civil_from_days, proved to invert the day count for every day: date_literal_denotes), tied to datetime by the date literals of the tree stream incl. the year 1/9999 boundaries",
        "protobuf field access (HasField, defaults) as restated by the f_* accessors of Model/FormulaStack.v",
        "token level vs character level: show_parse is about tokens; that the library's characters lex to those tokens is checked by the independent Python parser of this harness on every rendered text (and by string_literal_scan for quoted literals)",
    ])
    ctx.assumptions += [
        "numbers literals are non-negative and finite (Numbers stores the sign as NEGATION_NODE); negative/NaN/inf doubles are outside the tree stream",
        "AST_date_node_dateNum integral (fixture formulas with fractional seconds are skipped and counted)",
        "array literals hold no bare cell reference (Formula.array raises TypeError on one; excluded by `renderable`, exercised by raw_render)",
        "number literals: faithful only outside the open known finding number-literal-positive-exponent (number_literal_faithful_partial / _refuted)",
    ]


ASSIGNED = ["B1+C1", "B2*2", "SUM(B1:C3)", "IF(B1>C1,\"x\",\"y\")", "-B3", "B2&\"t\"", "(B1+C2)*3", "MAX(B1,C1,2.5)", "B1/C2-1"]


def assign_read_oracle(order: list, tmp: Path) -> list:
    """Formulas given to cells through `cell.formula = ...` in one session, interleaved with reads (implementation only): what
    the open document reports for each cell right away, and again after all assignments, is what the saved file reports."""
    import warnings as _w
    from numbers_parser import Document
    fails = []
    try:
        doc = Document(num_rows=len(ASSIGNED) + 1, num_cols=3)
        t = doc.sheets[0].tables[0]
        for r in range(t.num_rows):
            for c in range(3):
                t.write(r, c, r + c + 1)
        early = {}
        with _w.catch_warnings():
            _w.simplefilter("ignore")
            for k in order:
                t.cell(k, 0).formula = ASSIGNED[k]
                early[k] = t.cell(k, 0).formula          # a read between two assignments
            late = {k: t.cell(k, 0).formula for k in order}
            p = tmp / "assigned.numbers"
            doc.save(p)
            back = Document(p).sheets[0].tables[0]
            saved = {k: back.cell(k, 0).formula for k in order}
    except Exception as e:  # noqa: BLE001
        return [("assigned-formula-raises", f"{type(e).__name__}: {e}")]
    for k in order:
        for when, got in (("right after the assignment", early[k]), ("after all assignments", late[k])):
            if got != saved[k]:
                fails.append(("assigned-formula-open-differs-from-saved", f"cell({k},0).formula = {ASSIGNED[k]!r}: the open document reports {got!r} {when}, the saved file {saved[k]!r}"))
                break
    return fails


def run(ctx: Ctx) -> int:
    trusted(ctx)
    quick = ctx.quick
    ctx.extra["rule"] = (
        "generated trees: every constructor, depth 1..%d, every FUNCTION_MAP id at least once, arities 0..4 with empty "
        "arguments, 1-D/2-D arrays, all literal kinds, relative/absolute cell and range references, random host cell; 90%% "
        "parenthesised the way Numbers stores (wf), 10%% raw; + random ill-formed node arrays; + every formula cell of every "
        "fixture. non-trivial = the implementation returned a text (not an exception); distinct by (stream, case)" % (4 if quick else 6))
    # 1. proof obligations
    cr = common.coq_check_props(PROP, clean=False)
    ctx.coq = cr
    ctx.theorems = cr.theorems
    if not cr.ok:
        ctx.obligation_errors += cr.errors
    st = json.loads((common.BUILD / "translate_status.json").read_text()).get("c08", "missing")
    ctx.extra["gen_obligations"] = [{"table": "GenC08.v", "status": st}]
    if st != "ok":
        ctx.obligation_errors.append(f"translator: GenC08.v {st}")
    if not quick:
        ctx.extra["coqchk"] = common.coqchk(PROP)
        if ctx.extra["coqchk"]["exit"] != 0:
            ctx.obligation_errors.append("coqchk failed: " + ctx.extra["coqchk"]["tail"])
    try:
        exe = common.build_model(ENTRY)
    except RuntimeError as e:
        ctx.obligation_errors.append(str(e))
        exe = None
    impl = Impl()
    fids = sorted(impl.FUNCTION_MAP)
    rng = ctx.rng

    # 2a. generated trees
    gen = Gen(rng, fids, 4 if quick else 6)
    ncases = 5000 if quick else 40000
    cases = [gen.case() for _ in range(ncases)]
    # hand-picked shapes
    one = ["n", INT_HI, 1, float(1).hex()]
    two = ["n", INT_HI, 2, float(2).hex()]
    three = ["n", INT_HI, 3, float(3).hex()]
    for o in range(12):
        for o2 in range(12):
            cases.append({"tree": parenthesise(["B", o, ["B", o2, one, two], three]), "host": [0, 0]})
            cases.append({"tree": parenthesise(["B", o, one, ["B", o2, two, three]]), "host": [1, 1]})
            cases.append({"tree": ["B", o, ["L", [["B", o2, one, two]]], ["L", [["B", o2, two, three]]]], "host": [2, 2]})
        cases.append({"tree": ["N", ["L", [["B", o, one, two]]]], "host": [0, 0]})
        cases.append({"tree": ["B", o, ["N", one], ["N", ["P", two]]], "host": [0, 0]})
        cases.append({"tree": ["F", 168, [["B", o, one, two], ["B", o, two, one]]], "host": [0, 0]})
    for v in FLOATS:
        hi, lo = dec128_parts(v)
        cases.append({"tree": ["n", hi, lo, v.hex()], "host": [0, 0]})
    for s in ['"', '""', 'a"b', '"a"', "", ",", "a,b", '","', ")", '"")', "x" * 50, 'say ""hi""']:
        cases.append({"tree": ["F", 168, [["s", s], ["s", s + '"']]], "host": [0, 0]})
        cases.append({"tree": ["B", 5, ["s", s], ["s", '"' + s]], "host": [0, 0]})

    tree_failures = 0
    reqs, impl_texts, model_node_expect, all_reftexts = [], [], [], []
    for case in cases:
        t, host = case["tree"], tuple(case["host"])
        descs = py_compile(t)
        pbs = [impl.pb(d, host) for d in descs]
        reftexts = {}
        for d, pbn in zip(descs, pbs):
            if d[0] in ("CELL_REFERENCE_NODE", "COLON_TRACT_NODE"):
                reftexts[json.dumps(d[1])] = impl.ref_text(pbn, host[0], host[1])
        all_reftexts.append(reftexts)
        impl.set_asts({7: pbs})
        impl_texts.append(impl.cell_formula(7, host[0], host[1]))
        reqs.append("expr\t" + "\t".join(enc_tree(t, reftexts)))
        model_node_expect.append([node_field(d, reftexts.get(json.dumps(d[1])) if d[0] in ("CELL_REFERENCE_NODE", "COLON_TRACT_NODE") else None)
                                  for d in descs])
        ctx.dist("depth_%d" % depth_of(t))
        ctx.dist("wf" if is_wf(t) else "not_wf")
    used_fids = set()
    for case in cases:
        _collect_fids(case["tree"], used_fids)
    ctx.distribution["function_ids_used"] = len(used_fids)
    ctx.distribution["function_ids_known"] = len(fids)

    if exe:
        outs = common.run_model(exe, reqs)
        run_reqs = []
        for case, o, want_nodes, itext in zip(cases, outs, model_node_expect, impl_texts):
            ctx.count("tree_nodes")
            f = o.split("\t")
            if len(f) < 5:
                ctx.disagree("tree_nodes", case, o, "model rejected the tree encoding")
                run_reqs.append("run")
                continue
            wfb, rend, back, show_t, run_t, nodes = f[0], f[1], f[2], f[3], f[4], f[5:]
            if nodes != want_nodes:
                ctx.disagree("tree_nodes", case, nodes, want_nodes)
            else:
                ctx.nontrivial(("tree_nodes", json.dumps(case["tree"])))
            if wfb != str(int(is_wf(case["tree"]))):
                ctx.disagree("tree_wf", case, "wfb=" + wfb, "is_wf=%d" % is_wf(case["tree"]))
            if rend == "1" and run_t != show_t:
                ctx.disagree("tree_show", case, run_t, show_t)     # would contradict formula_text_faithful
            if wfb == "1" and back != "1":
                ctx.disagree("tree_parse", case, "model parse(show e) != e with fuel 2n+2", "")
            if rend != "1" and not itext.startswith("!"):
                ctx.disagree("tree_renderable", case, "renderable=0", itext)
            run_reqs.append("run\t" + "\t".join(nodes) if nodes else "run")
        ctx.compare("tree_render", [json.dumps(c) for c in cases], run_reqs, impl_texts, exe)

    # 2b. implementation-only oracle on the same trees
    for case in cases:
        ctx.count("oracle_tree")
        try:
            res = oracle_tree(impl, case)
        except Exception as e:  # noqa: BLE001
            res = ("oracle-crash", f"{type(e).__name__}: {e}")
        for sig, det in as_list(res):
            tree_failures += 1
            record(ctx, sig, {"kind": "tree", **case}, det, impl=impl)
    # reference atoms: the library's reference text against the independent A1 rendering (plain same-table forms only)
    for case, reftexts in zip(cases, all_reftexts):
        for k, v in reftexts.items():
            if v != independent_ref_text(json.loads(k)):
                record(ctx, "reference-text", {"kind": "tree", **case}, f"{k} rendered {v!r}, expected {independent_ref_text(json.loads(k))!r}")

    # 2c. raw node arrays
    nraw = 4000 if quick else 30000
    raw_cases, raw_reqs, raw_outs = [], [], []
    for _ in range(nraw):
        descs = gen_raw(rng, fids)
        host = (rng.randrange(0, 12), rng.randrange(0, 8))
        out, pbs = impl_raw(impl, descs, host)
        fields = []
        for d, pbn in zip(descs, pbs):
            rt = impl.ref_text(pbn, host[0], host[1]) if d[0] in ("CELL_REFERENCE_NODE", "COLON_TRACT_NODE") else None
            fields.append(node_field(d, rt))
        raw_cases.append(json.dumps({"nodes": [list(d) for d in descs], "host": list(host)}))
        raw_reqs.append("run\t" + "\t".join(fields) if fields else "run")
        raw_outs.append(out)
        ctx.dist("raw_" + ("ok" if not out.startswith("!") else out[1:]))
    if exe:
        ctx.compare("raw_render", raw_cases, raw_reqs, raw_outs, exe)

    # 2d. fixtures
    fx_cases, fx_reqs, fx_outs = [], [], []
    skipped_model, skipped_oracle, fx_total = 0, 0, 0
    for path in fixture_docs():
        try:
            doc = open_doc(path)
        except Exception:  # noqa: BLE001
            ctx.dist("fixture_docs_unreadable")
            continue
        ctx.dist("fixture_docs")
        for si, sheet in enumerate(doc.sheets):
            for ti, table in enumerate(sheet.tables):
                model, tid = table._model, table._table_id
                try:
                    asts = model.formula_ast(tid)
                except Exception:  # noqa: BLE001
                    continue
                names = impl.type_names
                with warnings.catch_warnings():
                    warnings.simplefilter("ignore")
                    rows = table.rows()
                for row in rows:
                    for cell in row:
                        if not cell.is_formula or cell._formula_id not in asts:
                            continue
                        fx_total += 1
                        nodes = asts[cell._formula_id]
                        ident = {"kind": "fixture", "file": path.name, "sheet": si, "table": ti, "row": cell.row, "col": cell.col}
                        try:
                            with warnings.catch_warnings():
                                warnings.simplefilter("ignore")
                                text = cps(cell.formula)
                        except Exception as e:  # noqa: BLE001
                            text = exc_name(e)
                        try:
                            fields = fixture_node_fields(model, tid, cell, nodes, names)
                        except Exception:  # noqa: BLE001   node_to_ref failed: C09
                            fields = None
                        if fields is None:
                            skipped_model += 1
                        else:
                            fx_cases.append(json.dumps(ident))
                            fx_reqs.append("run\t" + "\t".join(fields) if fields else "run")
                            fx_outs.append(text)
                        for n in nodes:
                            ctx.dist("fx_" + names[n.AST_node_type])
                        ctx.count("oracle_fixture")
                        res = oracle_fixture_cell(impl, model, tid, cell, nodes, names)
                        if res == "skip":
                            skipped_oracle += 1
                        for sig, det in as_list(res):
                            record(ctx, sig, ident, det)
    ctx.distribution["fixture_formula_cells"] = fx_total
    ctx.distribution["fixture_cells_outside_model"] = skipped_model
    ctx.distribution["fixture_cells_outside_oracle_grammar"] = skipped_oracle
    if exe:
        ctx.compare("fixtures", fx_cases, fx_reqs, fx_outs, exe)
    ctx.extra["explanation"] = (
        "tree_render/raw_render/fixtures compare the extracted stack machine with the library's text; tree_nodes compares the "
        "model's compile with an independent serialiser; the oracle re-parses the library's text with an independent parser")
    for i in range(6 if quick else 60):
        order = list(range(len(ASSIGNED)))
        ctx.rng.shuffle(order)
        order = order[: ctx.rng.randrange(2, len(order) + 1)]
        ctx.count("oracle-assigned-formulas")
        ctx.nontrivial(("assigned", tuple(order)))
        for sig, detail in assign_read_oracle(order, ctx.tmp):
            ctx.oracle_fail(sig, {"kind": "assigned", "order": order}, detail)
    return common.finish(ctx, search)


def _collect_fids(t, acc):
    k = t[0]
    if k == "F":
        acc.add(t[1])
        [_collect_fids(a, acc) for a in t[2] if a is not None]
    elif k == "B":
        _collect_fids(t[2], acc), _collect_fids(t[3], acc)
    elif k in ("N", "P"):
        _collect_fids(t[1], acc)
    elif k == "L":
        [_collect_fids(e, acc) for e in t[1]]
    elif k == "A":
        [_collect_fids(e, acc) for row in t[1] for e in row]


# ------------------------------------------------------------------ witness search
def shrink_candidates(t):
    """Sub-trees and one-step simplifications of a tree."""
    k = t[0]
    subs = []
    if k == "B":
        subs = [t[2], t[3]]
    elif k in ("N", "P"):
        subs = [t[1]]
    elif k == "L":
        subs = list(t[1])
    elif k == "F":
        subs = [a for a in t[2] if a is not None]
    elif k == "A":
        subs = [e for row in t[1] for e in row]
    out = list(subs)
    for s in subs:
        out += shrink_candidates(s)
    return out


def search(ctx: Ctx, broken) -> list:
    impl = Impl()
    fids = sorted(impl.FUNCTION_MAP)
    found = []
    cands = []
    for stream, case, m, i in ctx.disagreements:
        try:
            c = json.loads(case) if isinstance(case, str) else case
        except Exception:  # noqa: BLE001
            continue
        if isinstance(c, dict) and "tree" in c:
            cands.append(c)
            for s in shrink_candidates(c["tree"])[:200]:
                cands.append({"tree": s, "host": c["host"]})
                cands.append({"tree": ["F", 168, [s, s]], "host": c["host"]})
    gen = Gen(ctx.rng, fids, 5)
    cands += [gen.case() for _ in range(20000)]
    seen = set()
    for c in cands:
        try:
            res = oracle_tree(impl, c)
        except Exception as e:  # noqa: BLE001
            res = ("oracle-crash", f"{type(e).__name__}: {e}")
        for sig, det in as_list(res):
            if sig in seen:
                continue
            seen.add(sig)
            best, det = shrink(impl, c, sig, det)
            found.append((sig, {"kind": "tree", **best}, det))
        if len(found) > 10:
            break
    return found


def replay(path: str) -> int:
    d = json.loads(open(path).read())
    if d.get("kind") == "failing-input":
        case = d["case"]
        impl = Impl()
        if case.get("kind") == "assigned":
            import tempfile
            with tempfile.TemporaryDirectory() as td:
                res = assign_read_oracle(case["order"], Path(td))
        elif case.get("kind") == "tree":
            res = oracle_tree(impl, case)
        else:
            doc = open_doc(common.REPO / "tests" / "data" / case["file"])
            table = doc.sheets[case["sheet"]].tables[case["table"]]
            cell = table.cell(case["row"], case["col"])
            model, tid = table._model, table._table_id
            nodes = model.formula_ast(tid)[cell._formula_id]
            res = oracle_fixture_cell(impl, model, tid, cell, nodes, impl.type_names)
        known = {k["signature"] for k in common.load_known() if k["property"] == PROP and k.get("status") == "open"}
        res = [x for x in as_list(res) if x[0] == d.get("signature") or x[0] not in known]
        if res:
            print(f"replay: still failing [{res[0][0]}]: {res[0][1]}")
            print(f"VIOLATION property={PROP} replay={path}")
            return 1
        print("replay: case passes on the current tree")
        return 0
    print("replay: no failing input was recorded; broken obligations/correspondences were:")
    print(json.dumps(d.get("broken"), indent=1)[:4000])
    return 1
