"""C09 - references in formulas name exactly the stored target cells and table.

Theorems: coq/Props/C09.v over coq/Model/Refs.v (node_to_ref, CellRange.__str__ and the
_format_* helpers, expand_ref, the header-label scope computation, and an independent resolver).

Correspondence: real documents are built through the public API for generated naming
configurations (sheets x tables, names unique / repeated across sheets / shared with the host
sheet, header rows and columns absent / unique / duplicated labels).  Reference nodes are real
protobuf ASTNodeArchive messages carrying the target table's real UUID; they go through the real
model.node_to_ref + str() and through Cell.formula, and the text is compared with the extracted
model's.  The scope tables (row_ranges / col_ranges) are compared entry by entry.

Oracle (implementation only): a resolver written from the property statement reads the printed
text back, given only the document's own names, and must find exactly the stored table and cells."""
from __future__ import annotations

import json
import re
import warnings

from . import common
from .common import Ctx, cps, uncps

LEVEL = "proof"
ENTRY = "C09Entry"
NROWS = 6
NCOLS = 6
MAX_ROW = 0x7FFFFFFF
MAX_COL = 0x7FFF

EXC = {"AttributeError": "!CRASH", "TypeError": "!CRASH"}


def exc_name(e: BaseException) -> str:
    n = type(e).__name__
    return EXC.get(n, "!" + n)


# =====================================================================================
# naming configurations
# cfg = [ {"name": sheet, "tables": [ {"name", "nhr", "nhc", "grid": {"r,c": text}} ] } ]
# grid holds the text of the header-area cells (rows < 2 or cols < 2); everything else is "".
# =====================================================================================
def cell_text(t, r, c):
    return t["grid"].get(f"{r},{c}", "")


def rowlab(t):
    """formatted value of the cell in the last header column, for every row"""
    return [cell_text(t, r, t["nhc"] - 1) if t["nhc"] > 0 else "" for r in range(NROWS)]


def collab(t):
    return [cell_text(t, t["nhr"] - 1, c) if t["nhr"] > 0 else "" for c in range(NCOLS)]


def cfg_line(cfg) -> str:
    sheets = []
    for s in cfg:
        parts = [cps(s["name"])]
        for t in s["tables"]:
            parts.append("/".join([cps(t["name"]), str(t["nhr"]), str(t["nhc"]),
                                   "".join("." + cps(x) for x in rowlab(t)),
                                   "".join("." + cps(x) for x in collab(t))]))
        sheets.append("|".join(parts))
    return ";".join(sheets)


def shape_of(cfg):
    return tuple(len(s["tables"]) for s in cfg)


def all_tids(cfg):
    return [(si, ti) for si, s in enumerate(cfg) for ti in range(len(s["tables"]))]


# ---- generation -------------------------------------------------------------------
TABLE_POOL = ["Table 1", "Table 2", "Data", "Sheet 1", "T-1", "it's", "Übersicht"]
SHEET_POOL = ["Sheet 1", "Sheet 2", "Data", "Budget+Plan", "Table 1"]
LABEL_POOL = ["alpha", "beta", "gamma", "x y", "a+b", "it's", "p%q", "", "total", "né", "'q'", "r&d", "a*b", "n-1"]


def gen_table_names(rng, shape, mode):
    """sibling names always distinct (what Numbers and the API enforce)"""
    names = []
    for si, n in enumerate(shape):
        if mode == "unique":
            names.append([f"T{si + 1}{chr(97 + ti)}" for ti in range(n)])
        elif mode == "dup_across":
            names.append(TABLE_POOL[:n])
        elif mode == "shared_first":
            # every later sheet repeats one name of the first sheet, rest unique
            row = [f"U{si + 1}{chr(97 + ti)}" for ti in range(n)]
            if si > 0:
                row[rng.randrange(n)] = "Table 1"
            else:
                row[0] = "Table 1"
            names.append(row)
        else:  # pool
            names.append(rng.sample(TABLE_POOL, n))
    return names


def gen_sheet_names(rng, k, mode):
    if mode == "pool":
        return rng.sample(SHEET_POOL, k)
    return [f"Sheet {i + 1}" for i in range(k)]


def gen_headers(rng, si, ti, mode):
    """-> nhr, nhc, grid"""
    if mode == "none":
        return 0, 0, {}
    nhr = rng.choice([0, 1, 1, 2])
    nhc = rng.choice([0, 1, 1, 2])
    if mode in ("unique", "sheetwise", "same") and rng.random() < 0.7:
        nhr, nhc = max(nhr, 1), max(nhc, 1)
    grid = {}
    # junk in every header-area cell first, so that reading the wrong header line shows
    for r in range(NROWS):
        for c in range(NCOLS):
            if r < nhr or c < nhc:
                grid[f"{r},{c}"] = f"j{r}{c}" if rng.random() < 0.5 else ""
    for axis in (0, 1):
        n = NROWS if axis == 0 else NCOLS
        first = nhr if axis == 0 else nhc
        line = (nhc - 1) if axis == 0 else (nhr - 1)
        if line < 0:
            continue
        for i in range(first, n):
            if mode == "unique":
                lab = f"{'rc'[axis]}{si}{ti}{i}"
            elif mode == "sheetwise":      # same labels in every sheet, distinct inside a sheet
                lab = f"{'rc'[axis]}{ti}{i}"
            elif mode == "same":           # same labels in every table
                lab = f"{'rc'[axis]}{i}"
            elif mode == "clash":          # row and column labels overlap
                lab = f"k{i}" if rng.random() < 0.6 else f"{'rc'[axis]}{si}{ti}{i}"
            elif mode == "dups":
                lab = rng.choice(["d1", "d2", f"u{si}{ti}{axis}{i}", f"u{i}"])
            elif mode == "empty":
                lab = "" if rng.random() < 0.6 else f"e{si}{ti}{axis}{i}"
            else:                          # pool
                lab = rng.choice(LABEL_POOL)
            key = f"{i},{line}" if axis == 0 else f"{line},{i}"
            grid[key] = lab
    return nhr, nhc, grid


HEADER_MODES = ["none", "unique", "sheetwise", "same", "clash", "dups", "empty", "pool"]
NAME_MODES = ["unique", "dup_across", "shared_first", "pool"]


def gen_cfg(rng, shape, name_mode=None, header_mode=None):
    name_mode = name_mode or rng.choice(NAME_MODES)
    tn = gen_table_names(rng, shape, name_mode)
    sn = gen_sheet_names(rng, len(shape), "pool" if rng.random() < 0.4 else "plain")
    cfg = []
    for si, n in enumerate(shape):
        tables = []
        for ti in range(n):
            hm = header_mode or rng.choice(HEADER_MODES)
            if hm == "mixed":
                hm = rng.choice(HEADER_MODES)
            nhr, nhc, grid = gen_headers(rng, si, ti, hm)
            tables.append({"name": tn[si][ti], "nhr": nhr, "nhc": nhc, "grid": grid})
        cfg.append({"name": sn[si], "tables": tables})
    return cfg


def shapes_for(ctx: Ctx):
    if ctx.quick:
        return [(1,), (2,), (3,), (1, 1), (2, 1), (1, 3), (2, 2), (3, 3), (1, 1, 1), (2, 1, 2), (3, 2, 3)]
    out = []
    for k in (1, 2, 3):
        def rec(prefix):
            if len(prefix) == k:
                out.append(tuple(prefix))
                return
            for n in (1, 2, 3, 4):
                rec(prefix + [n])
        rec([])
    out += [(4, 4, 4, 4), (1, 2, 3, 4), (4, 1, 1, 2), (2, 2, 2, 2), (1, 1, 1, 1), (3, 4, 1, 2)]
    return out


# =====================================================================================
# implementation side
# =====================================================================================
class DocPool:
    """One real document per shape, re-labelled through the public API for every configuration."""

    def __init__(self):
        from numbers_parser import Document
        from numbers_parser.generated import TSCEArchives_pb2 as T
        from numbers_parser.numbers_uuid import NumbersUUID
        self.Document = Document
        self.T = T
        self.N = T.ASTNodeArrayArchive.ASTNodeArchive
        self.A = T.ASTNodeArrayArchive
        self.NumbersUUID = NumbersUUID
        self.docs = {}

    def get(self, shape, fresh=False):
        if fresh or shape not in self.docs:
            with warnings.catch_warnings():
                warnings.simplefilter("ignore")
                doc = self.Document(num_rows=NROWS, num_cols=NCOLS, num_header_rows=0, num_header_cols=0)
                for si, n in enumerate(shape):
                    if si > 0:
                        doc.add_sheet(f"__s{si}", "__t0", num_rows=NROWS, num_cols=NCOLS)
                    sh = doc.sheets[si]
                    for ti in range(1, n):
                        sh.add_table(f"__t{ti}", num_rows=NROWS, num_cols=NCOLS)
                tables = [[doc.sheets[si].tables[ti] for ti in range(n)] for si, n in enumerate(shape)]
                for row in tables:
                    for t in row:
                        t.num_header_rows = 0
                        t.num_header_cols = 0
                        t._model.formula_ast(t._table_id)   # fills the cache slot we then own
            if fresh:
                return doc, tables
            self.docs[shape] = (doc, tables)
        return self.docs[shape]

    def apply(self, cfg, mark_dirty=True, only=None, target=None):
        """Put the document of cfg's shape into configuration cfg through the API."""
        doc, tables = target or self.get(shape_of(cfg))
        for si, s in enumerate(cfg):
            if only in (None, "sheetname"):
                doc.sheets[si].name = s["name"]
            for ti, t in enumerate(s["tables"]):
                tb = tables[si][ti]
                if only in (None, "tablename"):
                    tb.name = t["name"]
                if only in (None, "headers"):
                    tb.num_header_rows = t["nhr"]
                    tb.num_header_cols = t["nhc"]
                if only in (None, "labels"):
                    for r in range(NROWS):
                        for c in range(NCOLS):
                            if r < 2 or c < 2:
                                want = cell_text(t, r, c)
                                if tb.cell(r, c).formatted_value != want:
                                    tb.write(r, c, want)
        if mark_dirty:
            doc._model.name_ref_cache.mark_dirty()
        return doc, tables

    # ---- descriptor -> protobuf
    def pb(self, nd, uuid):
        N, A = self.N, self.A
        if nd[0] == "c":
            n = N(AST_node_type=A.CELL_REFERENCE_NODE)
            if nd[1] is not None:
                n.AST_row.SetInParent()
                n.AST_row.row = nd[1][0]
                n.AST_row.absolute = bool(nd[1][1])
            if nd[2] is not None:
                n.AST_column.SetInParent()
                n.AST_column.column = nd[2][0]
                n.AST_column.absolute = bool(nd[2][1])
        else:
            _, bra, bca, era, eca, absr, relr, absc, relc = nd
            n = N(AST_node_type=A.COLON_TRACT_NODE)
            n.AST_sticky_bits.begin_row_is_absolute = bool(bra)
            n.AST_sticky_bits.begin_column_is_absolute = bool(bca)
            n.AST_sticky_bits.end_row_is_absolute = bool(era)
            n.AST_sticky_bits.end_column_is_absolute = bool(eca)
            n.AST_colon_tract.SetInParent()
            n.AST_colon_tract.preserve_rectangular = True
            for fld, lst in (("absolute_row", absr), ("relative_row", relr),
                             ("absolute_column", absc), ("relative_column", relc)):
                for b, e in lst:
                    ent = getattr(n.AST_colon_tract, fld).add()
                    ent.range_begin = b
                    if e is not None:
                        ent.range_end = e
        if uuid is not None:
            n.AST_cross_table_reference_extra_info.table_id.CopyFrom(self.NumbersUUID(uuid).protobuf4)
        return n


def node_field(nd) -> str:
    if nd[0] == "c":
        f = lambda x: "-" if x is None else f"{x[0]}:{int(bool(x[1]))}"   # noqa: E731
        return f"c/{f(nd[1])}/{f(nd[2])}"
    _, bra, bca, era, eca, absr, relr, absc, relc = nd
    lst = lambda l: "".join("." + (str(b) if e is None else f"{b}~{e}") for b, e in l)   # noqa: E731
    return "/".join(["t", str(int(bra)), str(int(bca)), str(int(era)), str(int(eca)),
                     lst(absr), lst(relr), lst(absc), lst(relc)])


def impl_texts(pool: DocPool, doc, tables, host, tgt, items):
    """items: [(hrow, hcol, node)] -> [(text via node_to_ref+str, text via Cell.formula)]"""
    model = doc._model
    htab = tables[host[0]][host[1]]
    htid = htab._table_id
    uuid = None
    if tgt is not None:
        uuid = model.table_base_id(tables[tgt[0]][tgt[1]]._table_id)
    out = []
    asts = {}
    pbs = []
    for k, it in enumerate(items):
        n = pool.pb(it[2], uuid)
        pbs.append(n)
        asts[k] = [n]
    model._cache["formula_ast"][str(htid)] = asts
    with warnings.catch_warnings():
        warnings.simplefilter("ignore")
        for k, it in enumerate(items):
            hr, hc = it[0], it[1]
            try:
                a = "=" + str(model.node_to_ref(htid, hr, hc, pbs[k]))
            except Exception as e:  # noqa: BLE001
                a = exc_name(e)
            b = None
            if 0 <= hr < htab.num_rows and 0 <= hc < htab.num_cols:
                cell = htab.cell(hr, hc)
                old = cell._formula_id
                cell._formula_id = k
                try:
                    b = "=" + cell.formula
                except Exception as e:  # noqa: BLE001
                    b = exc_name(e)
                finally:
                    cell._formula_id = old
            out.append((a, b))
    model._cache["formula_ast"][str(htid)] = {}
    return out


def impl_scopes(doc, tables, cfg) -> str:
    cache = doc._model.name_ref_cache
    cache.refresh()
    sheets = []
    for si, s in enumerate(cfg):
        ts = []
        for ti, _ in enumerate(s["tables"]):
            tid = tables[si][ti]._table_id
            parts = []
            for rng_, n in ((cache.row_ranges[tid], NROWS), (cache.col_ranges[tid], NCOLS)):
                ent = ""
                for i in range(n):
                    v = rng_[i]
                    ent += "." + ("-" if v is None else f"{int(v.scope)}:{cps(v.name)}")
                if len(rng_) != n:
                    ent += "?len"
                parts.append(ent)
            ts.append("/".join(parts))
        sheets.append("|".join(ts))
    return ";".join(sheets)


# =====================================================================================
# reference nodes with an intent (what the stored node means, stated independently)
# intent = (kind, coords..., flags...)
# =====================================================================================
def ax_lists(b, e, babs, eabs, host, rng, end_style):
    """Store the span b..e of one axis the way Numbers does: absolute ends in the absolute
    list, relative ends in the relative list as offsets from the host."""
    if babs and eabs:
        ent = (b, e if (e != b or end_style) else None)
        return [ent], []
    if not babs and not eabs:
        ent = (b - host, (e - host) if (e != b or end_style) else None)
        return [], [ent]
    if babs:
        return [(b, None)], [(e - host, None)]
    return [(e, None)], [(b - host, None)]


def mk_rect(r1, c1, r2, c2, bra, bca, era, eca, hr, hc, end_style=True):
    absr, relr = ax_lists(r1, r2, bra, era, hr, None, end_style)
    absc, relc = ax_lists(c1, c2, bca, eca, hc, None, end_style)
    return ("t", bra, bca, era, eca, absr, relr, absc, relc)


def mk_rows(r1, r2, bra, era, hr, colflags=(False, False), end_style=True):
    absr, relr = ax_lists(r1, r2, bra, era, hr, None, end_style)
    return ("t", bra, colflags[0], era, colflags[1], absr, relr, [(MAX_COL, None)], [])


def mk_cols(c1, c2, bca, eca, hc, rowflags=(False, False), end_style=True):
    absc, relc = ax_lists(c1, c2, bca, eca, hc, None, end_style)
    return ("t", rowflags[0], bca, rowflags[1], eca, [(MAX_ROW, None)], [], absc, relc)


def mk_cell(r, c, ra, ca, hr, hc):
    return ("c", (r if ra else r - hr, ra), (c if ca else c - hc, ca))


BODY = [(r, c) for r in range(2, NROWS) for c in range(2, NCOLS)]    # the 4x4 body every table has


def gen_items(rng, budget, labelled):
    """-> [(hrow, hcol, node, intent)] for one (host, target) pair"""
    items = []
    flags4 = [(a, b, c, d) for a in (False, True) for b in (False, True) for c in (False, True) for d in (False, True)]
    flags2 = [(a, b) for a in (False, True) for b in (False, True)]
    n_cell = budget // 4
    n_rect = max(16, budget // 4)
    n_span = budget // 5
    # single cells: all four flag combinations, hosts over the body
    for k in range(n_cell):
        hr, hc = BODY[(k * 5 + rng.randrange(16)) % 16]
        ra, ca = flags2[k % 4]
        r, c = rng.randrange(NROWS), rng.randrange(NCOLS)
        items.append((hr, hc, mk_cell(r, c, ra, ca, hr, hc), ("cell", r, c, ra, ca)))
    # rectangles: all 16 flag combinations
    for k in range(n_rect):
        hr, hc = BODY[rng.randrange(16)]
        bra, bca, era, eca = flags4[k % 16]
        r1, r2 = sorted((rng.randrange(NROWS), rng.randrange(NROWS)))
        c1, c2 = sorted((rng.randrange(NCOLS), rng.randrange(NCOLS)))
        if rng.random() < 0.1:
            r1, r2 = r2, r1          # stored begin after end: must be printed as stored
        if rng.random() < 0.1:
            c1, c2 = c2, c1
        es = rng.random() < 0.5
        items.append((hr, hc, mk_rect(r1, c1, r2, c2, bra, bca, era, eca, hr, hc, es),
                      ("rect", r1, c1, r2, c2, bra, bca, era, eca)))
    # row spans / column spans
    for k in range(n_span):
        hr, hc = BODY[rng.randrange(16)]
        bra, era = flags2[k % 4]
        r1, r2 = sorted((rng.randrange(NROWS), rng.randrange(NROWS)))
        cf = flags2[rng.randrange(4)] if rng.random() < 0.3 else (False, False)
        items.append((hr, hc, mk_rows(r1, r2, bra, era, hr, cf, rng.random() < 0.5), ("rows", r1, r2, bra, era)))
        hr, hc = BODY[rng.randrange(16)]
        bca, eca = flags2[(k + 1) % 4]
        c1, c2 = sorted((rng.randrange(NCOLS), rng.randrange(NCOLS)))
        rf = flags2[rng.randrange(4)] if rng.random() < 0.3 else (False, False)
        items.append((hr, hc, mk_cols(c1, c2, bca, eca, hc, rf, rng.random() < 0.5), ("cols", c1, c2, bca, eca)))
    # single row / column through a cell node that has only one coordinate
    for k in range(max(2, budget // 20)):
        hr, hc = BODY[rng.randrange(16)]
        ra = bool(k & 1)
        r = rng.randrange(NROWS)
        items.append((hr, hc, ("c", (r if ra else r - hr, ra), None), ("row1", r, ra)))
        c = rng.randrange(NCOLS)
        items.append((hr, hc, ("c", None, (c if ra else c - hc, ra)), ("col1", c, ra)))
    return items


def gen_malformed(rng, n):
    """nodes outside the property's domain: error behaviour only (correspondence, no oracle)"""
    items = []
    for _ in range(n):
        hr, hc = rng.randrange(-1, NROWS + 1), rng.randrange(-1, NCOLS + 1)
        k = rng.randrange(8)
        if k == 0:
            nd = ("c", None, None)
        elif k == 1:
            nd = ("c", (rng.randrange(-8, 9), rng.random() < 0.3), (rng.randrange(-8, 9), rng.random() < 0.3))
        elif k == 2:
            nd = ("c", (rng.randrange(0, 9), True), None) if rng.random() < 0.5 else ("c", None, (rng.randrange(0, 9), True))
        else:
            def lst(absolute):
                m = rng.choice([0, 1, 1, 1, 2])
                out = []
                for _ in range(m):
                    b = rng.choice([MAX_ROW, MAX_COL, 0, 1, 5, 6, 7]) if absolute else rng.randrange(-7, 8)
                    e = None
                    if rng.random() < 0.4:
                        e = rng.choice([MAX_ROW, MAX_COL, 0, 3, 6, 9]) if absolute else rng.randrange(-7, 8)
                    out.append((b, e))
                return out
            nd = ("t", rng.random() < 0.5, rng.random() < 0.5, rng.random() < 0.5, rng.random() < 0.5,
                  lst(True), lst(False), lst(True), lst(False))
        items.append((hr, hc, nd, None))
    return items


# =====================================================================================
# implementation-only oracle: read the printed text back with the document's own names
# =====================================================================================
OPS = set("%^×*/÷+-&")
RE_CELL = re.compile(r"(\$?)([A-Z]{1,3})(\$?)([0-9]+)")
RE_ROW = re.compile(r"(\$?)([0-9]+)")
RE_COL = re.compile(r"(\$?)([A-Z]{1,3})")


def letters_to_col(s):
    v = 0
    for ch in s:
        v = v * 26 + (ord(ch) - 64)
    return v - 1


def unquote(b):
    if len(b) >= 2 and b[0] == "'" and b[-1] == "'" and any(ch in OPS for ch in b[1:-1]):
        return b[1:-1]
    return b.replace("'''", "'")


def classify(seg):
    m = RE_CELL.fullmatch(seg)
    if m:
        return ("cell", int(m.group(4)) - 1, letters_to_col(m.group(2)), m.group(3) == "$", m.group(1) == "$")
    m = RE_ROW.fullmatch(seg)
    if m:
        return ("row", int(m.group(2)) - 1, m.group(1) == "$")
    m = RE_COL.fullmatch(seg)
    if m:
        return ("col", letters_to_col(m.group(2)), m.group(1) == "$")
    s = unquote(seg)
    if s.startswith("$"):
        return ("label", s[1:], True)
    return ("label", s, False)


def tables_in_sheet(cfg, si, name):
    return [(si, ti) for ti, t in enumerate(cfg[si]["tables"]) if t["name"] == name]


def resolve_tables(cfg, host, prefix):
    """Which tables does the prefix name, seen from the host table?  No prefix: the host table.
    table:: a table of that name in the host's sheet, else anywhere in the document.
    sheet::table:: the table of that name in the sheet of that name."""
    if len(prefix) == 0:
        return [host]
    if len(prefix) == 1:
        here = tables_in_sheet(cfg, host[0], prefix[0])
        if here:
            return here
        return [x for si in range(len(cfg)) for x in tables_in_sheet(cfg, si, prefix[0])]
    if len(prefix) == 2:
        return [x for si, s in enumerate(cfg) if s["name"] == prefix[0] for x in tables_in_sheet(cfg, si, prefix[1])]
    return []


def label_hits_tbl(t, name):
    """(axis, index) of the body rows / columns of table t labelled `name`"""
    hits = []
    if t["nhc"] > 0:
        hits += [(0, i) for i, l in enumerate(rowlab(t)) if i >= t["nhr"] and l == name]
    if t["nhr"] > 0:
        hits += [(1, i) for i, l in enumerate(collab(t)) if i >= t["nhc"] and l == name]
    return hits


def resolve_labels(cfg, host, prefix, names):
    """Tables (and the rows/columns) in which every one of `names` is a header label: in the
    tables the prefix names, or for a bare label in the innermost scope that knows it
    (host table, host sheet, document).  -> [(tid, [hits of name1], [hits of name2]...)]"""
    def hits_in(tids):
        out = []
        for tid in tids:
            t = cfg[tid[0]]["tables"][tid[1]]
            hs = [label_hits_tbl(t, n) for n in names]
            if all(hs):
                out.append((tid, hs))
        return out
    if prefix:
        return hits_in(resolve_tables(cfg, host, prefix))
    for scope in ([host], [(host[0], ti) for ti in range(len(cfg[host[0]]["tables"]))], all_tids(cfg)):
        got = hits_in(scope)
        if got:
            return got
    return []


def split_text(text):
    parts = text.split("::")
    if len(parts) > 3:
        return None
    segs = parts[-1].split(":")
    if len(segs) > 2:
        return None
    return parts[:-1], segs


def oracle_item(cfg, host, tgt, intent, text):
    """-> None or (signature, detail).  text is "=<printed>" or "!Exception"."""
    want = tgt if tgt is not None else host
    if not text.startswith("="):
        return ("crash:" + text[1:], f"printing raised {text[1:]}")
    text = text[1:]
    if text == "" or text.endswith("::") or text.endswith(":") or text.startswith(":"):
        return ("empty-name", f"printed {text!r}")
    sp = split_text(text)
    if sp is None:
        return ("unparseable", f"printed {text!r}")
    prefix, segs = sp
    cls = [classify(s) for s in segs]
    kinds = [c[0] for c in cls]
    kind = intent[0]
    if "None" in text and any(c == ("label", "None", True) or c == ("label", "None", False) for c in cls):
        return ("none-printed", f"printed {text!r}")

    def table_check():
        got = resolve_tables(cfg, host, prefix)
        if got == [want]:
            return None
        if len(got) > 1:
            return ("prefix-ambiguous", f"{text!r} from {host}: prefix {prefix} matches tables {got}, stored {want}")
        return ("prefix-wrong-table", f"{text!r} from {host}: prefix {prefix} names {got}, stored {want}")

    if kind == "cell":
        _, r, c, ra, ca = intent
        if kinds != ["cell"]:
            return ("shape", f"{text!r} for a single cell")
        if (cls[0][1], cls[0][2]) != (r, c):
            return ("coords", f"{text!r} names cell {(cls[0][1], cls[0][2])}, stored {(r, c)}")
        if (cls[0][3], cls[0][4]) != (ra, ca):
            return ("marks", f"{text!r} has $ marks {(cls[0][3], cls[0][4])}, stored {(ra, ca)}")
        return table_check()
    if kind == "rect":
        _, r1, c1, r2, c2, bra, bca, era, eca = intent
        if kinds != ["cell", "cell"]:
            return ("shape", f"{text!r} for a rectangle")
        got = (cls[0][1], cls[0][2], cls[1][1], cls[1][2])
        if got == (r2, c2, r1, c1) and got != (r1, c1, r2, c2):
            return ("swapped", f"{text!r} has the end points swapped, stored {(r1, c1, r2, c2)}")
        if got != (r1, c1, r2, c2):
            return ("coords", f"{text!r} names {got}, stored {(r1, c1, r2, c2)}")
        if (cls[0][3], cls[0][4], cls[1][3], cls[1][4]) != (bra, bca, era, eca):
            return ("marks", f"{text!r} has $ marks {(cls[0][3], cls[0][4], cls[1][3], cls[1][4])}, stored {(bra, bca, era, eca)}")
        return table_check()
    # spans
    axis = 0 if kind in ("rows", "row1") else 1
    num = "row" if axis == 0 else "col"
    if kind in ("rows", "cols"):
        _, i1, i2, a1, a2 = intent
    else:
        _, i1, a1 = intent
        i2, a2 = i1, a1
    if all(k == num for k in kinds):
        if kind in ("rows", "cols") and len(cls) != 2:
            return ("shape", f"{text!r} for a span")
        got = (cls[0][1], cls[-1][1])
        if got == (i2, i1) and got != (i1, i2):
            return ("swapped", f"{text!r} has the end points swapped, stored {(i1, i2)}")
        if got != (i1, i2):
            return ("coords", f"{text!r} names {num}s {got}, stored {(i1, i2)}")
        if (cls[0][2], cls[-1][2]) != (a1, a2):
            return ("marks", f"{text!r} has $ marks {(cls[0][2], cls[-1][2])}, stored {(a1, a2)}")
        return table_check()
    if all(k == "label" for k in kinds):
        if kind in ("rows", "cols") and len(cls) != 2:
            return ("shape", f"{text!r} for a span")
        names = [c[1] for c in cls]
        if any(n == "" for n in names):
            return ("empty-name", f"printed {text!r}")
        got = resolve_labels(cfg, host, prefix, names)
        exp = [(axis, i1)] if len(names) == 1 else [(axis, i1), (axis, i2)]
        flat = [(tid, [h for hs_ in hs for h in hs_]) for tid, hs in got]
        if len(got) == 1 and got[0][0] == want and all(len(h) == 1 for h in got[0][1]) \
                and [h[0] for h in got[0][1]] == exp:
            if (cls[0][2], cls[-1][2]) != (a1, a2):
                return ("marks", f"{text!r} has $ marks {(cls[0][2], cls[-1][2])}, stored {(a1, a2)}")
            return None
        if len(got) == 0:
            return ("label-unresolved", f"{text!r} from {host}: no table has label(s) {names}; stored {want} {exp}")
        if len(got) == 1 and got[0][0] == want:
            hs = got[0][1]
            axes = {h[0] for hh in hs for h in hh}
            if any(len(h) > 1 for h in hs):
                if len(axes) > 1:
                    return ("label-ambiguous:row-and-column", f"{text!r}: label(s) {names} name {flat} in table {want}; stored {exp}")
                return ("label-ambiguous:in-table", f"{text!r}: label(s) {names} name {flat}; stored {exp}")
            if len(names) == 2 and [h[0] for h in hs] == exp[::-1] and exp[0] != exp[1]:
                return ("swapped", f"{text!r} has the end points swapped, stored {exp}")
            return ("label-wrong-line", f"{text!r}: label(s) {names} name {flat}; stored {exp}")
        if len(got) > 1 and want in [g[0] for g in got]:
            return ("label-ambiguous:tables", f"{text!r} from {host}: label(s) {names} match tables {[g[0] for g in got]}; stored {want}")
        return ("label-wrong-table", f"{text!r} from {host}: label(s) {names} match {[g[0] for g in got]}; stored {want}")
    return ("shape", f"{text!r}: mixed or unexpected parts {kinds} for {kind}")


# =====================================================================================
# one configuration through implementation, model and oracle
# =====================================================================================
def pair_budget(ctx):
    return 60 if ctx.quick else 100


def choose_pairs(rng, cfg, limit):
    tids = all_tids(cfg)
    pairs = [(h, None) for h in tids]                     # local references
    pairs += [(h, t) for h in tids for t in tids]         # incl. an explicit uuid of the host itself
    if len(pairs) > limit:
        keep = [(h, None) for h in rng.sample(tids, min(2, len(tids)))]
        rest = [p for p in pairs if p[1] is not None]
        rng.shuffle(rest)
        pairs = keep + rest[:limit - len(keep)]
    return pairs


def has_labels(cfg, tid):
    t = cfg[tid[0]]["tables"][tid[1]]
    return t["nhr"] > 0 or t["nhc"] > 0


def run_config(ctx, pool, exe, cfg, stream, pair_limit, budget, malformed=0, record=None):
    """Returns the list of failing oracle cases [(sig, case, detail)]"""
    rng = ctx.rng
    doc, tables = pool.apply(cfg)
    dline = cfg_line(cfg)
    fails = []
    # scope tables
    if exe:
        m = common.run_model(exe, ["scp\t" + dline])[0]
        i = impl_scopes(doc, tables, cfg)
        ctx.count("scopes")
        ctx.nontrivial(("scopes", dline))
        if m != i:
            ctx.disagree("scopes", {"cfg": cfg}, m, i)
    reqs, metas = [], []
    for host, tgt in choose_pairs(rng, cfg, pair_limit):
        want = tgt if tgt is not None else host
        items = gen_items(rng, budget, has_labels(cfg, want))
        if malformed:
            items += gen_malformed(rng, malformed)
        texts = impl_texts(pool, doc, tables, host, tgt, items)
        req = "\t".join(["ref", dline, str(host[0]), str(host[1])] +
                        (["-", "-"] if tgt is None else [str(tgt[0]), str(tgt[1])]) +
                        [f"{hr};{hc};{node_field(nd)}" for hr, hc, nd, _ in items])
        reqs.append(req)
        metas.append((host, tgt, items, texts))
    outs = common.run_model(exe, reqs) if exe else [None] * len(reqs)
    for (host, tgt, items, texts), out in zip(metas, outs):
        mouts = out.split("\t") if out is not None else [None] * len(items)
        if out is not None and len(mouts) != len(items):
            ctx.disagree(stream, {"cfg": cfg, "host": host, "tgt": tgt}, f"{len(mouts)} results", f"{len(items)} items")
            continue
        for (hr, hc, nd, intent), (a, b), mo in zip(items, texts, mouts):
            case = {"cfg": cfg, "host": list(host), "tgt": None if tgt is None else list(tgt),
                    "hrow": hr, "hcol": hc, "node": nd, "intent": intent}
            st = stream if intent is not None else stream + "-malformed"
            ctx.count(st)
            if a.startswith("="):
                ctx.nontrivial((st, dline, host, tgt, hr, hc, str(nd)))
            if mo is not None:
                mtxt = ("=" + uncps(mo[1:])) if mo.startswith("=") else mo
                if mtxt != a:
                    ctx.disagree(st, case, mtxt, a)
            if b is not None and b != a:
                fails.append(("cell-formula-differs", case, f"Cell.formula gave {b!r}, node_to_ref+str gave {a!r}"))
            if intent is not None:
                ctx.count("oracle")
                ctx.dist("intent:" + intent[0])
                res = oracle_item(cfg, host, tgt, tuple(intent), a)
                if res:
                    fails.append((res[0], case, res[1]))
                if record is not None and a.startswith("="):
                    record.append((cfg, host, a[1:]))
    if metas:
        host, tgt, items, texts = metas[len(metas) // 2]
        ctx.sample({"stream": stream, "host": host, "tgt": tgt, "node": items[0][2], "impl": texts[0][0]})
    return fails


# ---- resolver cross-check: the Coq resolver of the theorems against the oracle's ----
def resolver_stream(ctx, exe, recorded):
    rng = ctx.rng
    reqs, exps, cases = [], [], []
    for cfg, host, text in recorded:
        sp = split_text(text)
        if sp is None:
            continue
        prefix, segs = sp
        if len(prefix) > 2:
            continue
        dline = cfg_line(cfg)
        p = [cps(x) for x in prefix] + ["", ""]
        got = resolve_tables(cfg, host, prefix)
        reqs.append("\t".join(["rst", dline, str(host[0]), str(host[1]), str(len(prefix)), p[0], p[1]]))
        exps.append(",".join(f"{s}.{t}" for s, t in got))
        cases.append({"cfg": cfg, "host": host, "prefix": prefix})
        c = classify(segs[0])
        if c[0] == "label" and len(segs) == 1:
            hits = resolve_labels(cfg, host, prefix, [c[1]])
            reqs.append("\t".join(["rsl", dline, str(host[0]), str(host[1]), str(len(prefix)), p[0], p[1], cps(segs[0])]))
            exps.append(f"{int(c[2])}|" + ",".join(f"{tid[0]}.{tid[1]}.{h[0]}.{h[1]}" for tid, hs in hits for h in hs[0]))
            cases.append({"cfg": cfg, "host": host, "prefix": prefix, "body": segs[0]})
        if len(segs) == 2:
            c2 = classify(segs[1])
            if c[0] == "label" and c2[0] == "label":
                hits = resolve_labels(cfg, host, prefix, [c[1], c2[1]])
                reqs.append("\t".join(["rss", dline, str(host[0]), str(host[1]), str(len(prefix)), p[0], p[1],
                                       cps(segs[0]), cps(segs[1])]))
                exps.append(f"{int(c[2])}{int(c2[2])}|" + ",".join(
                    f"{tid[0]}.{tid[1]}.{h1[0]}.{h1[1]}.{h2[0]}.{h2[1]}" for tid, hs in hits for h1 in hs[0] for h2 in hs[1]))
                cases.append({"cfg": cfg, "host": host, "prefix": prefix, "body": segs})
    # prefixes nobody printed
    for cfg, host, _ in recorded[:: max(1, len(recorded) // 400)]:
        names = [t["name"] for s in cfg for t in s["tables"]] + [s["name"] for s in cfg] + ["nope"]
        prefix = [rng.choice(names) for _ in range(rng.randrange(3))]
        p = [cps(x) for x in prefix] + ["", ""]
        reqs.append("\t".join(["rst", cfg_line(cfg), str(host[0]), str(host[1]), str(len(prefix)), p[0], p[1]]))
        exps.append(",".join(f"{s}.{t}" for s, t in resolve_tables(cfg, host, prefix)))
        cases.append({"cfg": cfg, "host": host, "prefix": prefix})
    ctx.compare("resolver", cases, reqs, exps, exe, nontrivial=lambda c, o: o != "")


# ---- edits between reads: the cache must follow the document ----
def edit_stream(ctx, pool, n):
    """Implementation only (metamorphic): after an edit through the public API the printed
    references must equal those printed after a forced refresh of the name cache."""
    rng = ctx.rng
    fails = []
    shapes = [(2,), (2, 2), (1, 2)]
    for k in range(n):
        shape = shapes[k % len(shapes)]
        kind = ["labels", "headers", "tablename", "sheetname"][k % 4]
        nm = None
        if kind == "sheetname":
            # a sheet name only shows in a reference when the table name alone does not identify the target: two sheets
            # whose tables share their names
            shape = (2, 2) if k % 8 < 4 else (1, 2)
            nm = "dup_across"
        nm_b = nm
        if kind == "tablename" and k % 8 >= 4:
            # renames that change how much qualification a reference needs: names unique in the document before, shared
            # by tables of different sheets afterwards (and the other way round)
            shape = (2, 2) if k % 16 < 8 else (1, 2)
            nm, nm_b = ("unique", "dup_across") if k % 16 < 12 else ("dup_across", "unique")
        a = gen_cfg(rng, shape, name_mode=nm, header_mode="mixed")
        b = gen_cfg(rng, shape, name_mode=nm_b, header_mode="mixed")
        # b differs from a only in the edited aspect
        merged = json.loads(json.dumps(a))
        for si, s in enumerate(merged):
            if kind == "sheetname":
                s["name"] = b[si]["name"] if b[si]["name"] != s["name"] else s["name"] + " (renamed)"
            for ti, t in enumerate(s["tables"]):
                if kind == "tablename":
                    t["name"] = b[si]["tables"][ti]["name"]
                if kind == "headers":
                    t["nhr"] = (t["nhr"] + rng.choice([0, 1, 2])) % 3
                    t["nhc"] = (t["nhc"] + rng.choice([1, 2] if t["nhr"] == a[si]["tables"][ti]["nhr"] else [0, 1, 2])) % 3
                if kind == "labels":
                    # change single label cells of body lines (never a corner cell of the header area)
                    for _ in range(rng.randrange(1, 3)):
                        i = rng.randrange(2, NROWS)
                        if t["nhc"] > 0 and rng.random() < 0.5:
                            t["grid"][f"{i},{t['nhc'] - 1}"] = rng.choice(LABEL_POOL[:4] + ["zz", ""])
                        elif t["nhr"] > 0:
                            t["grid"][f"{t['nhr'] - 1},{i}"] = rng.choice(LABEL_POOL[:4] + ["zz", ""])
        doc, tables = pool.apply(a)
        tids = all_tids(a)
        pairs = [(h, t) for h in tids for t in tids]
        probes = {}
        for host, tgt in pairs:
            probes[(host, tgt)] = [x for x in gen_items(rng, 40, True) if x[3][0] in ("rows", "cols", "row1", "col1", "cell")]
            impl_texts(pool, doc, tables, host, tgt, probes[(host, tgt)][:2])     # fills the cache in state a
        pool.apply(merged, mark_dirty=False, only=kind)
        for host, tgt in pairs:
            items = probes[(host, tgt)]
            stale = [x[0] for x in impl_texts(pool, doc, tables, host, tgt, items)]
            doc._model.name_ref_cache.mark_dirty()
            fresh = [x[0] for x in impl_texts(pool, doc, tables, host, tgt, items)]
            for it, s_, f_ in zip(items, stale, fresh):
                ctx.count("edits")
                if s_ != f_:
                    case = {"edit": kind, "before": a, "cfg": merged, "host": list(host), "tgt": list(tgt),
                            "hrow": it[0], "hcol": it[1], "node": it[2], "intent": it[3]}
                    fails.append((f"stale-name-cache:{kind}", case,
                                  f"after editing {kind} the reference prints {s_!r}; after a cache refresh {f_!r}"))
        ctx.dist("edit:" + kind)
    return fails


def fixture_rename_stream(ctx, names=("create-formulas.numbers",)):
    """Implementation only (metamorphic), on a document written by Numbers whose references use every qualifier form:
    after a sheet or a table is renamed through the API, the printed formulas equal those printed after a forced
    refresh of the name cache."""
    from numbers_parser import Document
    fails = []

    def all_formulas(doc):
        out = {}
        for si, sh in enumerate(doc.sheets):
            for ti, tb in enumerate(sh.tables):
                for row in tb.iter_rows():
                    for c in row:
                        try:
                            f = c.formula
                        except Exception as e:  # noqa: BLE001
                            f = "!" + type(e).__name__
                        if f is not None:
                            out[(si, ti, c.row, c.col)] = f
        return out

    for name in names:
        p = common.REPO / "tests" / "data" / name
        if not p.exists():
            continue
        with warnings.catch_warnings():
            warnings.simplefilter("ignore")
            probe = Document(str(p))
            targets = [("sheet", si, None) for si in range(len(probe.sheets))] + \
                      [("table", si, ti) for si, sh in enumerate(probe.sheets) for ti in range(len(sh.tables))][:8]
            for kind, si, ti in targets:
                doc = Document(str(p))
                all_formulas(doc)                      # fills every cache in the original state
                if kind == "sheet":
                    doc.sheets[si].name = doc.sheets[si].name + " (renamed)"
                else:
                    doc.sheets[si].tables[ti].name = doc.sheets[si].tables[ti].name + " (renamed)"
                stale = all_formulas(doc)
                doc._model.name_ref_cache.mark_dirty()
                fresh = all_formulas(doc)
                ctx.count("fixture-renames", len(fresh))
                bad = [k for k in fresh if stale.get(k) != fresh[k]]
                if bad:
                    k = bad[0]
                    fails.append((f"stale-name-cache:fixture-{kind}-rename", {"fixture": name, "rename": [kind, si, ti], "cell": list(k)},
                                  f"{name}: after renaming {kind} {si if ti is None else (si, ti)} cell {k} prints {stale.get(k)!r}; after a cache refresh {fresh[k]!r} ({len(bad)} cells)"))
    return fails


def rename_scope_oracle(ctx):
    """Implementation only (metamorphic): renames that change how much qualification a reference needs.  Two sheets, a
    label that two tables of the second sheet share (so references to it carry the table name); the referenced table is
    renamed to / away from a name that a table of the first sheet has.  After each rename the printed reference equals
    the one printed after a forced refresh of the name cache."""
    from numbers_parser import Document
    fails = []
    for variant in ("to-duplicate", "from-duplicate", "sheet-to-other-name"):
        with warnings.catch_warnings():
            warnings.simplefilter("ignore")
            doc = Document(sheet_name="S1", table_name="T", num_rows=4, num_cols=4)
            u = doc.sheets[0].add_table("U", num_rows=4, num_cols=4)
            doc.add_sheet("S2", "V", num_rows=4, num_cols=4)
            v = doc.sheets[1].tables[0]
            w = doc.sheets[1].add_table("T" if variant != "to-duplicate" else "W", num_rows=4, num_cols=4)
            v.write(0, 1, "a")
            w.write(0, 1, "a")
            u.write(1, 1, 0)
            try:
                u.cell(1, 1).formula = f"SUM({'S2::' if variant != 'to-duplicate' else ''}{w.name}::a)"
                before = u.cell(1, 1).formula
                if variant == "to-duplicate":
                    w.name = "T"
                elif variant == "from-duplicate":
                    w.name = "W"
                else:
                    doc.sheets[1].name = "Other"
                stale = u.cell(1, 1).formula
                doc._model.name_ref_cache.mark_dirty()
                fresh = u.cell(1, 1).formula
            except Exception as e:  # noqa: BLE001
                ctx.notes.append(f"rename_scope_oracle {variant}: {type(e).__name__}: {e}"[:200])
                continue
        ctx.count("rename-scope")
        if stale != fresh:
            fails.append((f"stale-name-cache:rename-{variant}", {"rename_scope": variant},
                          f"{variant}: printed {before!r} before the rename, {stale!r} after it, {fresh!r} after a cache refresh"))
    return fails


RESIZE_OPS = ["add_row", "delete_row", "add_column", "delete_column", "header_rows", "header_cols", "label_write_refused_style",
              "label_write_styled"]


def do_resize(tb, op, at):
    if op == "add_row":
        tb.add_row(start_row=at)
    elif op == "delete_row":
        tb.delete_row(start_row=at)
    elif op == "add_column":
        tb.add_column(start_col=at)
    elif op == "header_rows":      # one more / one fewer header row: the labels come from another row
        tb.num_header_rows = 2 if tb.num_header_rows <= 1 else tb.num_header_rows - 1
    elif op == "header_cols":
        tb.num_header_cols = 2 if tb.num_header_cols <= 1 else tb.num_header_cols - 1
    elif op in ("label_write_refused_style", "label_write_styled"):
        # a new label written into the last header row / header column together with a style argument; a style the
        # document does not have makes the call raise (after the value is stored): whatever the call leaves behind,
        # the printed references must describe the document as it then is
        for r, c in ((max(tb.num_header_rows - 1, 0), at), (at, max(tb.num_header_cols - 1, 0))):
            try:
                tb.write(r, c, f"relabelled {r} {c}", style="no such style" if op == "label_write_refused_style" else "Body")
            except (IndexError, TypeError):
                pass
    else:
        tb.delete_column(start_col=at)


def resize_probe(pool, cfg, op, at, items):
    """Fresh one-sheet document in configuration cfg; read, resize the first table, read again
    with and without a forced refresh of the name cache.  -> [(stale, fresh)]"""
    doc, tables = pool.get(shape_of(cfg), fresh=True)
    pool.apply(cfg, target=(doc, tables))
    host = (0, len(tables[0]) - 1)
    impl_texts(pool, doc, tables, host, (0, 0), items[:1])
    with warnings.catch_warnings():
        warnings.simplefilter("ignore")
        do_resize(tables[0][0], op, at)
    stale = [x[0] for x in impl_texts(pool, doc, tables, host, (0, 0), items)]
    doc._model.name_ref_cache.mark_dirty()
    fresh = [x[0] for x in impl_texts(pool, doc, tables, host, (0, 0), items)]
    return list(zip(stale, fresh))


def resize_stream(ctx, pool, n):
    """Implementation only (metamorphic): inserting / deleting rows and columns moves the header
    labels; the printed references must follow without a forced refresh of the name cache."""
    rng = ctx.rng
    fails = []
    for k in range(n):
        cfg = gen_cfg(rng, (1,) if k % 2 else (2,), "unique", "unique")
        op = RESIZE_OPS[k % len(RESIZE_OPS)]
        at = rng.randrange(2, NROWS)
        items = [x[:3] for x in gen_items(rng, 40, True) if x[3][0] in ("rows", "cols", "row1", "col1")]
        for it, (s_, f_) in zip(items, resize_probe(pool, cfg, op, at, items)):
            ctx.count("resize")
            if s_ != f_:
                case = {"resize": op, "at": at, "cfg": cfg, "hrow": it[0], "hcol": it[1], "node": it[2]}
                fails.append((f"stale-name-cache:{op}", case,
                              f"after {op} at {at} the reference prints {s_!r}; after a cache refresh {f_!r}"))
        ctx.dist("resize:" + op)
    return fails


# =====================================================================================
def run(ctx: Ctx) -> int:
    common.standard_trusted_base(ctx, [
        "Model/Refs.v restates model.node_to_ref, CellRange.__str__/_format_*/expand_ref and ScopedNameRefCache.calculate_named_ranges (the tree with fixes/C09-*.patch applied) over an abstract naming configuration; tied to the code by the correspondence streams only",
        "tools/gen_c09.py: reads the open-end sentinels from the AST of model.node_to_ref (Gen/GenRefs.v); tools/translate.py: OPERATOR_PRECEDENCE keys (Gen/GenConsts.v); tied in Props/C09.v gen_refs_constants",
        "the table uuid -> table id map (table_uuids_to_id / calculate_table_uuid_map) is not modelled: the model receives the target table index; the harness puts the target's real UUID into every node, so a wrong map shows as a disagreement",
        "protobuf field presence (HasField) and repeated-field indexing as used by the harness to build nodes",
        "the resolver of the theorems (resolve_table / resolve_label / resolve_span) is compared with the oracle's Python resolver on every printed prefix, label and label span (stream resolver)",
        "the cache-invalidation path (Table.write, header counts, add/delete row/column -> name_ref_cache.mark_dirty) is checked by implementation-only metamorphic streams (edits, resize), not modelled",
        "the resolver of the theorems (resolve_table / resolve_label / resolve_span) states the library's own scoping rule as the property describes it; Numbers' actual resolver is not available. Names are compared exactly (not ignoring case)",
    ])
    ctx.assumptions += [
        "header labels are text cells; labels of coordinate form (A1, 12, AB), labels starting with '$' and names containing ':' are outside the generated domain (their printed form is indistinguishable from a coordinate)",
        "tables are 6x6 with at most 2 header rows/columns (a 4x4 body is always present); hosts range over that body",
        "sibling table names and sheet names are distinct (what Numbers and the API enforce)",
    ]
    ctx.extra["rule"] = ("configurations: shapes (tables per sheet) x table-name modes (unique / repeated across sheets / shared with the "
                         "first sheet / pool incl. a table named like a sheet) x header modes (none / unique / per-sheet / same everywhere / "
                         "row-column clash / duplicates / empty / pool with operator and quote characters); per configuration host x target "
                         "pairs (all when few) x single cells (4 mark combinations), rectangles (16), row spans, column spans, one-coordinate "
                         "nodes, hosts over the 4x4 body; malformed nodes for error behaviour. non-trivial = the implementation printed a text; "
                         "distinct by (configuration, host, target, host cell, node)")
    cr = common.coq_check_props("C09", clean=not ctx.quick)
    ctx.coq = cr
    ctx.theorems = cr.theorems
    if not cr.ok:
        ctx.obligation_errors += cr.errors
    if not ctx.quick:
        ctx.extra["coqchk"] = common.coqchk("C09")
        if ctx.extra["coqchk"]["exit"] != 0:
            ctx.obligation_errors.append("coqchk failed: " + ctx.extra["coqchk"]["tail"])
    try:
        exe = common.build_model(ENTRY)
    except RuntimeError as e:
        ctx.obligation_errors.append(str(e))
        exe = None
    pool = DocPool()
    ctx.pool = pool
    recorded = []
    fails = []
    rng = ctx.rng
    per_shape = 9 if ctx.quick else 5
    for shape in shapes_for(ctx):
        ntab = sum(shape)
        for k in range(per_shape):
            nm = NAME_MODES[k % len(NAME_MODES)]
            hm = (HEADER_MODES + ["mixed"] * 4)[(k * 3 + ntab) % (len(HEADER_MODES) + 4)]
            cfg = gen_cfg(rng, shape, nm, hm)
            ctx.dist("names:" + nm)
            ctx.dist("headers:" + hm)
            ctx.dist("tables:%d" % ntab)
            fails += run_config(ctx, pool, exe, cfg, "refs", pair_limit=12 if ctx.quick else 16,
                                budget=pair_budget(ctx), malformed=6, record=recorded if k % 2 == 0 else None)
    if exe:
        step = max(1, len(recorded) // (3000 if ctx.quick else 20000))
        resolver_stream(ctx, exe, recorded[::step])
    fails += edit_stream(ctx, pool, 16 if ctx.quick else 64)
    fails += resize_stream(ctx, pool, 12 if ctx.quick else 80)
    fails += fixture_rename_stream(ctx)
    fails += rename_scope_oracle(ctx)
    for sig, case, detail in fails:
        ctx.oracle_fail(sig, case, detail)
    return common.finish(ctx, search)


def search(ctx: Ctx, broken) -> list:
    """Witness search: the implementation-only oracle on the disagreeing cases and on a denser stream."""
    pool = getattr(ctx, "pool", None) or DocPool()
    found = []
    for stream, case, m, i in ctx.disagreements:
        if isinstance(case, dict) and "node" in case and case.get("intent") is not None:
            res = check_case(pool, case)
            if res:
                found.append((res[0], case, res[1]))
    rng = ctx.rng
    for shape in [(2,), (3,), (2, 2), (1, 2, 1), (3, 3)]:
        for k in range(10):
            cfg = gen_cfg(rng, shape, NAME_MODES[k % 4], None)
            found += run_config(ctx, pool, None, cfg, "search", pair_limit=12, budget=80)
            if len(found) > 40:
                return found
    return found


def check_case(pool, case):
    if "rename_scope" in case:
        sub = common.Ctx("C09", "quick", 0, LEVEL)
        try:
            hits = [f for f in rename_scope_oracle(sub) if f[1]["rename_scope"] == case["rename_scope"]]
        finally:
            sub.cleanup()
        return (hits[0][0], hits[0][2]) if hits else None
    if "rename" in case:
        sub = common.Ctx("C09", "quick", 0, LEVEL)
        try:
            hits = [f for f in fixture_rename_stream(sub, (case["fixture"],)) if f[1]["rename"] == case["rename"]]
        finally:
            sub.cleanup()
        return (hits[0][0], hits[0][2]) if hits else None
    cfg = case["cfg"]
    if "resize" in case:
        nd = denode(case["node"])
        stale, fresh = resize_probe(pool, cfg, case["resize"], case["at"], [(case["hrow"], case["hcol"], nd)])[0]
        if stale != fresh:
            return (f"stale-name-cache:{case['resize']}", f"after the resize {stale!r}, after a cache refresh {fresh!r}")
        return None
    doc, tables = pool.apply(cfg)
    host = tuple(case["host"])
    tgt = None if case["tgt"] is None else tuple(case["tgt"])
    nd = denode(case["node"])
    if "edit" in case:
        pool.apply(case["before"])
        impl_texts(pool, doc, tables, host, tgt, [(case["hrow"], case["hcol"], nd)])
        pool.apply(cfg, mark_dirty=False, only=case["edit"])
        stale = impl_texts(pool, doc, tables, host, tgt, [(case["hrow"], case["hcol"], nd)])[0][0]
        doc._model.name_ref_cache.mark_dirty()
        fresh = impl_texts(pool, doc, tables, host, tgt, [(case["hrow"], case["hcol"], nd)])[0][0]
        if stale != fresh:
            return (f"stale-name-cache:{case['edit']}", f"after the edit {stale!r}, after a cache refresh {fresh!r}")
        return None
    a, b = impl_texts(pool, doc, tables, host, tgt, [(case["hrow"], case["hcol"], nd)])[0]
    if b is not None and a != b:
        return ("cell-formula-differs", f"Cell.formula gave {b!r}, node_to_ref+str gave {a!r}")
    return oracle_item(cfg, host, tgt, tuple(case["intent"]), a)


def denode(nd):
    """JSON lists back to the tuple form of a node descriptor"""
    if nd[0] == "c":
        return ("c", None if nd[1] is None else tuple(nd[1]), None if nd[2] is None else tuple(nd[2]))
    return ("t", nd[1], nd[2], nd[3], nd[4]) + tuple([tuple(e) for e in lst] for lst in nd[5:9])


def replay(path: str) -> int:
    d = json.loads(open(path).read())
    if d.get("kind") == "failing-input":
        res = check_case(DocPool(), d["case"])
        if res:
            print(f"replay: still failing [{res[0]}]: {res[1]}")
            print(f"VIOLATION property=C09 replay={path}")
            return 1
        print("replay: case passes on the current tree")
        return 0
    print("replay: no failing input was recorded; broken obligations/correspondences were:")
    print(json.dumps(d.get("broken"), indent=1)[:4000])
    return 1
