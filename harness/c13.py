"""C13 - displayed numbers agree numerically with the stored value.

Theorems: coq/Props/C13.v over coq/Model/Digits.v + NumFormat.v.
Correspondence: the extracted model against Table.set_cell_formatting + Cell.formatted_value on one
re-used in-memory table (every built-in number format, all option combinations sampled per value),
the model's binary64 conversion against float.hex(), the model's readers against independent Python
readers on the implementation's own output.
Oracle (implementation only): parse the displayed text back and compare with
decimal.Decimal(repr(value)) rounded at the displayed precision (half-up or half-even on exact ties).
"""
from __future__ import annotations

import json
import re
import warnings
from decimal import ROUND_HALF_DOWN, ROUND_HALF_EVEN, ROUND_HALF_UP, Decimal, localcontext
from fractions import Fraction

from . import common
from .common import Ctx

LEVEL = "proof"
ENTRY = "C13Entry"
AUTO = None  # decimal_places=None


# ------------------------------------------------------------------ implementation driver
class Impl:
    """One Document, one table, one cell that is overwritten for every (value, format) pair."""

    def __init__(self):
        import numbers_parser as np_
        from numbers_parser import Document
        from numbers_parser.constants import FractionAccuracy, NegativeNumberStyle
        from numbers_parser.currencies import CURRENCIES, CURRENCY_SYMBOLS
        self.NS = NegativeNumberStyle
        self.FA = {int(x): x for x in FractionAccuracy}
        self.fa_list = [int(x) for x in FractionAccuracy]
        self.symbols = dict(CURRENCY_SYMBOLS)
        self.currencies = list(CURRENCIES)
        self.doc = Document()
        self.table = self.doc.sheets[0].tables[0]
        # sigfig resets the warnings filters on every call; silence the printing instead
        warnings.showwarning = lambda *a, **k: None

    def show(self, value, typ, **kw):
        try:
            self.table.write(0, 0, value)
            self.table.set_cell_formatting(0, 0, typ, **kw)
            cell = self.table.cell(0, 0)
            text = cell.formatted_value
            if cell.value != value and not (cell.value != cell.value and value != value):
                # formatting is decoration: it does not change what the cell holds (the display is compared with the
                # value that was written)
                return f"!VALUE-CHANGED to {cell.value!r} (displayed {text!r})"
            return text
        except Exception as e:  # noqa: BLE001
            return "!" + type(e).__name__

    def run_after(self, first, case):
        """The display of `case` on a cell that was formatted as `first` and read before (the same cell object)."""
        got = []
        real_show = self.show

        def capture(value, typ, **kw):
            got.append((value, typ, kw))
            return ""
        self.show = capture
        try:
            self.run(first)
            self.run(case)
        finally:
            self.show = real_show
        if len(got) != 2:
            return "!harness"
        (v1, t1, k1), (v2, t2, k2) = got
        try:
            self.table.write(0, 0, v2)
            self.table.set_cell_formatting(0, 0, t1, **k1)
            _ = self.table.cell(0, 0).formatted_value
            self.table.set_cell_formatting(0, 0, t2, **k2)
            return self.table.cell(0, 0).formatted_value
        except Exception as e:  # noqa: BLE001
            return "!" + type(e).__name__

    def run_tables(self, plan):
        """plan = [(table index, case)]: one document with three tables (two of them added through add_table); every
        step writes the case's value into the next free row of its table and formats it.  Returns the displays, read
        after the last step, in plan order."""
        from numbers_parser import Document
        got = []
        real_show = self.show

        def capture(value, typ, **kw):
            got.append((value, typ, kw))
            return ""
        self.show = capture
        try:
            for _, case in plan:
                self.run(case)
        finally:
            self.show = real_show
        if len(got) != len(plan):
            return ["!harness"] * len(plan)
        doc = Document(num_rows=len(plan) + 1, num_cols=2)
        sheet = doc.sheets[0]
        tables = [sheet.tables[0], sheet.add_table("Second", num_rows=len(plan) + 1, num_cols=2),
                  sheet.add_table("Third", num_rows=len(plan) + 1, num_cols=2)]
        rows = [0, 0, 0]
        where = []
        for (ti, _), (value, typ, kw) in zip(plan, got):
            try:
                tables[ti].write(rows[ti], 0, value)
                tables[ti].set_cell_formatting(rows[ti], 0, typ, **kw)
                where.append((ti, rows[ti]))
            except Exception as e:  # noqa: BLE001
                where.append("!" + type(e).__name__)
            rows[ti] += 1
        out = []
        for w in where:
            if isinstance(w, str):
                out.append(w)
                continue
            try:
                out.append(tables[w[0]].cell(w[1], 0).formatted_value)
            except Exception as e:  # noqa: BLE001
                out.append("!" + type(e).__name__)
        return out

    def run(self, case):
        kind, v = case[0], dec_val(case[1])
        if kind == "num":
            _, _, p, sep, ns = case
            return self.show(v, "number", decimal_places=p, show_thousands_separator=bool(sep), negative_style=self.NS(ns))
        if kind == "pct":
            _, _, p, sep, ns = case
            return self.show(v, "percentage", decimal_places=p, show_thousands_separator=bool(sep), negative_style=self.NS(ns))
        if kind == "cur":
            _, _, p, sep, ns, acct, code = case
            return self.show(v, "currency", decimal_places=p, show_thousands_separator=bool(sep), negative_style=self.NS(ns),
                             use_accounting_style=bool(acct), currency_code=code)
        if kind == "sci":
            return self.show(v, "scientific", decimal_places=case[2])
        if kind == "bas":
            _, _, b, p, minus = case
            return self.show(v, "base", base=b, base_places=p, base_use_minus_sign=bool(minus))
        if kind == "fra":
            return self.show(v, "fraction", fraction_accuracy=self.FA[case[2]])
        if kind == "rat":
            return self.show(v, "rating")
        raise ValueError(kind)


def enc_val(v) -> str:
    return ("i:" if isinstance(v, int) else "f:") + repr(v)


def dec_val(s: str):
    return int(s[2:]) if s.startswith("i:") else float(s[2:])


def pl(p) -> str:
    return "a" if p is None else str(p)


def request(case) -> str:
    kind, v = case[0], dec_val(case[1])
    sv = repr(v)
    if kind == "num":
        return f"num\t{sv}\t{pl(case[2])}\t{case[3]}\t{case[4]}"
    if kind == "pct":
        return f"pct\t{repr(v * 100)}\t{pl(case[2])}\t{case[3]}\t{case[4]}"   # the product is Python's (trusted base)
    if kind == "cur":
        return f"cur\t{sv}\t{pl(case[2])}\t{case[3]}\t{case[4]}\t{case[5]}\t{case[6]}"
    if kind == "sci":
        return f"sci\t{sv}\t{pl(case[2])}"
    if kind == "bas":
        return f"bas\t{sv}\t{case[2]}\t{case[3]}\t{case[4]}"
    if kind == "fra":
        return f"fra\t{sv}\t{case[2]}"
    if kind == "rat":
        return f"rat\t{sv}"
    raise ValueError(kind)


def model_text(line: str) -> str:
    """modelrun output (latin-1 view of UTF-8 bytes) -> text"""
    try:
        return line.encode("latin-1").decode("utf-8")
    except UnicodeError:
        return line


# ------------------------------------------------------------------ independent readers (Python)
def strip_currency(text: str, code: str, symbols: dict):
    sym = symbols.get(code, code + " ")
    if not text.startswith(sym):
        return None
    rest = text[len(sym):]
    acct = rest.startswith("\t")
    return rest[1:] if acct else rest, acct


NUM_RE_SEP = re.compile(r"^(\d{1,3}(?:,\d{3})*)(?:\.(\d+))?$")
NUM_RE = re.compile(r"^(\d+)(?:\.(\d+))?$")
REPR_E = re.compile(r"^(\d)(?:\.(\d+))?e([+-]\d{2,})$")


def read_decimal_body(body: str, sep: bool):
    """'-1,234.50' / '(1.5)' / '12%' already stripped of % -> (shown_negative, Decimal, ndecimals) or None"""
    neg = False
    if body.startswith("(") and body.endswith(")"):
        neg, body = True, body[1:-1]
    if body.startswith("-"):
        if neg:
            return None
        neg, body = True, body[1:]
    m = (NUM_RE_SEP if sep else NUM_RE).match(body)
    if m:
        ip, fp = m.group(1).replace(",", ""), m.group(2) or ""
        if len(ip) > 1 and ip[0] == "0":
            return None
        return neg, Decimal(ip + ("." + fp if fp else "")), len(fp)
    m = REPR_E.match(body)
    if m and not sep:
        return neg, Decimal(body), None
    return None


def round_dec(d: Decimal, places: int, mode) -> Decimal:
    with localcontext() as c:
        c.prec = 400
        return d.quantize(Decimal(1).scaleb(-places), rounding=mode)


def round_sig_dec(d: Decimal, sig: int, mode) -> Decimal:
    if d == 0:
        return d
    with localcontext() as c:
        c.prec = 400
        return d.quantize(Decimal(1).scaleb(d.adjusted() - sig + 1), rounding=mode)


def exact(v) -> Decimal:
    return Decimal(repr(v))


def sig_digits(d: Decimal) -> int:
    return len(d.normalize().as_tuple().digits) if d != 0 else 1


# ------------------------------------------------------------------ oracle
def magnitude_class(v) -> str:
    a = abs(exact(v))
    if a == 0:
        return "zero"
    if a < Decimal("0.5"):
        return "lt0.5"
    if a < 1:
        return "lt1"
    return "ge1"


def sign_class(v) -> str:
    return "neg" if v < 0 else "nonneg"


def oracle_case(im: Impl, case, text: str):
    """C13 stated on one (value, format) pair and the text the implementation displays.
    Returns None or (signature, detail).  No model involved."""
    kind, v = case[0], dec_val(case[1])
    d = exact(v)
    if text.startswith("!VALUE-CHANGED"):
        return ("value-changed-by-formatting", f"{case}: after set_cell_formatting the cell reports its value as {text[15:]}")
    if text.startswith("!"):
        return _expected_exception(im, case, text)
    if kind in ("num", "pct", "cur"):
        return _oracle_decimal(im, case, v, d, text)
    if kind == "sci":
        return _oracle_sci(case, v, d, text)
    if kind == "bas":
        return _oracle_base(case, v, d, text)
    if kind == "fra":
        return _oracle_fraction(case, v, d, text)
    if kind == "rat":
        if isinstance(v, int) and 0 <= v:
            if text != "★" * v:
                return ("rating", f"rating of {v} shows {text!r}")
        return None
    return None


def _expected_exception(im: Impl, case, text):
    kind = case[0]
    if kind == "cur" and case[6] not in im.currencies and text == "!TypeError":
        return None
    if kind == "bas":
        b, minus = case[2], case[4]
        if text == "!TypeError" and ((not minus and b not in (2, 8, 16)) or b < 2 or b > 36):
            return None
    return (f"{kind}:raises", f"{case} raised {text[1:]}")


def _sig(kind, what, v, extra=""):
    return f"{kind}:{what}:{sign_class(v)}:{magnitude_class(v)}{extra}"


def _oracle_decimal(im: Impl, case, v, d, text):
    kind = case[0]
    p, sep, ns = case[2], bool(case[3]), case[4]
    acct = False
    body = text
    if kind == "cur":
        r = strip_currency(text, case[6], im.symbols)
        if r is None:
            return (_sig(kind, "symbol", v), f"{case}: {text!r} does not start with the currency symbol")
        body, acct = r
        if acct != bool(case[5]):
            return (_sig(kind, "accounting-layout", v), f"{case}: {text!r}")
        if p is None:
            p = 2
    target = d
    if kind == "pct":
        target = d * 100
    style = f":acct{int(acct)}" if kind == "cur" else ""
    if kind == "pct":
        # '%' is inside the parentheses
        inner = body
        par = inner.startswith("(") and inner.endswith(")")
        if par:
            inner = inner[1:-1]
        if not inner.endswith("%"):
            return (_sig(kind, "no-percent-sign", v, style), f"{case}: {text!r}")
        inner = inner[:-1]
        body = "(" + inner + ")" if par else inner
    rd = read_decimal_body(body, sep)
    if rd is None:
        return (_sig(kind, "malformed", v, style), f"{case}: cannot read {text!r} as a decimal number")
    shown_neg, shown, ndec = rd
    # precision
    if p is not None:
        if ndec != p:
            return (_sig(kind, "decimals", v, style + f":sep{int(sep)}"),
                    f"{case}: {text!r} shows {ndec} decimals, {p} asked for")
        lo, hi = sorted((round_dec(abs(target), p, ROUND_HALF_UP), round_dec(abs(target), p, ROUND_HALF_DOWN)))
        ok = shown in (lo, hi)
    else:
        want = round_sig_dec(abs(target), 15, ROUND_HALF_UP)
        ok = shown == want or shown == round_sig_dec(abs(target), 15, ROUND_HALF_EVEN)
        if ok and ndec is not None and ndec > 1 and str(shown).endswith("0"):
            return (_sig(kind, "trailing-zeros", v, style), f"{case}: {text!r} automatic places with trailing zeros")
        lo = want
    if not ok:
        if p is None and isinstance(v, float) and ndec == 0 and shown >= 10 ** 15 \
                and round_sig_dec(shown, 15, ROUND_HALF_EVEN) == round_sig_dec(abs(target), 15, ROUND_HALF_EVEN):
            # known class: automatic places print int(float) in full - digits beyond the 15th are artefacts of
            # binary64 (of the value above 2^53, of the product value*100 for percentages)
            return ("auto-integer:over-15-digits", f"{case}: {text!r} reads {shown}, the value is {target}")
        return (_sig(kind, "digits", v, style), f"{case}: {text!r} reads {shown}, value {target} rounds to {lo}")
    # sign: a shown non-zero number carries the sign unless the style is RED (colour only)
    want_neg = v < 0
    if shown != 0:
        red_only = ns == 1 and not (kind == "cur" and acct)
        if red_only:
            if shown_neg:
                return (_sig(kind, "sign", v, style), f"{case}: {text!r} shows a sign under the RED style")
        elif shown_neg != want_neg:
            return (_sig(kind, "sign", v, style), f"{case}: {text!r} sign does not match the value")
        elif want_neg:
            # documented decoration: MINUS -> minus sign; PARENTHESES styles and accounting -> parentheses
            parens = ns >= 2 or (kind == "cur" and acct)
            has_paren = body.startswith("(")
            has_minus = body.lstrip("(").startswith("-")
            if parens != has_paren or parens == has_minus:
                return (_sig(kind, "negative-style", v, style), f"{case}: {text!r} does not follow negative style {ns}")
    elif shown_neg and not want_neg and not (v == 0 and str(v).startswith("-")):
        return (_sig(kind, "sign", v, style), f"{case}: {text!r} negative zero for a non-negative value")
    return None


SCI_RE = re.compile(r"^(-?)(\d)(?:\.(\d+))?E([+-])(\d{2,})$")


def _oracle_sci(case, v, d, text):
    p = 253 if case[2] is None else case[2]
    m = SCI_RE.match(text)
    if not m:
        return (_sig("sci", "malformed", v), f"{case}: {text!r}")
    neg, d0, fp, xs, xd = m.group(1) == "-", m.group(2), m.group(3) or "", m.group(4), int(m.group(5))
    if len(fp) != p:
        return (_sig("sci", "decimals", v), f"{case}: {text!r} shows {len(fp)} decimals, {p} asked for")
    x = xd if xs == "+" else -xd
    shown = Decimal(d0 + ("." + fp if fp else "")).scaleb(x)
    if d == 0:
        return None if shown == 0 else (_sig("sci", "digits", v), f"{case}: {text!r}")
    if d0 == "0":
        return (_sig("sci", "not-normalised", v), f"{case}: {text!r}")
    if p + 1 >= sig_digits(d):
        # more digits asked for than the decimal has: the binary expansion is shown; compare at 15 digits
        ok = round_sig_dec(shown, 15, ROUND_HALF_EVEN) == round_sig_dec(abs(d), 15, ROUND_HALF_EVEN)
    else:
        # the stored binary value is rounded: on an exact decimal tie either neighbour is a correct rounding
        ok = shown in (round_sig_dec(abs(d), p + 1, ROUND_HALF_UP), round_sig_dec(abs(d), p + 1, ROUND_HALF_DOWN))
    if not ok:
        return (_sig("sci", "digits", v), f"{case}: {text!r} reads {shown} for {d}")
    if neg != (v < 0 or (v == 0 and str(v).startswith("-"))):
        return (_sig("sci", "sign", v), f"{case}: {text!r}")
    return None


DIGITS36 = "0123456789ABCDEFGHIJKLMNOPQRSTUVWXYZ"


def _oracle_base(case, v, d, text):
    _, _, b, places, minus = case
    extra = f":twos{int(not minus)}:places{int(places > 0)}"
    # on an exact tie either neighbouring integer is accepted
    ints = sorted({int(round_dec(d, 0, ROUND_HALF_UP)), int(round_dec(d, 0, ROUND_HALF_DOWN))})
    neg = text.startswith("-")
    body = text[1:] if neg else text
    if not body or any(c not in DIGITS36[:b] for c in body):
        return (_sig("bas", "malformed", v, extra), f"{case}: {text!r} is not a base-{b} number")
    u = int(body, b)
    fails = []
    for i in ints:
        if not minus and i < 0:
            # two's complement at the printed width: the leading 1 bit is the sign bit
            if neg:
                fails.append(("sign", "minus sign in two's complement"))
            elif u - (1 << u.bit_length()) != i:
                fails.append(("twos-complement", f"reads {u - (1 << u.bit_length())} at its printed width"))
            elif u.bit_length() < 32:
                fails.append(("twos-width", "narrower than 32 bits"))
            elif u.bit_length() != max(32, (-i - 1).bit_length() + 1):
                # "minimum 32-bit precision" (cell._twos_complement), otherwise the narrowest width that holds the value:
                # a wider print repeats the sign bit as an extra leading digit
                fails.append(("twos-width", f"printed at {u.bit_length()} bits, the narrowest width (at least 32) is {max(32, (-i - 1).bit_length() + 1)}"))
            else:
                return None
            continue
        got = -u if neg else u
        natural = len(body.lstrip("0")) or 1
        if got != i:
            fails.append(("digits", f"reads {got}"))
        elif len(body) != max(places, natural):
            fails.append(("padding", f"has {len(body)} digits, expected {max(places, natural)}"))
        elif neg and got == 0:
            fails.append(("sign", "negative zero"))
        else:
            return None
    what, why = fails[0]
    return (_sig("bas", what, v, extra), f"{case}: {text!r} {why}, value {d}")


FRAC_RE = re.compile(r"^(-?)(?:(\d+)|(?:(\d+) )?(\d+)/(\d+))$")


def _oracle_fraction(case, v, d, text):
    acc = case[2]
    m = FRAC_RE.match(text)
    if not m:
        return (_sig("fra", "malformed", v, f":acc{acc & 0xFFFF}"), f"{case}: {text!r}")
    neg = m.group(1) == "-"
    if m.group(2) is not None:
        shown, den = Fraction(int(m.group(2))), None
    else:
        den = int(m.group(5))
        if den == 0:
            return (_sig("fra", "malformed", v), f"{case}: {text!r}")
        shown = Fraction(int(m.group(3) or 0)) + Fraction(int(m.group(4)), den)
    shown = -shown if neg else shown
    x = Fraction(d)
    err = abs(shown - x)
    slack = abs(x) / (1 << 51)
    if acc & 0xFF000000:
        maxd = 10 ** (0x100000000 - acc) - 1
        if den is not None and den > maxd:
            return (_sig("fra", "denominator", v), f"{case}: {text!r} denominator above {maxd}")
        best = min(abs(Fraction(round(x * q), q) - x) for q in range(1, maxd + 1))
        if err > best + slack:
            return (_sig("fra", "not-closest", v, f":digits{0x100000000 - acc}"),
                    f"{case}: {text!r} is {float(err):.3g} away from {d}, a closer fraction exists ({float(best):.3g})")
    else:
        if den is not None and den != acc:
            return (_sig("fra", "denominator", v), f"{case}: {text!r} denominator is not {acc}")
        if err > Fraction(1, 2 * acc) + slack:
            return (_sig("fra", "error", v, f":den{acc}"),
                    f"{case}: {text!r} is {float(err):.3g} away from {d}, more than 1/{2 * acc}")
    if neg and shown == 0:
        return (_sig("fra", "sign", v), f"{case}: {text!r}")
    return None


# ------------------------------------------------------------------ generators
def gen_values(ctx: Ctx, n: int):
    rng = ctx.rng
    out = []
    special = [0, 1, -1, 5, -5, 10, 999, 1000, -1000, 123456789, 10**15 - 1, -(10**15 - 1), 2**31, -2**31, -2**31 - 1,
               -2**32, -(2**49), -(2**49 + 1), -(2**49 + 3), -(2**49 - 1), 2**49 + 1,
               0.0, -0.0, 0.5, -0.5, 1.5, -1.5, 2.5, -2.5, 0.3, -0.3, 0.49, 0.004, -0.004, 0.005, -0.005, 999.995, -999.995,
               999.994, 0.995, 9.5, 99.5, 0.05, 0.95, 1e-05, -1e-05, 1.5e-07, 0.0001, 0.00012345, 1234.5678, -1234.5678,
               0.125, 0.375, 0.505, 1.15, 2.675, 1.005, 0.57, 0.58, 1.1, 3.14159, -3.14159, 0.99, 1.99, -0.99, 0.001,
               123456.789, 0.333333333333333, 0.666666666666667, 999999999999999.0, 99999999999999.9, 0.999999999999999,
               562949953421313.0, -562949953421313.0, 1e14, 123456789012345.0, 12345678.9012345]
    out += special
    while len(out) < n:
        c = rng.random()
        if c < 0.14:      # integers
            v = rng.randrange(-10 ** rng.randrange(1, 16), 10 ** rng.randrange(1, 16))
        elif c < 0.26:    # two-decimal prices
            v = float(f"{rng.randrange(0, 10 ** rng.randrange(1, 8))}.{rng.randrange(100):02d}")
        elif c < 0.40:    # powers of ten +- one unit of display
            k = rng.randrange(-6, 13)
            p = rng.randrange(0, 9)
            dv = Decimal(10) ** k + rng.choice([-1, 0, 1]) * Decimal(10) ** (-p) * rng.choice([1, 1, 5]) / rng.choice([1, 10])
            v = float(dv) if sig_digits(dv) <= 15 else float(Decimal(10) ** k)
        elif c < 0.55:    # exact ties at the display precision
            p = rng.randrange(0, 9)
            dv = (Decimal(rng.randrange(0, 10 ** rng.randrange(1, 6))) + Decimal("0.5")).scaleb(-p)
            v = float(dv)
        elif c < 0.63:    # binary fractions (ties for base / fraction formats)
            v = rng.randrange(-2 ** 20, 2 ** 20) / 2 ** rng.randrange(0, 8)
        elif c < 0.68:    # near powers of two (two's complement width)
            k = rng.randrange(28, 50)
            v = -(2 ** k + rng.choice([-2, -1, 0, 1, 2, 3]))
            if abs(v) >= 10 ** 15:
                v = -(2 ** 49 + 1)
        else:             # random decimals with at most 15 significant digits
            nd = rng.randrange(1, 16)
            e = rng.randrange(-nd - 6, 15 - nd + 1)
            v = float(f"{rng.randrange(10 ** (nd - 1), 10 ** nd)}e{e}")
        if isinstance(v, float) and (sig_digits(exact(v)) > 15 or abs(v) >= 1e15):
            continue
        if isinstance(v, float) and rng.random() < 0.35:
            v = -abs(v)
        out.append(v)
    return out[:n]


CODES_NO_SYMBOL = ["CHF", "SEK", "ZAR", "PLN", "AED", "XAU"]


def gen_cases(ctx: Ctx, im: Impl, values):
    rng = ctx.rng
    places_pool = list(range(0, 11)) + [None, None, None]
    codes = list(im.symbols) + CODES_NO_SYMBOL
    cases = []
    for v in values:
        ev = enc_val(v)
        for _ in range(2):
            cases.append(("num", ev, rng.choice(places_pool), rng.randrange(2), rng.randrange(4)))
        cases.append(("cur", ev, rng.choice(places_pool), rng.randrange(2), rng.randrange(4), rng.randrange(2),
                      rng.choice(codes) if rng.random() < 0.97 else rng.choice(["XXX", "ZZZ", "usd", ""])))
        cases.append(("pct", ev, rng.choice(places_pool), rng.randrange(2), rng.randrange(4)))
        cases.append(("sci", ev, rng.choice(list(range(0, 11)) + ([None] if rng.random() < 0.1 else [3]))))
        b = rng.choice([2, 8, 16, 10, 36, rng.randrange(2, 37)])
        minus = 1 if b not in (2, 8, 16) else rng.randrange(2)
        if rng.random() < 0.01:
            b, minus = rng.choice([(10, 0), (1, 1), (37, 1), (7, 0)])
        elif rng.random() < 0.06:
            b, minus = rng.choice([4, 32, 3, 5, 12, 20, 36]), 0      # two's complement asked for a base that has none
        cases.append(("bas", ev, b, rng.randrange(0, 9), minus))
        cases.append(("fra", ev, rng.choice(im.fa_list)))
        if isinstance(v, int) and -3 <= v <= 40 or (isinstance(v, float) and abs(v) < 30 and rng.random() < 0.2):
            cases.append(("rat", ev))
    for v in (6, 7, 12, 5, 0, -1, 7.0, 5.5, 100):
        cases.append(("rat", enc_val(v)))
    return cases


def option_sweep(im: Impl):
    """every option combination on a handful of values (decoration must not depend on the digits)"""
    cases = []
    vals = [1234567.891, -1234567.891, -0.004, 0.0, 999.995, -999.995, 5, -5, -1234.5, 0.5]
    for v in vals:
        ev = enc_val(v)
        for p in (0, 1, 2, 3, None):
            for sep in (0, 1):
                for ns in range(4):
                    cases.append(("num", ev, p, sep, ns))
                    cases.append(("pct", ev, p, sep, ns))
                    for acct in (0, 1):
                        cases.append(("cur", ev, p, sep, ns, acct, "EUR"))
    # automatic places of an integer-valued product with more than 15 digits (known finding auto-integer:over-15-digits)
    for v in (754499470762295.0, -900719925474100.0, 123456789012345.0, 76388793646236.1):
        for sep in (0, 1):
            cases.append(("pct", enc_val(v), None, sep, 0))
    for code in im.currencies:
        cases.append(("cur", enc_val(-1234.5), 2, 1, 0, 1, code))
        cases.append(("cur", enc_val(1234.5), None, 0, 2, 0, code))
    for v in (255, -255, 0.3, -0.3, -2.5, 35.5, -1, -(2 ** 31), -(2 ** 31 + 1), -(2 ** 49 + 1), 10 ** 15 - 1):
        for b in range(2, 37):
            for places in (0, 1, 4, 8):
                cases.append(("bas", enc_val(v), b, places, 1))
                if b in (2, 8, 16):
                    cases.append(("bas", enc_val(v), b, places, 0))
    for v in (0.5, -0.5, 1.5, -1.5, -2.0, -3, 0.99, 1.99, 0.505, 3.14159, -3.14159, 0.001, 123456.789, 7, 0, 0.333333333333333):
        for acc in im.fa_list:
            cases.append(("fra", enc_val(v), acc))
    return cases


# ------------------------------------------------------------------ readers cross-check
def reader_requests(cases, texts):
    """the model's readers on the implementation's output vs the Python readers above"""
    reqs, want, keep = [], [], []
    for case, t in zip(cases, texts):
        if t.startswith("!") or t == "":
            continue
        kind = case[0]
        if kind in ("num", "pct", "cur"):
            body = t
            if "e" in body:
                continue
            digits = "".join(c for c in body if c.isdigit() or c == ".")
            if not digits or digits.startswith("."):
                continue
            ip, _, fp = digits.partition(".")
            neg = "-" in body or "(" in body
            reqs.append("rbd\t" + common.cps(t))
            want.append(f"{'-' if neg else '+'}\t{int(ip + fp)}\t{len(fp)}")
            keep.append((kind, t))
        elif kind == "sci":
            m = SCI_RE.match(t)
            if not m:
                continue
            reqs.append("rbs\t" + common.cps(t))
            fp = m.group(3) or ""
            want.append(f"{'-' if m.group(1) else '+'}\t{int(m.group(2) + fp)}\t{len(fp)}\t{int(m.group(4) + m.group(5))}")
            keep.append((kind, t))
        elif kind == "fra":
            m = FRAC_RE.match(t)
            if not m:
                continue
            reqs.append("rbf\t" + common.cps(t))
            if m.group(2) is not None:
                w, a, b = int(m.group(2)), 0, 1
            else:
                w, a, b = int(m.group(3) or 0), int(m.group(4)), int(m.group(5))
            want.append(f"{'-' if m.group(1) else '+'}\t{w}\t{a}\t{b}")
            keep.append((kind, t))
        elif kind == "bas":
            b, minus = case[2], case[4]
            body = t[1:] if t.startswith("-") else t
            if any(c not in DIGITS36[:b] for c in body) or not body:
                continue
            v = dec_val(case[1])
            if not minus and v < 0 and int(body, b) > 0 and not t.startswith("-"):
                u = int(body, b)
                reqs.append(f"rbt\t{b}\t" + common.cps(t))
                want.append(str(u - (1 << u.bit_length())))
            else:
                reqs.append(f"rbb\t{b}\t" + common.cps(t))
                want.append(str(-int(body, b) if t.startswith("-") else int(body, b)))
            keep.append((kind, t))
    return keep, reqs, want


def b64_requests(values):
    cases, reqs, want = [], [], []
    for v in values:
        if isinstance(v, float) and v != 0 and abs(v) > 1e-290:
            n, d = abs(v).as_integer_ratio()
            # normalise to m * 2^e with 2^52 <= m < 2^53
            e = 0
            m = n
            if d > 1:
                e = -(d.bit_length() - 1)
            sh = m.bit_length() - 53
            if sh > 0:
                assert m % (1 << sh) == 0
                m >>= sh
                e += sh
            elif sh < 0:
                m <<= -sh
                e -= -sh
            cases.append(repr(v))
            reqs.append("b64\t" + repr(abs(v)))
            want.append(f"{m} {e}")
    return cases, reqs, want


# ------------------------------------------------------------------ run
def trusted(ctx: Ctx):
    common.standard_trusted_base(ctx, [
        "CPython float repr (shortest round-tripping digits) and str(int): the model's input is the digit string they produce",
        "CPython's binary64 product value*100 of the percentage branch: the harness passes repr(value*100) to the model",
        "decimal -> binary64 conversion is modelled (Digits.b64_of_rat: correctly rounded, normal range only) and tied to "
        "CPython's float() by the b64 stream against float.hex(); subnormal/overflowing values are outside the model",
        "repr(float(s)) returns the digits of s for a decimal s with <= 15 significant digits (DBL_DIG = 15): used for "
        "str(sigfig.round(x, sigfigs=15)) in the automatic-places branch; exercised by the correspondence",
        "sigfig 1.3.19 (round_by_decimals, decimate) is modelled arithmetically (NumFormat.v header), not verified",
        "fractions.Fraction.limit_denominator (CPython 3.12) is mirrored by NumFormat.limit_denominator (its termination, "
        "denominator bound and closest-fraction property are theorems about the mirror)",
        "Python's '%E' formatting of a float and Python's round() are modelled as exact round-half-even of the binary value "
        "(Digits.round_float / rne_div)",
        "tools/gen_c13.py: reads CURRENCY_SYMBOLS, CURRENCIES and the format constants (Gen/GenC13.v; tie c13_tables)",
        "negative style RED shows no sign in the text (the sign is a colour): text readers compare magnitudes for that style",
    ])
    ctx.assumptions += [
        "values: Python ints with |n| < 10^15 and floats with at most 15 significant digits, |x| < 10^15 (plus -0.0); "
        "floats below 1e-290 in magnitude (subnormal products) are outside the model",
        "decimal_places in 0..10 or None (automatic; 2 for currencies); base_places 0..8",
        "formats are evaluated on an open document (Table.write + set_cell_formatting + formatted_value); what a value "
        "becomes after save and reload is C01's property",
        "custom number formats (_decode_number_format) are not part of the property's built-in formats and are not modelled; "
        "only their last step _expand_quotes is (model + theorems + correspondence)",
        "star ratings: integer values 0 <= n (the control's domain)",
    ]
    ctx.extra["rule"] = (
        "per value (integers, 2-decimal prices, powers of ten +- one unit of display, exact ties, binary fractions, "
        "neighbours of powers of two, random <=15-digit decimals, specials incl. -0.0): 2 number, 1 currency, 1 percentage, "
        "1 scientific, 1 base, 1 fraction format with options drawn uniformly (places 0..10/auto, separator, 4 negative "
        "styles, accounting, 26 currency codes + invalid ones, bases 2..36, places 0..8, two's complement, 9 accuracies), "
        "plus a full option sweep on 10 values, every currency code, every base. non-trivial = the implementation displayed "
        "a text (not an exception); distinct by (stream, case)")


def run(ctx: Ctx) -> int:
    trusted(ctx)
    cr = common.coq_check_props("C13", clean=not ctx.quick)
    ctx.coq = cr
    ctx.theorems = cr.theorems
    if not cr.ok:
        ctx.obligation_errors += cr.errors
    if not ctx.quick:
        ctx.extra["coqchk"] = common.coqchk("C13")
        if ctx.extra["coqchk"]["exit"] != 0:
            ctx.obligation_errors.append("coqchk failed: " + ctx.extra["coqchk"]["tail"])
    try:
        exe = common.build_model(ENTRY)
    except RuntimeError as e:
        ctx.obligation_errors.append(str(e))
        exe = None
    im = Impl()
    nvals = 5500 if ctx.quick else 40000
    values = gen_values(ctx, nvals)
    cases = option_sweep(im) + gen_cases(ctx, im, values)
    texts = [im.run(c) for c in cases]
    for c in cases:
        ctx.dist(c[0])
    for v in values:
        ctx.dist("value:int" if isinstance(v, int) else "value:float")
    if exe:
        by_kind: dict[str, list[int]] = {}
        for i, c in enumerate(cases):
            by_kind.setdefault(c[0], []).append(i)
        for kind, idx in by_kind.items():
            kc = [cases[i] for i in idx]
            reqs = [request(c) for c in kc]
            outs = [texts[i] for i in idx]
            model_outs = common.run_model(exe, reqs)
            for c, m, o in zip(kc, model_outs, outs):
                ctx.count("format:" + kind)
                m = model_text(m)
                if not o.startswith("!"):
                    ctx.nontrivial(("format:" + kind, str(c)))
                if m != o:
                    ctx.disagree("format:" + kind, list(c), m, o)
            mid = len(kc) // 2
            ctx.sample({"stream": "format:" + kind, "case": list(kc[mid]), "model": model_text(model_outs[mid]), "impl": outs[mid]})
        keep, reqs, want = reader_requests(cases, texts)
        ctx.compare("readers", keep, reqs, want, exe)
        bc, reqs, want = b64_requests(values)
        ctx.compare("binary64", bc, reqs, want, exe)
        # _expand_quotes (anchored private function of the custom-format path) on quote-heavy strings
        from numbers_parser.cell import _expand_quotes
        q = chr(39)
        qs = ["", q, q * 2, q * 3, "a" + q + "b", q + "a" + q + "b", "a" + q * 2 + "b", q + "a" + q * 2 + "b" + q,
              "12" + q + "kg" + q, q + "$" + q + "1,234.50", "1" + q, q * 4]
        alpha = [q, q, "a", "1", ".", " ", "#", "0", ","]
        for _ in range(3000 if ctx.quick else 30000):
            qs.append("".join(ctx.rng.choice(alpha) for _ in range(ctx.rng.randrange(0, 9))))
        reqs = ["exq\t" + common.cps(x) if x else "exq" for x in qs]
        ctx.compare("expand_quotes", qs, reqs, [_expand_quotes(x) for x in qs], exe, nontrivial=lambda c, o: q in c)
    # implementation-only oracle
    for c, t in zip(cases, texts):
        ctx.count("oracle")
        try:
            res = oracle_case(im, c, t)
        except Exception as e:  # noqa: BLE001
            res = ("oracle-crash", f"{type(e).__name__}: {e} on {c} -> {t!r}")
        if res:
            ctx.oracle_fail(res[0], list(c), res[1])
    # a cell that was formatted and displayed before is formatted again: it shows what a freshly formatted cell shows
    # (number, percentage, scientific, base and fraction formats share the cell's number-format slot; a currency format has a
    # slot of its own, and the later of the two requests is the one displayed)
    slot = [i for i, c in enumerate(cases) if c[0] in ("num", "pct", "sci", "bas", "fra", "cur") and not texts[i].startswith("!")]
    rng = ctx.rng
    for _ in range(min(len(slot) // 2, 400 if ctx.quick else 4000)):
        i, j = rng.choice(slot), rng.choice(slot)
        first = (cases[i][0], cases[j][1]) + tuple(cases[i][2:])     # the other format, on the same value
        ctx.count("oracle-reformat")
        got = im.run_after(first, cases[j])
        if got != texts[j]:
            ctx.oracle_fail("reformatted-cell-shows-stale-text", {"first": list(first), "then": list(cases[j])},
                            f"formatted as {first}, displayed, formatted as {cases[j]}: shows {got!r}; a freshly formatted cell shows {texts[j]!r}")
    # the same formats requested in several tables of one document (format keys are per table): every cell shows what a
    # cell of a one-table document shows
    for _ in range(60 if ctx.quick else 600):
        pool = [rng.choice(slot) for _ in range(3)]
        plan = [(rng.randrange(3), cases[rng.choice(pool)]) for _ in range(rng.randrange(4, 9))]
        ctx.count("oracle-several-tables")
        got = im.run_tables(plan)
        want = [im.run(c) for _, c in plan]
        if got != want:
            k = next(i for i in range(len(plan)) if got[i] != want[i])
            ctx.oracle_fail("several-tables-display-differs", {"plan": [[ti, list(c)] for ti, c in plan]},
                            f"step {k} (table {plan[k][0]}, {plan[k][1]}) of {len(plan)} shows {got[k]!r}; alone in a document it shows {want[k]!r}")
    return common.finish(ctx, search)


def neighbours(case):
    """cases around a disagreeing one: other options, neighbouring values"""
    kind, ev = case[0], case[1]
    v = dec_val(ev)
    vals = {ev, enc_val(-v)}
    if isinstance(v, int):
        vals |= {enc_val(v + 1), enc_val(v - 1)}
    else:
        d = exact(v)
        for k in (0, 1, 2, 3):
            for s in (-1, 1):
                try:
                    w = float(round_dec(d, k, ROUND_HALF_UP) + s * Decimal(5).scaleb(-k - 1))
                    if sig_digits(exact(w)) <= 15:
                        vals.add(enc_val(w))
                except Exception:  # noqa: BLE001
                    pass
    out = []
    for e in vals:
        out.append((kind, e) + tuple(case[2:]))
        if kind in ("num", "pct"):
            for p in (0, 2, None):
                for sep in (0, 1):
                    for ns in range(4):
                        out.append((kind, e, p, sep, ns))
        if kind == "cur":
            for p in (0, 2):
                for sep in (0, 1):
                    for ns in range(4):
                        for acct in (0, 1):
                            out.append((kind, e, p, sep, ns, acct, case[6]))
        if kind == "bas":
            for places in (0, 4):
                out.append((kind, e, case[2], places, case[4]))
        if kind == "sci":
            for p in range(0, 6):
                out.append((kind, e, p))
    return out


def search(ctx: Ctx, broken) -> list:
    im = Impl()
    found = []
    cands = []
    for stream, case, m, i in ctx.disagreements:
        if stream.startswith("format:"):
            cands += neighbours(tuple(case))
    vals = gen_values(ctx, 20000 if ctx.quick else 100000)
    cands += gen_cases(ctx, im, vals)
    seen = set()
    for c in cands:
        if c in seen:
            continue
        seen.add(c)
        t = im.run(c)
        try:
            res = oracle_case(im, c, t)
        except Exception as e:  # noqa: BLE001
            res = ("oracle-crash", f"{type(e).__name__}: {e}")
        if res:
            found.append((res[0], list(c), res[1]))
            if len({f[0] for f in found}) > 12 or len(found) > 60:
                break
    return found


def replay(path: str) -> int:
    d = json.loads(open(path).read())
    if d.get("kind") == "failing-input":
        im = Impl()
        if isinstance(d["case"], dict) and "plan" in d["case"]:
            plan = [(ti, tuple(c)) for ti, c in d["case"]["plan"]]
            got, want = im.run_tables(plan), [im.run(c) for _, c in plan]
            print(f"replay: in one document with three tables: {got!r}; each alone: {want!r}")
            if got != want:
                print(f"VIOLATION property=C13 replay={path}")
                return 1
            print("replay: case passes on the current tree")
            return 0
        if isinstance(d["case"], dict) and "first" in d["case"]:
            first, then = tuple(d["case"]["first"]), tuple(d["case"]["then"])
            fresh, again = im.run(then), im.run_after(first, then)
            print(f"replay: {then} displays {fresh!r} on a fresh cell, {again!r} after {first}")
            if fresh != again:
                print(f"VIOLATION property=C13 replay={path}")
                return 1
            print("replay: case passes on the current tree")
            return 0
        case = tuple(d["case"])
        t = im.run(case)
        res = oracle_case(im, case, t)
        print(f"replay: {case} displays {t!r}")
        if res:
            print(f"replay: still failing: {res[1]}")
            print(f"VIOLATION property=C13 replay={path}")
            return 1
        print("replay: case passes on the current tree")
        return 0
    print("replay: no failing input was recorded; broken obligations/correspondences were:")
    print(json.dumps(d.get("broken"), indent=1)[:4000])
    return 1
