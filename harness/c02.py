"""C02 - re-saving an unmodified document preserves everything the library reads.

Theorems: coq/Props/C02.v (record / table-storage / string-key fixpoints).
Correspondence: every cell record of the fixtures decoded by the extracted
model and by Cell._from_storage (same view), re-encoded and cross-decoded.
Oracle (implementation only, carries the document-level claim): open ->
snapshot -> save -> reopen -> snapshot -> save -> reopen -> snapshot, with and
without calling the read-only accessors before saving."""
from __future__ import annotations

import json
import warnings
from pathlib import Path

from . import common
from .common import Ctx

LEVEL = "proof"
ENTRY = "C04Entry"
warnings.filterwarnings("ignore")


def fixture_paths():
    data = common.REPO / "tests" / "data"
    out = sorted(p for p in data.glob("*.numbers"))
    out.append(common.REPO / "src" / "numbers_parser" / "data" / "empty.numbers")
    return out


def open_doc(path):
    """Document or None when the file is unreadable / of an unsupported version."""
    from numbers_parser import Document
    with warnings.catch_warnings(record=True) as w:
        warnings.simplefilter("always")
        try:
            d = Document(path)
            _ = [t.num_rows for s in d.sheets for t in s.tables]
        except Exception:  # noqa: BLE001
            return None, "unreadable"
    if any("unsupported version" in str(x.message).lower() or "not tested" in str(x.message).lower() for x in w):
        return None, "unsupported-version"
    return d, ""


def fval(v):
    if isinstance(v, float):
        return "f:" + v.hex()
    return repr(v)


def get(f):
    try:
        return f()
    except Exception as e:  # noqa: BLE001
        return "!" + type(e).__name__


def style_view(c):
    """What the library reads of a cell's style (read on a document that is not saved afterwards)."""
    st = get(lambda: c.style)
    if isinstance(st, str) or st is None:
        return st
    return tuple(repr(get(lambda a=a: getattr(st, a))) for a in
                 ("name", "bold", "italic", "underline", "strikethrough", "font_name", "font_size", "font_color",
                  "bg_color", "alignment", "first_indent", "left_indent", "right_indent", "text_inset", "text_wrap"))


def snapshot(doc, touch_extra=False, with_styles=False):
    """Everything C02 lists, as a nested structure of plain values."""
    from numbers_parser.cell import ErrorCell, MergedCell
    snap = []
    for s in doc.sheets:
        tabs = []
        for t in s.tables:
            pivot = get(lambda: t._model.is_a_pivot_table(t._table_id))
            cells = []
            for row in t.rows():
                for c in row:
                    if isinstance(c, ErrorCell):
                        cells.append(("error-cell",))
                        continue
                    ent = {
                        "type": type(c).__name__,
                        "value": fval(get(lambda: c.value)),
                        "formula": get(lambda: c.formula) if get(lambda: c.is_formula) is True else None,
                        "formatted": get(lambda: c.formatted_value),
                        "bullets": get(lambda: c.bullets) if not isinstance(c, MergedCell) else None,
                        "hyperlinks": get(lambda: getattr(c, "hyperlinks", None)),
                        "merge": (get(lambda: c.is_merged), get(lambda: c.size), get(lambda: getattr(c, "rect", None))),
                        "style": style_view(c) if with_styles else None,
                    }
                    if touch_extra:
                        get(lambda: c.style)
                        get(lambda: c.border)
                    cells.append(tuple(sorted((k, repr(v)) for k, v in ent.items())))
            if touch_extra:
                for r in range(min(t.num_rows, 3)):
                    get(lambda: t.row_height(r))
                for c_ in range(min(t.num_cols, 3)):
                    get(lambda: t.col_width(c_))
            tabs.append({"name": t.name, "rows": t.num_rows, "cols": t.num_cols, "pivot": pivot is True,
                         "merge_ranges": get(lambda: t.merge_ranges), "cells": cells})
        snap.append({"sheet": s.name, "tables": tabs})
    return snap


def diff_snap(a, b):
    """First difference between two snapshots as (aspect, detail) or None."""
    if [s["sheet"] for s in a] != [s["sheet"] for s in b]:
        return "structure", f"sheets {[s['sheet'] for s in a]} -> {[s['sheet'] for s in b]}"
    for sa, sb in zip(a, b):
        if [t["name"] for t in sa["tables"]] != [t["name"] for t in sb["tables"]]:
            return "structure", f"tables of {sa['sheet']}: {[t['name'] for t in sa['tables']]} -> {[t['name'] for t in sb['tables']]}"
        for ta, tb in zip(sa["tables"], sb["tables"]):
            if ta["pivot"]:
                continue
            where = f"{sa['sheet']}/{ta['name']}"
            if (ta["rows"], ta["cols"]) != (tb["rows"], tb["cols"]):
                return "structure", f"{where}: {ta['rows']}x{ta['cols']} -> {tb['rows']}x{tb['cols']}"
            if ta["merge_ranges"] != tb["merge_ranges"]:
                return "merge", f"{where}: merge_ranges {ta['merge_ranges']} -> {tb['merge_ranges']}"
            for i, (ca, cb) in enumerate(zip(ta["cells"], tb["cells"])):
                if ca == cb or ca == ("error-cell",):
                    continue
                if cb == ("error-cell",):
                    return "type", f"{where} cell #{i}: became an error cell"
                da, db = dict(ca), dict(cb)
                for k in ("type", "value", "formula", "formatted", "bullets", "hyperlinks", "merge", "style"):
                    if da.get(k) != db.get(k):
                        r, c = divmod(i, max(ta["cols"], 1))
                        return k, f"{where} cell ({r},{c}): {k} {da.get(k)[:120]} -> {db.get(k)[:120]}"
    return None


def cycle(ctx: Ctx, name: str, src: Path, accessors: bool, cycles: int):
    """open -> (snapshot) -> save -> reopen -> snapshot ... ; reports the first difference."""
    d0, why = open_doc(src)
    if d0 is None:
        return why
    ref = snapshot(d0, with_styles=True)            # reference view of the source (separate open, never saved)
    cur, _ = open_doc(src)
    for k in range(cycles):
        if accessors:
            snapshot(cur, touch_extra=True)
        out = ctx.tmp / f"{name}_{int(accessors)}_{k}.numbers"
        with warnings.catch_warnings():
            warnings.simplefilter("ignore")
            try:
                cur.save(out)
            except Exception as e:  # noqa: BLE001
                ctx.oracle_fail(f"save-raises:{type(e).__name__}", {"fixture": name, "accessors": accessors, "cycle": k + 1},
                                f"save raised {type(e).__name__}: {e}")
                return "failed"
        nxt, why = open_doc(out)
        if nxt is None:
            ctx.oracle_fail("reopen-fails", {"fixture": name, "accessors": accessors, "cycle": k + 1}, f"saved copy {why}")
            return "failed"
        d = diff_snap(ref, snapshot(nxt, with_styles=True))
        ctx.count("oracle-cycle")
        if d:
            ctx.oracle_fail(f"{d[0]}-changed", {"fixture": name, "accessors": accessors, "cycle": k + 1},
                            f"{name} (accessors before save: {accessors}) cycle {k + 1}: {d[1]}")
            return "failed"
        # the copy that is saved next is opened afresh: the one just inspected has had its styles read
        cur, _ = open_doc(out)
        out.unlink(missing_ok=True)
    # the same Document object saved a second time (no reopen in between): the second file reads like the source too
    twice, _ = open_doc(src)
    try:
        with warnings.catch_warnings():
            warnings.simplefilter("ignore")
            a, b = ctx.tmp / f"{name}_twice_a.numbers", ctx.tmp / f"{name}_twice_b.numbers"
            twice.save(a)
            twice.save(b)
        nb, why = open_doc(b)
        d = ("reopen", why) if nb is None else diff_snap(ref, snapshot(nb, with_styles=True))
        ctx.count("oracle-cycle")
        if d:
            ctx.oracle_fail(f"{d[0]}-changed", {"fixture": name, "accessors": accessors, "cycle": "second save of the same object"},
                            f"{name}: the file written by a second save() of the same Document: {d[1]}")
            return "failed"
    except Exception as e:  # noqa: BLE001
        ctx.oracle_fail(f"save-raises:{type(e).__name__}", {"fixture": name, "accessors": accessors, "cycle": "second save of the same object"},
                        f"second save of the same object raised {type(e).__name__}: {e}")
        return "failed"
    finally:
        for q in (ctx.tmp / f"{name}_twice_a.numbers", ctx.tmp / f"{name}_twice_b.numbers"):
            q.unlink(missing_ok=True)
    ctx.nontrivial((name, accessors))
    return "ok"


def api_documents(ctx: Ctx):
    """Documents the library itself can produce through its editing API."""
    from datetime import datetime, timedelta
    from numbers_parser import Border, Document
    docs = []
    d = Document(num_rows=5, num_cols=4)
    t = d.sheets[0].tables[0]
    vals = ["text", 12, 0.11, True, datetime(2024, 2, 29, 13, 0, 1), timedelta(days=2, seconds=5), "", -7.25, 10 ** 14,
            datetime(2024, 7, 15, 12, 0, 0), datetime(2023, 10, 29, 1, 30, 0)]
    for i, v in enumerate(vals):
        t.write(i // 4 + 1, i % 4, v)
    t.merge_cells("A5:B5")
    d.add_sheet("Second", "Other", num_rows=3, num_cols=3)
    t2 = d.sheets[1].tables[0]
    for i, v in enumerate([timedelta(seconds=-1.25), timedelta(days=-3, seconds=-0.5), timedelta(milliseconds=-1),
                           timedelta(seconds=-59.999), timedelta(seconds=1.25), timedelta(days=-1)]):
        t2.write(1 + i // 3, i % 3, v)
    docs.append(("api-values", d))
    # merges covering whole rows and whole columns, data around them
    d = Document(num_rows=8, num_cols=3)
    t = d.sheets[0].tables[0]
    for r in range(8):
        for c in range(3):
            t.write(r, c, r * 10 + c if (r + c) % 2 else f"r{r}c{c}")
    t.merge_cells("A2:C3")
    t.merge_cells("A6:A8")
    docs.append(("api-full-width-merge", d))
    # merges anchored in the second tile of a tall table, text around them
    d = Document(num_rows=300, num_cols=3)
    t = d.sheets[0].tables[0]
    for r in (0, 3, 4, 255, 256, 258, 259, 260, 264, 270, 299):
        for c in range(3):
            t.write(r, c, f"r{r}c{c}")
    t.merge_cells("A260:B270")
    t.merge_cells("C257:C258")
    t.merge_cells("C2:C3")
    docs.append(("api-deep-merge", d))
    d = Document(num_rows=6, num_cols=5)
    t = d.sheets[0].tables[0]
    for r in range(1, 6):
        for c in range(5):
            t.write(r, c, (r * 1000 + c) / 8)
    t.set_cell_formatting(1, 0, "number", decimal_places=2, show_thousands_separator=True)
    t.set_cell_formatting(1, 1, "currency", currency_code="EUR", decimal_places=1)
    t.set_cell_formatting(1, 2, "percentage", decimal_places=0)
    t.set_cell_formatting(1, 3, "scientific", decimal_places=3)
    t.set_cell_formatting(2, 0, "base", base=16, base_places=4)
    t.set_cell_formatting(2, 1, "fraction", fraction_accuracy=None) if False else None
    st = d.add_style(name="Hot", bold=True, font_color=(200, 10, 10), bg_color=(240, 240, 10), font_size=14.0)
    t.set_cell_style(3, 1, st)
    t.set_cell_border(3, 2, "top", Border(2.0, (0, 0, 255), "dashes"))
    t.set_cell_border("D4", ["left", "right"], Border(1.0, (0, 128, 0), "solid"), 2)
    t.write(4, 0, datetime(2023, 12, 31, 23, 59, 59))
    t.set_cell_formatting(4, 0, "datetime", date_time_format="EEEE, d MMMM yyyy HH:mm")
    docs.append(("api-formats", d))
    d = Document(num_rows=300, num_cols=3)
    t = d.sheets[0].tables[0]
    for r in range(0, 300, 7):
        t.write(r, r % 3, f"row {r}" if r % 2 else r)
    docs.append(("api-tiles", d))
    out = []
    for name, doc in docs:
        p = ctx.tmp / f"{name}.numbers"
        doc.save(p)
        out.append((name, p))
    return out


def record_stream(ctx: Ctx, exe, paths):
    """Every stored cell record of the given documents: model decode == implementation decode;
    re-encoded by the implementation and decoded by the model: same view."""
    from numbers_parser import Document
    from numbers_parser.cell import Cell, _unpack_decimal128
    from .c04 import canon, impl_decode, model_decode_view
    seen = set()
    bufs = []
    reenc = []
    for name, p in paths:
        d, why = open_doc(p)
        if d is None:
            continue
        m = d._model
        for s in d.sheets:
            for t in s.tables:
                tid = t._table_id
                for rowbufs in m.storage_buffers(tid):
                    for b in rowbufs:
                        if b is None:
                            continue
                        b = bytes(b)
                        if b in seen:
                            continue
                        seen.add(b)
                        bufs.append(b)
                # re-encode what the library holds
                for row in t.rows():
                    for c in row:
                        if getattr(c, "_buffer", None) is None:
                            continue
                        try:
                            nb = c._to_buffer()
                        except Exception:  # noqa: BLE001
                            nb = None
                        if nb is not None and len(reenc) < 60000:
                            reenc.append((bytes(c._buffer), bytes(nb)))
    ctx.dist("distinct_fixture_records", len(bufs))
    mdec = common.run_model(exe, ["dec\t" + b.hex() for b in bufs])
    for b, line in zip(bufs, mdec):
        ctx.count("fixture-records/decode")
        mv = model_decode_view(line, _unpack_decimal128)
        iv = impl_decode_real(b)
        if canon_ids(mv) != canon_ids(iv):
            ctx.disagree("fixture-records/decode", b.hex(), canon_ids(mv), canon_ids(iv))
        else:
            ctx.nontrivial(("rec", b))
    # re-encoded records: the model's view of the new record has the same ids and kind as its view of the old one
    reenc = list({x for x in reenc})
    olds = common.run_model(exe, ["dec\t" + o.hex() for o, _ in reenc])
    news = common.run_model(exe, ["dec\t" + n.hex() for _, n in reenc])
    for (o, n), lo, ln in zip(reenc, olds, news):
        ctx.count("fixture-records/re-encode")
        vo, vn = model_decode_view(lo, _unpack_decimal128), model_decode_view(ln, _unpack_decimal128)
        if isinstance(vo, dict) and isinstance(vn, dict):
            a = {k: v for k, v in vo.items() if k.endswith("_id") and k != "_string_id"}
            b = {k: v for k, v in vn.items() if k.endswith("_id") and k != "_string_id"}
            ok = a == b and (vo["type"] == vn["type"] or {vo["type"], vn["type"]} == {0})
            if not ok:
                ctx.disagree("fixture-records/re-encode", o.hex(), json.dumps(a, sort_keys=True), json.dumps(b, sort_keys=True))
        elif vo != vn:
            ctx.disagree("fixture-records/re-encode", o.hex(), str(vo)[:200], str(vn)[:200])
    if bufs:
        ctx.sample({"stream": "fixture-records", "record": bufs[len(bufs) // 2].hex(), "model": mdec[len(bufs) // 2]})


def impl_decode_real(buf):
    from .c04 import impl_decode
    return impl_decode(buf)


def canon_ids(v):
    if isinstance(v, str):
        return v
    return json.dumps({k: (x.hex() if isinstance(x, float) else x) for k, x in v.items()}, sort_keys=True)


def run(ctx: Ctx) -> int:
    rng = ctx.rng
    common.standard_trusted_base(ctx, [
        "formulas, formats, rich text, styles and all other protobuf objects are copied through containers/iwafile on re-save (protobuf round trip incl. unknown fields is assumed, C05); for them the document-level snapshot comparison over the fixtures decides, not a theorem",
        "stub model object standing in for _NumbersModel when fixture records are decoded one by one",
    ])
    ctx.assumptions += ["cells the library warns it cannot write (formula-error cells) and pivot tables are excluded, as the property allows",
                        "documents that do not open or that warn about an unsupported Numbers version are not 'readable' in the property's sense"]
    ctx.extra["rule"] = ("every readable fixture under tests/data (quick: the 25 smallest + template), the bundled template and 3 API-built documents x accessors called / not called before saving x 2 "
                         "consecutive save/open cycles, full snapshot (sheets, tables, per cell type/value/formula/formatted_value/bullets/hyperlinks/merge) compared with the source; "
                         "all distinct stored cell records of those documents decoded by model and implementation. non-trivial = document survived both cycles / record decoded; distinct by document x mode / record")
    cr = common.coq_check_props("C02", clean=not ctx.quick)
    ctx.coq, ctx.theorems = cr, cr.theorems
    if not cr.ok:
        ctx.obligation_errors += cr.errors
    if not ctx.quick:
        ctx.extra["coqchk"] = common.coqchk("C02")
        if ctx.extra["coqchk"]["exit"] != 0:
            ctx.obligation_errors.append("coqchk failed: " + ctx.extra["coqchk"]["tail"])
    try:
        exe = common.build_model(ENTRY)
    except RuntimeError as e:
        ctx.obligation_errors.append(str(e))
        exe = None

    paths = [(p.stem, p) for p in fixture_paths()]
    readable, skipped = [], {}
    for name, p in paths:
        d, why = open_doc(p)
        if d is None:
            skipped[name] = why
        else:
            readable.append((name, p))
    ctx.dist("fixtures_readable", len(readable))
    ctx.dist("fixtures_skipped", len(skipped))
    ctx.extra["skipped_fixtures"] = skipped
    if ctx.quick:
        readable.sort(key=lambda x: x[1].stat().st_size if x[1].is_file() else 10 ** 9)
        chosen = readable[:25]
        if not any(n == "empty" for n, _ in chosen):
            chosen += [x for x in readable if x[0] == "empty"]
    else:
        chosen = readable
    docs = chosen + api_documents(ctx)
    if exe:
        record_stream(ctx, exe, docs)
    results = {}
    for name, p in docs:
        for acc in (False, True):
            results[f"{name}:{int(acc)}"] = cycle(ctx, name, p, acc, 2)
    if ctx.quick:
        # every other readable fixture once: one cycle, no accessors (the thorough tier does both modes, two cycles)
        for name, p in readable:
            if (name, p) not in chosen:
                results[f"{name}:0:1cycle"] = cycle(ctx, name, p, False, 1)
    # what is read must not depend on the time zone of the process: documents with date cells once more under a zone
    # that has daylight saving time (dates are stored as seconds from an epoch; a conversion through local time drifts)
    import os
    import time
    old_tz = os.environ.get("TZ")
    try:
        os.environ["TZ"] = "GMT0BST,M3.5.0/1,M10.5.0"
        time.tzset()
        for name, p in readable + [x for x in docs if x not in readable]:
            if name in ("test-custom-formats", "date_formats", "api-values"):
                results[f"{name}:dst-zone"] = cycle(ctx, name + "-dst", p, False, 2)
    finally:
        if old_tz is None:
            os.environ.pop("TZ", None)
        else:
            os.environ["TZ"] = old_tz
        time.tzset()
    ctx.dist("documents_cycled", len(docs))
    ctx.sample({"documents": [n for n, _ in docs][:12], "outcomes": dict(list(results.items())[:8])})
    return common.finish(ctx, search)


def search(ctx: Ctx, broken) -> list:
    sub = common.Ctx(ctx.prop, ctx.tier, ctx.seed + 1, LEVEL)
    for name, p in [(p.stem, p) for p in fixture_paths()]:
        cycle(sub, name, p, True, 1)
        if len(sub.oracle_failures) > 3:
            break
    out = list(sub.oracle_failures)
    sub.cleanup()
    return out


def replay(path: str) -> int:
    d = json.loads(open(path).read())
    if d.get("kind") == "failing-input":
        case = d["case"]
        sub = common.Ctx("C02", "quick", 0, LEVEL)
        cands = {p.stem: p for p in fixture_paths()}
        if case["fixture"] in cands:
            src = cands[case["fixture"]]
        else:
            src = dict(api_documents(sub))[case["fixture"]]
        cycle(sub, case["fixture"], src, case["accessors"], case["cycle"])
        fails = list(sub.oracle_failures)
        sub.cleanup()
        if fails:
            print(f"replay: still failing: {fails[0][2]}")
            print(f"VIOLATION property=C02 replay={path}")
            return 1
        print("replay: document passes on the current tree")
        return 0
    print("replay: no failing input was recorded; broken obligations/correspondences were:")
    print(json.dumps(d.get("broken"), indent=1)[:4000])
    return 1
