"""C18 - the formula tokenizer is lossless, total, and accepts every formula the reader emits.

Theorems: coq/Props/C18.v (model coq/Model/Tokenizer.v).
Correspondence: the extracted model against numbers_parser.tokenizer.Tokenizer on
  * every string of length <= 4 over a 33 symbol alphabet (thorough: + length 5 over 23 symbols),
  * every string of length <= 7 over {' " a : space}, random strings to length 40 (three generators),
  * every distinct formula the reader produces from the fixtures under tests/data and from
    documents written by the library in this run (raw and after formula.OPERATOR_MAP),
  * the two STRING_REGEXES / SN_RE / float() / str.isspace() against their scanners directly.
Oracle (implementation only): Ok or TokenizerError; token values concatenate to the input; a
token containing a quote is exactly the quoted string / quoted reference that an independent
hand-written scanner finds at the token's offset and every other token is quote-free;
reader-produced formulas are accepted."""
from __future__ import annotations

import itertools
import json
import re
import warnings
from pathlib import Path

from . import common
from .common import Ctx

LEVEL = "proof"
ENTRY = "C18Entry"
REQ = "tok"   # "pin" selects the model of the pinned (unrepaired) tree
PER_SIGNATURE = 4

ALPHA33 = list("AE10. +-*/^&=<>%×÷≥≤≠(){},;\"'#$!:")
ALPHA23 = list("AE1. +-*<>=%≥(){},;\"'#:")
QUOTE_ALPHA = list("'\"a: ")
# random generators: the alphabet above plus letters for TRUE/FALSE/inf/nan/error codes,
# digits, '_', 'e', '?', newline / tab / no-break space / ideographic space
WIDE = ALPHA33 + list("9TRUFALSNinfatyVD/?_e\n\t 　[]\\") + ["''", '""', "::", ">=", "<>", "1E", "1.5E", "#N/A", "#REF!", "TRUE"]
FRAGMENTS = ["1", "12", "1.5", ".5", "1E+3", "2.5E-7", "1E", "9.E", "A1", "$B$2", "A1:B2", "Table 1::A1", "Sheet 1::Table 1::C3",
             "SUM(", "IF(", "(", ")", "{", "}", ",", ";", "+", "-", "*", "/", "^", "&", "=", "<", ">", "<=", ">=", "<>", "%",
             "×", "÷", "≥", "≤", "≠", '"abc"', '"a""b"', '""', "'a b'", "'it''s'", "'a':'b'", "'a' : 'b'",
             "'x' :\t'y'", "#REF!", "#N/A", "#DIV/0!", "#NAME?", "#NULL!", "#NUM!", "#VALUE!", "TRUE", "FALSE", " ", "  ",
             "\n", "name", "inf", "nan", "1_0", "Infinity", "$", "!", ":", "::", "'", '"', "#",
             "true", "false", "True", "False", "TRUE ", "#ref!", "#n/a", "#N/A!", "sum(", "1e+3", "1e", "2E", "INF", "NaN", "0x1", "1,5", "1.5.2"]


# ---------------------------------------------------------------- implementation drivers
def impl():
    from numbers_parser import tokenizer
    return tokenizer


def tok_impl(T, s: str):
    """-> (canonical line, items or None, exception or None)"""
    try:
        items = T.Tokenizer(s).items
    except T.TokenizerError as e:
        return "!TokenizerError", None, e
    except IndexError as e:
        return "!CRASH:index", None, e
    except Exception as e:  # noqa: BLE001
        return "!CRASH:" + type(e).__name__, None, e
    return "OK " + "|".join(
        ".".join([str(ord(c)) for c in x.value]) + ":" + x.type + ":" + x.subtype for x in items), items, None


# ---------------------------------------------------------------- independent reference scanners (oracle)
def ref_dq_end(s: str, i: int):
    """End of the double-quoted string starting at s[i] == '"' by the spreadsheet rule: a doubled
    quote is a literal quote, the first undoubled quote closes.  None if unterminated."""
    j = i + 1
    n = len(s)
    while j < n:
        if s[j] == '"':
            if j + 1 < n and s[j + 1] == '"':
                j += 2
                continue
            return j + 1
        j += 1
    return None


def ref_name_ends(s: str, i: int):
    """All ends e such that s[i:e] is a quoted name: quote, (non-quote | doubled quote)*, quote."""
    ends = []
    j = i + 1
    n = len(s)
    while j < n:
        if s[j] == "'":
            ends.append(j + 1)
            if j + 1 < n and s[j + 1] == "'":
                j += 2
                continue
            break
        j += 1
    return ends


def ref_sq_end(s: str, i: int):
    """Longest e such that s[i:e] is  name (ws* ':' ws* name)*  - by exhaustive search, not greedy."""
    best = None
    todo = [e for e in ref_name_ends(s, i)]
    seen = set()
    while todo:
        e = todo.pop()
        if e in seen:
            continue
        seen.add(e)
        if best is None or e > best:
            best = e
        k = e
        while k < len(s) and s[k].isspace():
            k += 1
        if k < len(s) and s[k] == ":":
            k += 1
            while k < len(s) and s[k].isspace():
                k += 1
            if k < len(s) and s[k] == "'":
                todo += ref_name_ends(s, k)
    return best


def oracle_string(T, s: str, line=None, items=None, exc=None):
    """Implementation-only statement of C18 on one string.  -> (signature, detail) or None."""
    if line is None:
        line, items, exc = tok_impl(T, s)
    if items is None:
        if isinstance(exc, T.TokenizerError):
            return None
        return ("foreign-exception:" + type(exc).__name__,
                f"Tokenizer({s!r}) raised {type(exc).__name__}: {exc} (neither tokens nor TokenizerError)")
    vals = [x.value for x in items]
    if "".join(vals) != s:
        return ("lossy", f"Tokenizer({s!r}) token values {vals!r} do not concatenate to the input")
    if '"' in s or "'" in s:
        off = 0
        for x in items:
            v = x.value
            if '"' in v or "'" in v:
                if v[0] == '"':
                    end = ref_dq_end(s, off)
                elif v[0] == "'":
                    end = ref_sq_end(s, off)
                else:
                    return ("quoted-split", f"Tokenizer({s!r}): token {v!r} at offset {off} contains a quote but does not start with one")
                if end is None or s[off:end] != v:
                    exp = None if end is None else s[off:end]
                    return ("quoted-split", f"Tokenizer({s!r}): token {v!r} at offset {off}, the quoted text there is {exp!r}")
                if x.type != "OPERAND":
                    return ("quoted-split", f"Tokenizer({s!r}): quoted token {v!r} has type {x.type}")
            off += len(v)
    return None


SCOPE_BEFORE_QUOTE = re.compile(r"(?:[^-+*/^&=<>%×÷≥≤≠,;(){}'\"#]+::)+(?=')")


def accepted(T, s: str) -> bool:
    try:
        T.Tokenizer(s)
    except Exception:  # noqa: BLE001
        return False
    return True


def reader_signature(T, g: str, exc, label=None, container=False) -> str:
    """Defect class of a rejected reader formula: the rejection disappears when exactly the named
    construct is taken out of the text."""
    if not isinstance(exc, T.TokenizerError):
        return "reader-formula-foreign-exception:" + type(exc).__name__
    if container and label and label + "::" in g and accepted(T, g.replace(label + "::", "x::")):
        return "reader-formula-rejected:container-name-unquoted"  # table or sheet name  T#1::  Tom's::  printed bare
    if label and any(ch in label for ch in '"#{})') and label in g and accepted(T, g.replace(label, "x")):
        return "reader-formula-rejected:unquoted-special-name"   # header label  a#b  printed bare
    h = SCOPE_BEFORE_QUOTE.sub("", g)
    if h != g and accepted(T, h):
        return "reader-formula-rejected:scoped-quoted-name"      # Table 1::'a+b'
    h = g.replace("'''", "")
    if h != g and accepted(T, h):
        return "reader-formula-rejected:tripled-apostrophe-name"  # it'''s
    return "reader-formula-rejected"


def oracle_reader_formula(T, f: str, translate, label=None, container=False):
    """A formula text produced by the reader must be accepted, raw and as formula_tokens() feeds it."""
    for g in (f, f.translate(translate)):
        line, items, exc = tok_impl(T, g)
        if items is None:
            return (reader_signature(T, g, exc, label, container), f"reader produced {f!r}; Tokenizer({g!r}) raised {type(exc).__name__}: {exc}")
        r = oracle_string(T, g, line, items, exc)
        if r:
            return r
    return None


# ---------------------------------------------------------------- reader formulas
def fixture_formulas(ctx: Ctx):
    """{formula: [document, sheet, table, row, col]} over every fixture that opens."""
    from numbers_parser import Document
    forms: dict = {}
    opened = failed = 0
    root = common.REPO / "tests" / "data"
    with warnings.catch_warnings():
        warnings.showwarning = lambda *a, **k: None     # some fixtures reset the filters while loading
        for p in sorted(root.rglob("*.numbers")):
            warnings.simplefilter("ignore")
            try:
                doc = Document(str(p))
            except Exception:  # noqa: BLE001  documents that fail to open are skipped
                failed += 1
                continue
            opened += 1
            try:
                for sh in doc.sheets:
                    for tb in sh.tables:
                        for row in tb.iter_rows():
                            for c in row:
                                try:
                                    f = c.formula
                                except Exception:  # noqa: BLE001  (reader failures belong to C08/C09)
                                    continue
                                if f is not None and f not in forms:
                                    forms[f] = [str(p.relative_to(root)), sh.name, tb.name, c.row, c.col]
            except Exception:  # noqa: BLE001
                continue
    ctx.dist("fixture_documents_opened", opened)
    ctx.dist("fixture_documents_skipped", failed)
    return forms


LABELS = ["cats", "a+b", "x*y", "50%", "p&q", "a b", "2^n", "it's", "×", 'say "hi"', "a#b", "a{b", "a)b", "f(x", "x,y", "a:b", "1E"]


def written_recipe_formulas(recipe: dict, path: Path) -> dict:
    """One document written by the library and read back.  -> {formula: [table, row, col]}"""
    from numbers_parser import Document
    if recipe.get("container"):
        return written_container_formulas(recipe, path)
    label, dup = recipe["label"], recipe["duplicate_in_other_table"]
    doc = Document(num_header_rows=1, num_header_cols=1)
    t1 = doc.sheets[0].tables[0]
    t1.write(0, 1, "cats")
    t1.write(0, 2, "dogs")
    for r in range(1, 4):
        t1.write(r, 0, f"r{r}")
        for c in range(1, 3):
            t1.write(r, c, r * c)
    t2 = doc.sheets[0].add_table("Table 2")
    t2.write(0, 1, "x")
    for r, f in enumerate(["SUM(Table 1::cats)", "Table 1::cats", "SUM(Table 1::cats:dogs)", "Table 1::cats+1"], 1):
        t2.write(r, 1, 0)
        t2.cell(r, 1).formula = f
    # the label is renamed after the formulas exist (the tokenizer is also the formula writer)
    t1.write(0, 1, label)
    if dup:
        t2.write(0, 2, label)
    doc.save(str(path))
    back = Document(str(path))
    out = {}
    for tb in back.sheets[0].tables:
        for row in tb.iter_rows():
            for c in row:
                f = c.formula
                if f is not None and f not in out:
                    out[f] = [tb.name, c.row, c.col]
    return out


CONTAINER_NAMES = ["Totals", "Q1 2024", "a+b", "Tom's", 'T "x', "T#1", "T{", "T)", "P&L", "50%", "a:b", "x,y"]


def written_container_formulas(recipe: dict, path: Path) -> dict:
    """A document whose formulas point into another table (and into a table of another sheet); that table (sheet) is then
    given the name `label` - the reader prints the name in front of every such reference.  -> {formula: [table, row, col]}"""
    from numbers_parser import Document
    name, which = recipe["label"], recipe["container"]
    doc = Document(num_header_rows=1, num_header_cols=1)
    t1 = doc.sheets[0].tables[0]
    t2 = doc.sheets[0].add_table("Other")
    doc.add_sheet("Second", "Other")          # a table of the same name elsewhere: the sheet is printed too
    t3 = doc.sheets[1].tables[0]
    for t in (t2, t3):
        for r in range(1, 4):
            for c in range(1, 3):
                t.write(r, c, r * c)
    for r, f in enumerate(["SUM(Other::B2:B3)", "Other::B2+1", "SUM(Second::Other::B2:C3)", "Second::Other::C2&\"x\""], 1):
        t1.write(r, 1, 0)
        t1.cell(r, 1).formula = f
    if which == "table":
        t2.name = name
        t3.name = name
    else:
        doc.sheets[1].name = name
    doc.save(str(path))
    back = Document(str(path))
    out = {}
    for tb in back.sheets[0].tables:
        for row in tb.iter_rows():
            for c in row:
                f = c.formula
                if f is not None and f not in out:
                    out[f] = [tb.name, c.row, c.col]
    return out


def placeholder_formulas() -> dict:
    """What the reader prints for a stored formula it cannot fully decode (a function id it does not know, a formula key
    that is not in the table's formula store) - the way tests/test_formulas.py provokes them.  -> {formula: [why, fixture]}"""
    from numbers_parser import Document
    out = {}
    for fx in ("simple-func.numbers", "create-formulas.numbers"):
        p = common.REPO / "tests" / "data" / fx
        if not p.exists():
            continue
        doc = Document(str(p))
        for sh in doc.sheets:
            for tb in list(sh.tables)[:2]:
                bds = doc._model.objects[tb._table_id].base_data_store
                if not bds.formula_table.identifier:
                    continue
                for entry in doc._model.objects[bds.formula_table.identifier].entries[:12]:
                    for node in entry.formula.AST_node_array.AST_node:
                        if node.HasField("AST_function_node_index"):
                            node.AST_function_node_index = 999
                hit = 0
                for row in tb.iter_rows():
                    for c in row:
                        try:
                            f = c.formula
                        except Exception:  # noqa: BLE001
                            continue
                        if f is not None and "!" in f and f not in out:
                            out[f] = [{"label": None, "placeholder": "unknown function id"}, fx]
                        if f is not None and hit < 2:
                            hit += 1
                            c._formula_id = 999 + hit
                            try:
                                g = c.formula
                            except Exception:  # noqa: BLE001
                                continue
                            if g is not None and g not in out:
                                out[g] = [{"label": None, "placeholder": "missing formula key"}, fx]
    return out


STRING_LITERALS = ['he said "hi"', '""', '"', 'a""b"c', '"""', 'x"', "it's", "a,b", "a;b", "(", "{1,2}", "tab\there", "",
                   "=1+2", "'q'", 'a""""b', '6" x 2"" (w x h)', 'say "hi" twice: ""x', "a&b", 'q"&"r', "#REF!", "A1:B2", ")", "}", ":-)", "a}b", "))(", "{", "'", "a'b)"]


REJECTED_BY_WRITER: list = []


def written_string_formulas(path: Path) -> dict:
    """A document whose formulas carry string literals with quotes (single, doubled, runs, next to operators), written
    through cell.formula and read back.  -> {formula read: [written formula, row, col]}"""
    from numbers_parser import Document
    doc = Document()
    t = doc.sheets[0].tables[0]
    wrote = {}
    for i, s in enumerate(STRING_LITERALS):
        esc = s.replace('"', '""')
        for j, f in enumerate([f'LEN("{esc}")', f'B1&"{esc}"&"c"', f'IF(A1="{esc}","{esc}",1)']):
            t.write(i, j, 0)
            try:
                t.cell(i, j).formula = f
            except Exception as e:  # noqa: BLE001
                # the formula writer tokenizes its argument: a well-formed formula (quotes doubled inside literals) that it
                # refuses is a formula the reader would print for such a document and the tokenizer does not accept
                REJECTED_BY_WRITER.append((f, f"{type(e).__name__}: {e}"))
                continue
            wrote[(i, j)] = f
    doc.save(str(path))
    back = Document(str(path)).sheets[0].tables[0]
    out = {}
    for (i, j), f in wrote.items():
        g = back.cell(i, j).formula
        if g is not None and g not in out:
            out[g] = [f, i, j]
    return out


def relabelled_fixture_formulas(name: str, path: Path) -> dict:
    """A document written by Numbers (it holds reference kinds the library cannot write: absolute references to header
    labels, label spans, ...) whose header labels are changed through Table.write to labels with operator characters,
    read on the open document and again after save + reopen.  -> {formula: [fixture, new label, table, row, col]}"""
    from numbers_parser import Document
    doc = Document(str(common.REPO / "tests" / "data" / name))
    changed = []
    for sh in doc.sheets:
        for tb in sh.tables:
            nhr, nhc = tb.num_header_rows, tb.num_header_cols
            cells = [(r, c) for r in range(min(nhr, tb.num_rows)) for c in range(tb.num_cols)] + \
                    [(r, c) for r in range(nhr, tb.num_rows) for c in range(min(nhc, tb.num_cols))]
            for k, (r, c) in enumerate(cells[:60]):
                v = tb.cell(r, c).value
                if isinstance(v, str) and v and v[0] not in "=" and not any(ch in v for ch in "'\"#{}()"):
                    new = v.replace(" ", "-") if " " in v else v + "-" + "x+y"[k % 3]
                    tb.write(r, c, new)
                    changed.append(new)
    out = {}
    def collect(d, stage):
        for sh in d.sheets:
            for tb in sh.tables:
                for row in tb.iter_rows():
                    for c in row:
                        try:
                            f = c.formula
                        except Exception:  # noqa: BLE001  (reader failures belong to C08/C09)
                            continue
                        if f is not None and f not in out:
                            lab = next((x for x in changed if x in f), None)
                            out[f] = [{"label": lab, "fixture": name, "stage": stage}, tb.name, c.row, c.col]
    collect(doc, "open")
    doc.save(str(path))
    collect(Document(str(path)), "reopened")
    return out


def written_document_formulas(ctx: Ctx):
    """Documents written by the library in this run, then read back: references to header labels
    (plain, with operator characters, with spaces/apostrophes/other glyphs), unique and not unique
    across tables, so that the reader prints bare, quoted and table-scoped names.
    -> {formula: [recipe, table, row, col]}"""
    forms: dict = {}
    with warnings.catch_warnings():
        warnings.simplefilter("ignore")
        warnings.showwarning = lambda *a, **k: None
        for k, label in enumerate(LABELS):
            for dup in (False, True):
                recipe = {"label": label, "duplicate_in_other_table": dup}
                try:
                    got = written_recipe_formulas(recipe, ctx.tmp / f"c18_written_{k}_{int(dup)}.numbers")
                except Exception as e:  # noqa: BLE001  writer/reader failures are other properties' business
                    ctx.dist("written_document_recipe_failed")
                    ctx.notes.append(f"written-document recipe {recipe} failed: {type(e).__name__}: {e}"[:300])
                    continue
                for f, where in got.items():
                    forms.setdefault(f, [recipe] + where)
        for k, name in enumerate(CONTAINER_NAMES):
            for which in ("table", "sheet"):
                recipe = {"label": name, "container": which}
                try:
                    got = written_recipe_formulas(recipe, ctx.tmp / f"c18_container_{k}_{which}.numbers")
                except Exception as e:  # noqa: BLE001
                    ctx.dist("written_document_recipe_failed")
                    ctx.notes.append(f"written-document recipe {recipe} failed: {type(e).__name__}: {e}"[:300])
                    continue
                ctx.dist("container_name_formulas", len(got))
                for f, where in got.items():
                    forms.setdefault(f, [recipe] + where)
        for fx in (["create-formulas.numbers"] if ctx.quick else ["create-formulas.numbers", "issue-54.numbers", "test-all-formulas.numbers", "test-extra-formulas.numbers"]):
            if not (common.REPO / "tests" / "data" / fx).exists():
                continue
            try:
                got = relabelled_fixture_formulas(fx, ctx.tmp / f"c18_relabelled_{fx}")
            except Exception as e:  # noqa: BLE001
                ctx.dist("written_document_recipe_failed")
                ctx.notes.append(f"relabelled fixture {fx} failed: {type(e).__name__}: {e}"[:300])
                continue
            ctx.dist("relabelled_fixture_formulas", len(got))
            for f, where in got.items():
                forms.setdefault(f, where)
        try:
            got = placeholder_formulas()
        except Exception as e:  # noqa: BLE001
            ctx.dist("written_document_recipe_failed")
            ctx.notes.append(f"placeholder formulas failed: {type(e).__name__}: {e}"[:300])
            got = {}
        ctx.dist("placeholder_formulas", len(got))
        for f, where in got.items():
            forms.setdefault(f, where)
        recipe = {"label": None, "string_literals": True}
        try:
            got = written_string_formulas(ctx.tmp / "c18_written_strings.numbers")
        except Exception as e:  # noqa: BLE001
            ctx.dist("written_document_recipe_failed")
            ctx.notes.append(f"written-document recipe {recipe} failed: {type(e).__name__}: {e}"[:300])
            got = {}
        for f, where in got.items():
            forms.setdefault(f, [recipe] + where)
    return forms


# ---------------------------------------------------------------- generators
def exhaustive(alpha, maxlen, minlen=0):
    for n in range(minlen, maxlen + 1):
        for p in itertools.product(alpha, repeat=n):
            yield "".join(p)


def random_strings(ctx: Ctx, n: int):
    rng = ctx.rng
    out = []
    for i in range(n):
        k = i % 4
        if k == 0:
            s = "".join(rng.choice(ALPHA33) for _ in range(rng.randint(5, 40)))
        elif k == 1:
            s = "".join(rng.choice(WIDE) for _ in range(rng.randint(1, 30)))[:40]
        elif k == 2:
            s = "".join(rng.choice(["'", "'", '"', "a", ":", " ", "\t", "+", "''", '""', " ", "1"]) for _ in range(rng.randint(3, 24)))[:40]
        else:
            parts = [rng.choice(FRAGMENTS) for _ in range(rng.randint(1, 9))]
            s = "".join(parts)
            if rng.random() < 0.4 and s:   # one character mutation
                j = rng.randrange(len(s))
                s = s[:j] + rng.choice(ALPHA33 + ["", s[j].swapcase()]) + s[j + 1:]
            s = s[:60]
        out.append(s)
    return out


CORPUS = ["", ")", "}", "())", "{}}", "SUM(1))", "(", "((", "{(})", "(}", "{)", "#REF!+1", 'SUM(#N/A,"a""b")', "'a''b':'c'",
          "'a' : 'b'+1", "1.5E+3-2", "1E\n+1", "1E+", "1E-1E+1", "TRUE&FALSE", '"a"""', "'a''", "LEFT('", '"abc', "a'b'", "1+'x",
          "#FOO", "A1:B2 ", "≥", "1≥", "1≤≤", "<>", "<", ">=", "=>", " 1 ", "1 2", "inf", "-inf", "nan", "1_0", "1__0",
          "_1", "1e5", "1E5", ".5", "5.", ".", "1.E+1", "0E+1", "1.0E+1", "10E+1", "Table 1::'a+b'", "Table 1::'a+b':'a+b'",
          "it'''s", "A1,B2", "(A1,B2)", "SUM(A1,B2)", "{1,2;3,4}", "SUM({1,2},3)", "a%b", "-1", "--1", "1--1", ")-1", "%-1",
          "true", "True", "FALSE", "false", "TRUE ", "#ref!", "1e+3", "1E+3", "sum(1)", "\"x\"+1", "'x'+1", "#N/A-1", "\x1c1", " 1 ", "1　", "a 'b'", "'a' : 'b'"]


# ---------------------------------------------------------------- run
def fail(ctx: Ctx, sig: str, case, detail: str):
    """Record an oracle failure; a few cases per signature (shortest first come from the exhaustive stream)."""
    seen = ctx.extra.setdefault("failures_by_signature", {})
    seen[sig] = seen.get(sig, 0) + 1
    if seen[sig] <= PER_SIGNATURE:
        ctx.oracle_fail(sig, case, detail)


def run_tok_stream(ctx: Ctx, T, exe, stream: str, strings, chunk=150000):
    """Implementation + oracle on every string, model on the same strings, diff."""
    it = iter(strings)
    while True:
        part = list(itertools.islice(it, chunk))
        if not part:
            break
        reqs, outs = [], []
        for s in part:
            line, items, exc = tok_impl(T, s)
            outs.append(line)
            reqs.append(REQ + "\t" + common.cps(s))
            r = oracle_string(T, s, line, items, exc)
            if r:
                fail(ctx, r[0], {"kind": "string", "cps": [ord(c) for c in s]}, r[1])
            ctx.dist("result_" + (line.split(" ")[0] if line.startswith("OK") else line[1:]))
            n = len(s)
            ctx.dist("length_" + (str(n) if n <= 5 else "6-10" if n <= 10 else "11-20" if n <= 20 else "21-40" if n <= 40 else "41+"))
        if exe:
            ctx.compare(stream, part, reqs, outs, exe,
                        nontrivial=lambda case, out: out.startswith("OK ") and "|" in out)
        else:
            ctx.count(stream, len(part))


def aux_streams(ctx: Ctx, T, exe):
    """The scanners against the library facilities they mirror."""
    rng = ctx.rng
    # STRING_REGEXES
    strs = [q + s for q in "'\"" for s in exhaustive(QUOTE_ALPHA + ["\t"], 5 if ctx.quick else 6)]
    for _ in range(20000 if ctx.quick else 200000):
        strs.append(rng.choice("'\"") + "".join(
            rng.choice(["'", "'", '"', '"', "a", ":", " ", "\t", "\n", " ", " ", "\x1f", "+", "x"]) for _ in range(rng.randint(0, 30))))
    outs = []
    for s in strs:
        m = T.Tokenizer.STRING_REGEXES[s[0]].match(s)
        outs.append("-" if m is None else str(len(m.group(0))))
    ctx.compare("string_regexes", strs, ["rex\t" + common.cps(s) for s in strs], outs, exe, nontrivial=lambda c, o: o != "-")
    # SN_RE
    alpha = list("0123456789.E") + ["\n", "e", "+", "1.", "E"]
    strs = list(exhaustive(list("019.E\n"), 5)) + ["".join(rng.choice(alpha) for _ in range(rng.randint(1, 8))) for _ in range(20000)]
    outs = ["1" if T.Tokenizer.SN_RE.match(s) else "0" for s in strs]
    ctx.compare("sn_re", strs, ["sn\t" + common.cps(s) for s in strs], outs, exe, nontrivial=lambda c, o: o == "1")
    # float()
    alpha = list("0123456789") + list("..eE+-_ \t\n") + ["inf", "nan", "Infinity", "INF", "NaN", "i", "n", "f", "a", " ", "\x1c", "x", "1E", "_", "0"]
    strs = list(exhaustive(list("1.eE+-_ n"), 5)) + ["".join(rng.choice(alpha) for _ in range(rng.randint(1, 10))) for _ in range(60000)]

    def isfloat(s):
        try:
            float(s)
            return "1"
        except ValueError:
            return "0"
    outs = [isfloat(s) for s in strs]
    ctx.compare("float_syntax", strs, ["flt\t" + common.cps(s) for s in strs], outs, exe, nontrivial=lambda c, o: o == "1")
    # \s  (str.isspace() is what sre's category_space uses for str patterns)
    cps = list(range(0, 0x3100 if ctx.quick else 0x110000))
    ws_re = re.compile(r"\s")
    outs = ["1" if ws_re.match(chr(c)) else "0" for c in cps]
    ctx.compare("regex_whitespace", cps, [f"ws\t{c}" for c in cps], outs, exe, nontrivial=lambda c, o: o == "1")


def run(ctx: Ctx) -> int:
    T = impl()
    from numbers_parser.formula import OPERATOR_MAP
    common.standard_trusted_base(ctx, [
        "tools/gen_c18.py: reads regex sources, ERROR_CODES, TOKEN_ENDERS and (from the AST) the dispatcher strings of Tokenizer.parse / parse_operator into Gen/GenTok.v",
        "CPython's re engine on the three tokenizer regexes: mirrored by deterministic scanners (match_dq, match_sq, sn_match); tied by the exhaustive/random string_regexes and sn_re streams and characterised against the regex grammar by theorems dq_scanner_is_regex / sq_scanner_*",
        "Python float(): a Section variable of the model (isnum); every theorem holds for any such function; the run instantiates it with py_float_ok (ASCII digits; tied by the float_syntax stream)",
        "str.isspace / regex \\s: is_space table, compared on every code point (thorough) / below U+3100 (quick)",
        "numbers_parser reader (Document, cell.formula) as the producer of the accepted-language sample: oracle input only, not modelled",
    ])
    ctx.assumptions += [
        "inputs are Python str (sequences of code points); non-ASCII decimal digits (which float() accepts) are outside the correspondence alphabet: they only influence the NUMBER/RANGE subtype",
        "`accepts every formula the reader emits` is checked on the formulas read from the fixtures and from documents written in the run, not proved over a model of the formula printer (C08/C09 own that model)",
    ]
    ctx.extra["rule"] = (
        "tok streams: every string of length<=4 over 33 symbols (thorough: + length 5 over 23 symbols), every string of length<=7 over "
        "{',\",a,:,space}, random strings (4 generators, length<=40/60), corpus, all distinct reader formulas (fixtures + written documents), raw "
        "and OPERATOR_MAP-translated. evaluation = one string through implementation, oracle and model. non-trivial = tokenized to >= 2 tokens; "
        "distinct by (stream, string)")
    ctx.extra["exhaustive"] = True
    # 1. proof obligations
    cr = common.coq_check_props("C18", clean=not ctx.quick)
    ctx.coq = cr
    ctx.theorems = cr.theorems
    if not cr.ok:
        ctx.obligation_errors += cr.errors
    if not ctx.quick:
        ctx.extra["coqchk"] = common.coqchk("C18")
        if ctx.extra["coqchk"]["exit"] != 0:
            ctx.obligation_errors.append("coqchk failed: " + ctx.extra["coqchk"]["tail"])
    # 2. correspondence + oracle
    try:
        exe = common.build_model(ENTRY)
    except RuntimeError as e:
        ctx.obligation_errors.append(str(e))
        exe = None
    run_tok_stream(ctx, T, exe, "corpus", CORPUS)
    run_tok_stream(ctx, T, exe, "exhaustive_len4_alpha33", exhaustive(ALPHA33, 4))
    if not ctx.quick:
        run_tok_stream(ctx, T, exe, "exhaustive_len5_alpha23", exhaustive(ALPHA23, 5, 5))
    run_tok_stream(ctx, T, exe, "exhaustive_quotes", exhaustive(QUOTE_ALPHA, 7 if ctx.quick else 8, 1))
    run_tok_stream(ctx, T, exe, "random", random_strings(ctx, 160000 if ctx.quick else 1500000))
    # reader formulas
    forms = fixture_formulas(ctx)
    ctx.dist("fixture_formulas_distinct", len(forms))
    wforms = written_document_formulas(ctx)
    ctx.dist("written_document_formulas_distinct", len(wforms))
    for src, fm in (("fixture", forms), ("written", wforms)):
        for f, where in fm.items():
            ctx.count("reader_acceptance")
            label = where[0].get("label") if src == "written" else None
            r = oracle_reader_formula(T, f, OPERATOR_MAP, label, bool(src == "written" and where[0].get("container")))
            if r is None and src == "written" and where[0].get("string_literals"):
                # the text was written through the tokenizer: what the reader prints for it must cut into as many tokens
                # (one per literal) - a literal printed with its quotes unescaped would be split or glued
                a, b = tok_impl(T, where[1])[1], tok_impl(T, f)[1]
                if a is not None and b is not None and len(a) != len(b):
                    r = ("reader-string-split", f"written {where[1]!r} ({len(a)} tokens) is read as {f!r} ({len(b)} tokens)")
            if r:
                fail(ctx, r[0], {"kind": "reader", "source": src, "where": where, "cps": [ord(c) for c in f]}, r[1])
    for f, why in REJECTED_BY_WRITER[:5]:
        ctx.count("reader_acceptance")
        fail(ctx, "reader-formula-rejected", {"kind": "reader", "source": "well-formed string literal", "cps": [ord(c) for c in f]},
             f"the well-formed formula {f!r} (a string literal with its quotes doubled) is refused: {why}")
    REJECTED_BY_WRITER.clear()
    texts = sorted(set(forms) | set(wforms))
    texts = sorted(set(texts) | {f.translate(OPERATOR_MAP) for f in texts})
    run_tok_stream(ctx, T, exe, "reader_formulas", texts)
    if exe:
        aux_streams(ctx, T, exe)
    return common.finish(ctx, search)


# ---------------------------------------------------------------- witness search / replay
def neighbours(s: str):
    out = {s}
    n = len(s)
    for i in range(n):
        out.add(s[:i] + s[i + 1:])
        for j in range(i + 1, min(n, i + 8) + 1):
            out.add(s[i:j])
    for i in range(n + 1):
        for c in "()'\"+ :":
            out.add(s[:i] + c + s[i:])
    return out


def search(ctx: Ctx, broken) -> list:
    """Evaluate the implementation-only oracle on the disagreeing inputs, their neighbourhood
    (substrings, deletions, insertions) and a denser fresh stream."""
    T = impl()
    found = []
    cands = []
    for stream, case, m, i in ctx.disagreements:
        if isinstance(case, str):
            cands += sorted(neighbours(case), key=len)
    cands += CORPUS
    cands += list(exhaustive(ALPHA33, 3))
    cands += random_strings(ctx, 400000)
    seen = set()
    for s in cands:
        if s in seen:
            continue
        seen.add(s)
        r = oracle_string(T, s)
        if r:
            found.append((r[0], {"kind": "string", "cps": [ord(c) for c in s]}, r[1]))
            if len(found) > 20:
                break
    return found


def replay(path: str) -> int:
    d = json.loads(Path(path).read_text())
    T = impl()
    if d.get("kind") == "failing-input":
        case = d["case"]
        s = "".join(chr(c) for c in case["cps"])
        if case.get("kind") == "reader":
            from numbers_parser.formula import OPERATOR_MAP
            print(f"replay: formula {s!r} as read from {case.get('where')}")
            if case.get("source") == "written":
                import shutil, tempfile
                d2 = Path(tempfile.mkdtemp(prefix="verif_C18_replay_"))
                try:
                    with warnings.catch_warnings():
                        warnings.simplefilter("ignore")
                        warnings.showwarning = lambda *a, **k: None
                        got = written_recipe_formulas(case["where"][0], d2 / "replay.numbers")
                finally:
                    shutil.rmtree(d2, ignore_errors=True)
                if s not in got:
                    print(f"replay: the reader no longer produces this text from the recipe; it produces {sorted(got)!r}")
                    print("replay: case passes on the current tree")
                    return 0
                print("replay: the library wrote the document, read it back and produced this text")
            where = case.get("where") or [None]
            label = where[0].get("label") if isinstance(where[0], dict) else None
            r = oracle_reader_formula(T, s, OPERATOR_MAP, label, bool(isinstance(where[0], dict) and where[0].get("container")))
        else:
            print(f"replay: Tokenizer({s!r})")
            r = oracle_string(T, s)
        if r:
            print(f"replay: still failing [{r[0]}]: {r[1]}")
            print(f"VIOLATION property=C18 replay={path}")
            return 1
        print("replay: case passes on the current tree")
        return 0
    print("replay: no failing input was recorded; broken obligations/correspondences were:")
    print(json.dumps(d.get("broken"), indent=1)[:4000])
    return 1
