"""C01 - values written to cells are read back exactly after save and reopen.

Theorems: coq/Props/C01.v.  Correspondence: decimal128 codec, row offset codec,
tile split and string-table keys of the extracted model against the
implementation (direct calls and the bytes found in saved documents).  Oracle
(implementation only): write -> save -> reopen -> same type and equal value."""
from __future__ import annotations

import json
import math
from array import array
from datetime import datetime, timedelta
from decimal import Decimal

from . import common
from .common import Ctx

LEVEL = "proof"
ENTRY = "C01Entry"


# ---------------------------------------------------------------- value generators
def number_values(ctx: Ctx):
    rng = ctx.rng
    q = ctx.quick
    vals: list = []
    vals += list(range(0, 20001 if q else 1000001))
    vals += [-n for n in range(1, 2001)]
    vals += [n / 100 for n in range(0, 100001 if q else 1000001, 1 if q else 1)][: (100001 if q else 1000001)]
    vals += [float(f"1e{k}") for k in range(-290, 291)] + [-float(f"1e{k}") for k in range(-290, 291, 7)]
    vals += [k * 10 ** j for k in (1, 2, 5, 9, 12, 25, 99, 101, 999) for j in range(0, 13)]
    vals += [float(f"{k}e{j}") for k in (1.5, 2.5, 9.9, 1.25, 7.75, 3.125) for j in range(-50, 51, 5)]
    vals += [10 ** 15 - 1, -(10 ** 15 - 1), 10 ** 14, 999999999999999, 123456789012345, 0.1, 0.2, 0.3, 0.7, 1 / 3.0]
    vals += [0.0, -0.0, 12, 12.0, 50, 52, 0.12, 1e-290, 1e290, -1e290, 9.99999999999999e289]
    n = 20000 if q else 300000
    for _ in range(n):
        digits = rng.randrange(1, 16)
        m = rng.randrange(10 ** (digits - 1), 10 ** digits)
        e = rng.randrange(-290, 291 - digits) if rng.random() < 0.5 else rng.randrange(-digits - 3, 4)
        x = float(f"{m}e{e}")
        if 1e-290 <= abs(x) <= 1e290:
            vals.append(x if rng.random() < 0.7 else -x)
    for _ in range(2000 if q else 20000):
        vals.append(rng.randrange(-10 ** 15 + 1, 10 ** 15))
    return vals


def text_values(rng):
    base = ["", " ", "a", "héllo", "multi\nline\ntext", "tab\there", "\U0001F600 astral \U00010348", "x" * 10000,
            "0", "1.5", "TRUE", "=A1", "'quoted'", '"dq"', "a,b;c", "\u0000nul", "ß", "‮ rtl", "é"]
    # every character a reader or writer might be tempted to normalise: line/paragraph separators, C0/C1 controls,
    # no-break and zero-width spaces, BOM, object replacement, non-characters (each alone, embedded, and all together)
    special = ([chr(i) for i in range(1, 32)] + ["\x7f", "\x85", "\xa0", "\xad", " ", " ", "​", "‍",
               "‎", "⁠", "﻿", "￼", "�", "￾", "￿", "　", " ", "᠎"])
    for ch in special:
        base.append(ch)
        base.append("a" + ch + "b")
    base.append("".join(special))
    base += ["a\r\nb", "a\n\rb", "\n", "\n\n", " lead", "trail ", "\ttab", "nl\n"]
    # strings that are canonically equivalent but made of different code points (precomposed / decomposed, compatibility
    # singletons, Hangul jamo / syllable, case pairs): every spelling is a value of its own
    base += ["caf\u00e9", "cafe\u0301", "\u212b", "\u00c5", "A\u030a", "\u2126", "\u03a9", "\u1100\u1161", "\uac00", "\ufb01", "fi",
             "Stra\u00dfe", "Strasse", "STRASSE", "\u0130", "i\u0307", "I", "\u1e9e"]
    for _ in range(20):
        k = rng.randrange(1, 30)
        base.append("".join(chr(rng.choice([rng.randrange(32, 127), rng.randrange(0xA0, 0x2FFF), rng.randrange(0x10000, 0x10FFFF)]))
                            for _ in range(k)))
    return [s for s in base if not any(0xD800 <= ord(c) <= 0xDFFF for c in s)]


def datetime_values(rng, n):
    out = [datetime(1, 1, 1), datetime(9999, 12, 31, 23, 59, 59), datetime(2001, 1, 1), datetime(2000, 12, 31, 23, 59, 59),
           datetime(1970, 1, 1), datetime(2024, 2, 29, 12, 0, 0), datetime(1900, 1, 1, 0, 0, 0, 1), datetime(2100, 12, 31, 23, 59, 59, 999999),
           datetime(2001, 1, 1, 0, 0, 0, 1), datetime(2000, 12, 31, 23, 59, 59, 999999), datetime(1999, 12, 31, 23, 59, 59, 500000)]
    for y in (1, 2, 100, 1000, 1582, 1899, 1900, 1999, 2000, 2001, 2038, 2100, 5000, 9999):
        out.append(datetime(y, 1, 1))
        out.append(datetime(y, 12, 31, 23, 59, 59))
    for _ in range(n):
        if rng.random() < 0.5:
            y = rng.randrange(1, 10000)
            out.append(datetime(y, rng.randrange(1, 13), rng.randrange(1, 29), rng.randrange(24), rng.randrange(60), rng.randrange(60)))
        else:
            y = rng.randrange(1900, 2101)
            out.append(datetime(y, rng.randrange(1, 13), rng.randrange(1, 29), rng.randrange(24), rng.randrange(60), rng.randrange(60),
                                rng.choice([1, 999999, 500000, rng.randrange(10 ** 6)])))
    return out


def duration_values(rng, n):
    century = 100 * 365 * 86400 * 10 ** 6
    out = [timedelta(0), timedelta(microseconds=1), timedelta(microseconds=-1), timedelta(seconds=1), timedelta(days=36500),
           timedelta(days=-36500), timedelta(microseconds=999999), timedelta(seconds=59, microseconds=999999),
           timedelta(days=1, microseconds=1), timedelta(hours=-1, microseconds=-1)]
    for _ in range(n):
        out.append(timedelta(microseconds=rng.randrange(-century, century + 1)))
    return out


# ---------------------------------------------------------------- helpers
def dec_tuple(x):
    t = Decimal(str(x)).as_tuple()
    return (x < 0, "".join(map(str, t.digits)), t.exponent)


def exact_float(neg, m, e):
    v = float(Decimal(m).scaleb(e))
    return -v if neg else v


def same_value(a, b):
    if type(a) is not type(b) and not (isinstance(a, (int, float)) and isinstance(b, (int, float)) and not isinstance(a, bool) and not isinstance(b, bool)):
        return False
    if isinstance(a, float) and isinstance(b, float):
        return a == b
    return a == b


def oracle_d128(x):
    from numbers_parser.cell import _pack_decimal128, _unpack_decimal128
    try:
        y = _unpack_decimal128(_pack_decimal128(x))
    except Exception as e:  # noqa: BLE001
        return ("d128-raises", f"{type(e).__name__}: {e} for {x!r}")
    if not (y == x):
        return ("d128-roundtrip", f"_unpack_decimal128(_pack_decimal128({x!r})) = {y!r}")
    return None


def build_and_check(ctx: Ctx, name, nrows, ncols, writes, exe):
    """One document: create, write, save, reopen; oracle + raw tile correspondence."""
    from numbers_parser import Document
    from numbers_parser.model import get_storage_buffers_for_row
    doc = Document(num_rows=nrows, num_cols=ncols)
    table = doc.sheets[0].tables[0]
    case = {"doc": name, "shape": [nrows, ncols], "writes": len(writes)}
    for r, c, v in writes:
        try:
            table.write(r, c, v)
        except Exception as e:  # noqa: BLE001  every generated position is inside the documented limits
            ctx.oracle_fail(f"write-raises:{type(e).__name__}", dict(case, pos=[r, c], value=repr(v)),
                            f"write({r}, {c}, {v!r}) on {nrows}x{ncols} raised {type(e).__name__}: {e}")
            return
    path = ctx.tmp / f"{name}.numbers"
    try:
        doc.save(path)
        doc2 = Document(path)
    except Exception as e:  # noqa: BLE001
        ctx.oracle_fail("save-reopen-raises", case, f"{type(e).__name__}: {e}")
        return
    t2 = doc2.sheets[0].tables[0]
    want_rows = max([nrows] + [r + 1 for r, _, _ in writes])
    want_cols = max([ncols] + [c + 1 for _, c, _ in writes])
    if (t2.num_rows, t2.num_cols) != (want_rows, want_cols) or (table.num_rows, table.num_cols) != (want_rows, want_cols):
        ctx.oracle_fail("shape", case, f"expected {(want_rows, want_cols)}, open {(table.num_rows, table.num_cols)}, reopened {(t2.num_rows, t2.num_cols)}")
    last = {}
    for r, c, v in writes:
        last[(r, c)] = v
    for (r, c), v in last.items():
        ctx.count("oracle-write-save-reopen")
        try:
            got = t2.cell(r, c).value
        except Exception as e:  # noqa: BLE001
            ctx.oracle_fail("read-raises", dict(case, pos=[r, c], value=repr(v)), f"{type(e).__name__}: {e}")
            continue
        kind = type(v).__name__
        ctx.dist("written:" + kind)
        if not same_value(v, got):
            ctx.oracle_fail("value-changed:" + kind, dict(case, pos=[r, c], value=repr(v)), f"wrote {v!r}, read {got!r}")
        ctx.nontrivial((name, r, c))
    # raw tiles of the saved file: implementation splitter vs model splitter, model packer vs saved bytes
    if exe is None:
        return
    m = doc2._model
    tid = t2._table_id
    reqs_split, impl_split, reqs_row, impl_row = [], [], [], []
    sizes = []
    for tile in m.table_tiles(tid):
        sizes.append(len(tile.rowInfos))
        for ri in tile.rowInfos:
            offs = array("h", ri.cell_offsets).tolist()
            bufs = get_storage_buffers_for_row(ri.cell_storage_buffer, ri.cell_offsets, want_cols, ri.has_wide_offsets)
            reqs_split.append(f"split\t{int(ri.has_wide_offsets)}\t{want_cols}\t{','.join(map(str, offs))}\t{ri.cell_storage_buffer.hex()}")
            impl_split.append(",".join("-" if b is None else (b.hex() or "e") for b in bufs))
            reqs_row.append("row\t" + ",".join("-" if b is None else (b.hex() or "e") for b in bufs))
            impl_row.append(",".join(map(str, offs[:want_cols])) + "\t" + ri.cell_storage_buffer.hex())
    step = max(1, len(reqs_split) // 40)   # sample rows of big tables
    sel = list(range(0, len(reqs_split), step))
    ctx.compare("saved-rows/split", [f"{name}:row{i}" for i in sel], [reqs_split[i] for i in sel], [impl_split[i] for i in sel], exe)
    ctx.compare("saved-rows/repack", [f"{name}:row{i}" for i in sel], [reqs_row[i] for i in sel], [impl_row[i] for i in sel], exe)
    ctx.compare("tile-sizes", [f"{name}:{want_rows}"], [f"tiles\t{want_rows}"], [",".join(map(str, sizes))], exe,
                nontrivial=lambda c, o: True)


def two_stage(ctx: Ctx, pool, rng):
    """One Document object saved twice with edits in between; both files must read back what they were given."""
    from numbers_parser import Document
    for k in range(2 if ctx.quick else 10):
        doc = Document(num_rows=6, num_cols=4)
        t = doc.sheets[0].tables[0]
        t2 = doc.sheets[0].add_table(f"T{k}", num_rows=3, num_cols=3)
        texts = [v for v in pool if isinstance(v, str)]
        first = {(r, c): rng.choice(pool) for r in range(3) for c in range(4)}
        first.update({(5, 0): rng.choice(texts), (5, 1): rng.choice(texts)})
        for (r, c), v in first.items():
            t.write(r, c, v)
        t2.write(0, 0, "other table text")
        p1 = ctx.tmp / f"stage{k}_1.numbers"
        doc.save(p1)
        second = {(r, c): rng.choice(pool) for r in range(3, 5) for c in range(4)}
        second.update({(0, 0): rng.choice(texts), (5, 2): "added after the first save", (7, 1): rng.choice(texts)})
        for (r, c), v in second.items():
            t.write(r, c, v)
        t2.write(1, 1, "second text in the other table")
        p2 = ctx.tmp / f"stage{k}_2.numbers"
        doc.save(p2)
        want1 = dict(first)
        want2 = dict(first)
        want2.update(second)
        for label, path, want, want_other in (("first", p1, want1, {(0, 0): "other table text"}),
                                             ("second", p2, want2, {(0, 0): "other table text", (1, 1): "second text in the other table"})):
            try:
                d = Document(path)
            except Exception as e:  # noqa: BLE001
                ctx.oracle_fail("save-reopen-raises", {"doc": f"two-stage {label}"}, f"{type(e).__name__}: {e}")
                continue
            tabs = d.sheets[0].tables
            for tab, w in ((tabs[0], want), (tabs[1], want_other)):
                for (r, c), v in w.items():
                    ctx.count("oracle-write-save-reopen")
                    got = tab.cell(r, c).value
                    if not same_value(v, got):
                        ctx.oracle_fail(f"value-changed-after-repeated-save:{type(v).__name__}",
                                        {"doc": f"two-stage {label} save", "pos": [r, c], "value": repr(v)},
                                        f"{label} saved file, table {tab.name} ({r},{c}): wrote {v!r}, read {got!r}")
                    ctx.nontrivial(("two-stage", k, label, tab.name, r, c))


def several_tables(ctx: Ctx, pool, rng):
    """Several tables in one document - the one of the template, tables added to its sheet, tables on added sheets -
    each written with values of every type (texts differ from table to table), one save, one reopen."""
    from numbers_parser import Document
    texts = [v for v in pool if isinstance(v, str) and v]
    for k in range(2 if ctx.quick else 12):
        doc = Document(num_rows=4, num_cols=3)
        tabs = [doc.sheets[0].tables[0]]
        tabs.append(doc.sheets[0].add_table(f"A{k}", num_rows=3, num_cols=3))
        tabs.append(doc.sheets[0].add_table(f"B{k}", num_rows=2, num_cols=2))
        doc.add_sheet(f"S{k}", f"C{k}", num_rows=3, num_cols=2)
        tabs.append(doc.sheets[1].tables[0])
        tabs.append(doc.sheets[1].add_table(f"D{k}", num_rows=2, num_cols=4))
        want = []
        for ti, t in enumerate(tabs):
            w = {}
            for j in range(6):
                r, c = rng.randrange(t.num_rows + (j == 5)), rng.randrange(t.num_cols + (j == 4))
                w[(r, c)] = f"table {ti} text {j} " + rng.choice(texts) if j % 2 == 0 else rng.choice(pool)
            want.append(w)
        # interleaved, so that no table is finished before the next one starts
        for j in range(6):
            for t, w in zip(tabs, want):
                if j < len(w):
                    (r, c), v = list(w.items())[j]
                    t.write(r, c, v)
        path = ctx.tmp / f"several_{k}.numbers"
        case = {"doc": f"several-tables {k}"}
        try:
            doc.save(path)
            d = Document(path)
            back = [d.sheets[0].tables[0], d.sheets[0].tables[1], d.sheets[0].tables[2], d.sheets[1].tables[0], d.sheets[1].tables[1]]
        except Exception as e:  # noqa: BLE001
            ctx.oracle_fail("save-reopen-raises", case, f"{type(e).__name__}: {e}")
            continue
        for ti, (t, w) in enumerate(zip(back, want)):
            for (r, c), v in w.items():
                ctx.count("oracle-write-save-reopen")
                got = t.cell(r, c).value
                if not same_value(v, got):
                    ctx.oracle_fail(f"value-changed-in-one-of-several-tables:{type(v).__name__}", dict(case, table=ti, pos=[r, c], value=repr(v)),
                                    f"table #{ti} ({t.name}) ({r},{c}): wrote {v!r}, read {got!r}")
                ctx.nontrivial(("several", k, ti, r, c))


def repeated_texts(ctx: Ctx, rng):
    """Texts that repeat across tables and across the ends of a table - the last text of one table is the first text of
    the next, the first and last text of a table are equal - and the same Document saved twice (string keys are
    re-assigned at every save)."""
    from numbers_parser import Document
    words = ["total", "north", "south", "gamma", "z", "delta", "alpha", "beta", "", "Total"]
    for k in range(4 if ctx.quick else 40):
        doc = Document(num_rows=3, num_cols=3)
        tabs = [doc.sheets[0].tables[0], doc.sheets[0].add_table(f"R{k}", num_rows=4, num_cols=3)]
        if k % 2:
            doc.add_sheet(f"RS{k}", "RT", num_rows=3, num_cols=3)
            tabs.append(doc.sheets[1].tables[0])
        want = [dict() for _ in tabs]
        link = rng.choice(words[:4])
        for ti, t in enumerate(tabs):
            cells = [(r, c) for r in range(t.num_rows) for c in range(t.num_cols)]
            chosen = sorted(rng.sample(cells, rng.randrange(3, len(cells))))
            for j, (r, c) in enumerate(chosen):
                v = link if j in (0, len(chosen) - 1) else (rng.choice(words) if rng.random() < 0.8 else float(j))
                want[ti][(r, c)] = v
                t.write(r, c, v)
        for stage in ("first save", "second save of the same document"):
            path = ctx.tmp / f"repeated_{k}.numbers"
            case = {"doc": f"repeated-texts {k}", "stage": stage}
            try:
                doc.save(path)
                d = Document(path)
                back = [t for sh in d.sheets for t in sh.tables]
            except Exception as e:  # noqa: BLE001
                ctx.oracle_fail("save-reopen-raises", case, f"{type(e).__name__}: {e}")
                break
            for ti, (t, w) in enumerate(zip(back, want)):
                for (r, c), v in w.items():
                    ctx.count("oracle-write-save-reopen")
                    got = t.cell(r, c).value
                    if not same_value(v, got):
                        ctx.oracle_fail(f"value-changed-among-repeated-texts:{type(v).__name__}", dict(case, table=ti, pos=[r, c], value=repr(v)),
                                        f"{stage}: table #{ti} ({t.name}) ({r},{c}): wrote {v!r}, read {got!r}")
                    ctx.nontrivial(("repeated", k, ti, r, c))


def retyped_cells(ctx: Ctx, rng):
    """A cell written twice in one session with values that compare equal in Python but are of different types (True == 1
    == 1.0, False == 0, "" vs nothing): the reopened cell has the type and value of the LAST write."""
    from numbers_parser import Document
    pairs = [(1, True), (0, False), (True, 1), (False, 0.0), (1.0, True), (0.0, False), (True, 1.0), (1, 1.0), (2, 2.0), ("1", 1), (1, "1"),
             ("", False), (False, ""), (timedelta(0), 0), (0, timedelta(0)), (True, "True"), (timedelta(seconds=1), 1.0), (1.0, timedelta(seconds=1)),
             (datetime(2001, 1, 1), 0), ("x", "x"), (5, 5)]
    doc = Document(num_rows=len(pairs), num_cols=2)
    t = doc.sheets[0].tables[0]
    for r, (a, b) in enumerate(pairs):
        t.write(r, 0, a)
        if r % 2:
            _ = t.cell(r, 0).value        # a read between the two writes
        t.write(r, 0, b)
        t.write(r, 1, b)                  # control: the same value written once
    path = ctx.tmp / "retyped.numbers"
    try:
        doc.save(path)
        t2 = Document(path).sheets[0].tables[0]
    except Exception as e:  # noqa: BLE001
        ctx.oracle_fail("save-reopen-raises", {"doc": "retyped"}, f"{type(e).__name__}: {e}")
        return
    for r, (a, b) in enumerate(pairs):
        for where, tab in (("open document", t), ("reopened file", t2)):
            ctx.count("oracle-write-save-reopen")
            got = tab.cell(r, 0).value
            if not same_value(b, got):
                ctx.oracle_fail(f"value-changed-after-rewrite:{type(b).__name__}", {"doc": "retyped", "first": repr(a), "then": repr(b)},
                                f"{where}: wrote {a!r}, then {b!r} to the same cell: read {got!r} ({type(got).__name__})")
        ctx.nontrivial(("retyped", r))


def default_fills(ctx: Ctx, pool, rng):
    """Values written through the `default=` argument of add_row / add_column (the table grows and every new cell is
    written): falsy values are values too."""
    from numbers_parser import Document
    vals = [False, True, 0, 0.0, -0.0, "", " ", timedelta(0), 1, "x", 2.5, timedelta(microseconds=1), datetime(2001, 1, 1)]
    vals += [rng.choice(pool) for _ in range(4 if ctx.quick else 40)]
    doc = Document(num_rows=2, num_cols=2)
    t = doc.sheets[0].tables[0]
    want = {}
    for i, v in enumerate(vals):
        case = {"doc": "default-fills", "value": repr(v), "how": "add_row" if i % 2 == 0 else "add_column"}
        try:
            if i % 2 == 0:
                if i % 4 == 0:
                    t.add_row(default=v)
                    r0 = t.num_rows - 1
                else:
                    t.add_row(start_row=0, default=v)
                    r0 = 0
                    want = {(r + 1, c): x for (r, c), x in want.items()}
                for c in range(t.num_cols):
                    want[(r0, c)] = v
            else:
                if i % 4 == 1:
                    t.add_column(default=v)
                    c0 = t.num_cols - 1
                else:
                    t.add_column(start_col=0, default=v)
                    c0 = 0
                    want = {(r, c + 1): x for (r, c), x in want.items()}
                for r in range(t.num_rows):
                    want[(r, c0)] = v
        except Exception as e:  # noqa: BLE001
            ctx.oracle_fail(f"write-raises:{type(e).__name__}", case, f"{case['how']}(default={v!r}) raised {type(e).__name__}: {e}")
            return
    path = ctx.tmp / "default_fills.numbers"
    try:
        doc.save(path)
        t2 = Document(path).sheets[0].tables[0]
    except Exception as e:  # noqa: BLE001
        ctx.oracle_fail("save-reopen-raises", {"doc": "default-fills"}, f"{type(e).__name__}: {e}")
        return
    for where, tab in (("open document", t), ("reopened file", t2)):
        for (r, c), v in want.items():
            ctx.count("oracle-write-save-reopen")
            got = tab.cell(r, c).value
            if not same_value(v, got) or type(got) is not type(v) and not (isinstance(v, (int, float)) and not isinstance(v, bool) and isinstance(got, (int, float)) and not isinstance(got, bool)):
                ctx.oracle_fail(f"default-value-changed:{type(v).__name__}", {"doc": "default-fills", "pos": [r, c], "value": repr(v)},
                                f"{where} ({r},{c}): filled with default {v!r}, read {got!r}")
            ctx.nontrivial(("default", where, r, c))


def run(ctx: Ctx) -> int:
    from numbers_parser.cell import _pack_decimal128, _unpack_decimal128
    rng = ctx.rng
    common.standard_trusted_base(ctx, [
        "Flocq 4 / Coq Reals: seconds_roundtrip and micros_roundtrip_partial depend on the stdlib axioms ClassicalDedekindReals.sig_forall_dec, sig_not_dec, FunctionalExtensionality.functional_extensionality_dep, Classical_Prop.classic",
        "Section hypotheses of number_roundtrip (CPython): repr_roundtrip (float(repr(x)) == x), repr emits <= 17 significant digits, int->float and int/int true division are correctly rounded functions of the exact decimal value, zero is zero at any exponent",
        "CPython timedelta(seconds=float) = exact modf + binary64 multiplication by 10^6 + round-half-even; total_seconds() = one correctly rounded division (modelled in FloatConv.v as RN(u/10^6))",
        "UTF-8 encoding of strings, protobuf serialisation, snappy and zip are library code outside the model; they are exercised by the write-save-reopen oracle",
        "decimal.Decimal(str(x)).as_tuple() supplies the digits/exponent the model starts from; Decimal(m).scaleb(e) -> float (correctly rounded strtod) interprets the model's unpacked decimal",
    ])
    ctx.assumptions += ["floats are finite; NaN/inf are outside the property's domain"]
    ctx.extra["rule"] = ("d128: ints 0..20000 (quick) / 0..10^6 (thorough), 2-decimal prices, powers of ten 1e-290..1e290, k*10^j grid, random <=15-digit floats over the "
                         "whole exponent range, ints to 10^15; documents: shapes across tile boundaries with every value type at generated positions incl. "
                         "out-of-bounds writes; non-trivial = value stored and read back / record decoded; distinct by (stream, case)")
    cr = common.coq_check_props("C01", clean=not ctx.quick)
    ctx.coq, ctx.theorems = cr, cr.theorems
    if not cr.ok:
        ctx.obligation_errors += cr.errors
    if not ctx.quick:
        ctx.extra["coqchk"] = common.coqchk("C01")
        if ctx.extra["coqchk"]["exit"] != 0:
            ctx.obligation_errors.append("coqchk failed: " + ctx.extra["coqchk"]["tail"])
    try:
        exe = common.build_model(ENTRY)
    except RuntimeError as e:
        ctx.obligation_errors.append(str(e))
        exe = None

    # ---- A. decimal128 codec
    nums = number_values(ctx)
    ctx.dist("numbers", len(nums))
    ctx.dist("numbers:int", sum(1 for v in nums if isinstance(v, int)))
    if exe:
        reqs, outs, cases = [], [], []
        packed = []
        for x in nums:
            neg, ds, ex = dec_tuple(x)
            try:
                b = bytes(_pack_decimal128(x))
                outs.append(b.hex())
                packed.append(b)
            except Exception as e:  # noqa: BLE001
                outs.append("!" + type(e).__name__)
                packed.append(None)
            reqs.append(f"d128p\t{int(neg)}\t{ds}\t{ex}")
            cases.append(repr(x))
        model_packed = ctx.compare("d128-pack", cases, reqs, outs, exe)
        # unpack: model's exact decimal -> correctly rounded float, against the implementation's float
        ureq = [f"d128u\t{mp}" for mp in model_packed]
        mu = common.run_model(exe, ureq)
        for x, mp, line in zip(nums, model_packed, mu):
            ctx.count("d128-unpack")
            s, m, e = line.split("\t")
            mv = exact_float(s == "1", int(m), int(e))
            try:
                iv = _unpack_decimal128(bytearray(bytes.fromhex(mp)))
            except Exception as ex_:  # noqa: BLE001
                iv = "!" + type(ex_).__name__
            if not (isinstance(iv, float) and iv.hex() == mv.hex()) and not (iv == mv == 0):
                ctx.disagree("d128-unpack", repr(x), repr(mv), repr(iv))
    for x in nums:
        ctx.count("oracle-d128")
        r = oracle_d128(x)
        if r:
            cls = "int" if isinstance(x, int) else "float"
            ctx.oracle_fail(f"{r[0]}:{cls}", {"op": "d128", "value": repr(x)}, r[1])

    # ---- B. string table keys (DataLists) against the model
    from numbers_parser import Document
    doc = Document()
    tbl = doc.sheets[0].tables[0]
    m = doc._model
    tid = tbl._table_id
    dl_cases = []
    texts = text_values(rng)
    for _ in range(30 if ctx.quick else 300):
        dl_cases.append([rng.choice(texts[:12] + ["dup", "dup", "Dup"]) for _ in range(rng.randrange(1, 25))])
    if exe:
        reqs, outs = [], []
        for seq in dl_cases:
            m._table_strings.init(tid)
            keys = [m._table_strings.lookup_key(tid, s) for s in seq]
            ok = "".join("1" if m._table_strings.lookup_value(tid, k).string == s else "0" for k, s in zip(keys, seq))
            outs.append(",".join(map(str, keys)) + "\t" + ok)
            reqs.append("dl\t" + "|".join(common.cps(s) for s in seq))
        ctx.compare("datalist-keys", [str(s)[:80] for s in dl_cases], reqs, outs, exe, nontrivial=lambda c, o: True)

    # ---- C. whole documents
    nd, ndur = (60, 60) if ctx.quick else (600, 600)
    pool = []
    pool += [(v) for v in texts]
    pool += [True, False]
    pool += [rng.choice(nums) for _ in range(150 if ctx.quick else 1500)]
    pool += datetime_values(rng, nd) + duration_values(rng, ndur)
    # whole numbers of 18 and more digits that a double holds exactly (they take the encoder's long-coefficient branch)
    # (at most 17 significant digits: the stored coefficient has 17 digits, longer integers are cut by design)
    pool += [10 ** 17, 10 ** 18, -(10 ** 19), 10 ** 20, 10 ** 22, 7 * 10 ** 17, -(25 * 10 ** 19), 1e18, 2.5e20]
    shapes = [(1, 1), (3, 3), (12, 8), (255, 2), (256, 2), (257, 2), (513, 1), (2, 257), (1, 1000)]
    if not ctx.quick:
        shapes += [(512, 3), (1024, 1), (3, 256), (700, 4)]
    pi = 0
    for si, (nr, nc) in enumerate(shapes):
        writes = []
        k = 64 if ctx.quick else 200
        for _ in range(k):
            v = pool[pi % len(pool)]
            pi += 1
            r = rng.choice([0, nr - 1, rng.randrange(nr)])
            c = rng.choice([0, nc - 1, rng.randrange(nc)])
            writes.append((r, c, v))
        # the shape exactly as created (row counts that are exact multiples of the tile size stay so) ...
        build_and_check(ctx, f"doc{si}_{nr}x{nc}", nr, nc, writes, exe)
        # ... and the same table grown by writes beyond its current bounds
        grown = list(writes)
        grown.append((nr + rng.randrange(1, 4), nc - 1, "grown-row"))
        if nc < 990:
            grown.append((0, nc + rng.randrange(1, 4), 42))
        grown.append((nr + 5 + (250 if si == 2 else 0), min(nc + 2, 999), 2.5))
        if si % 2 == 0 or not ctx.quick:
            build_and_check(ctx, f"doc{si}_{nr}x{nc}_grown", nr, nc, grown, exe)
    # growth that lands exactly on a tile boundary
    build_and_check(ctx, "grow_to_256", 3, 2, [(255, 1, "last row of the first tile"), (0, 0, 1.5)], exe)
    build_and_check(ctx, "grow_to_512", 200, 1, [(511, 0, 7), (256, 0, "first row of the second tile")], exe)
    # saving may be repeated: write, save, write more, save again, reopen the second file
    two_stage(ctx, pool, rng)
    several_tables(ctx, pool, rng)
    repeated_texts(ctx, rng)
    default_fills(ctx, pool, rng)
    retyped_cells(ctx, rng)
    # a document holding the whole pool in one column (all types, many tiles when thorough)
    writes = [(i, 0, v) for i, v in enumerate(pool)]
    build_and_check(ctx, "pool", 2, 1, writes, exe)
    return common.finish(ctx, search)


def search(ctx: Ctx, broken) -> list:
    found = []
    rng = ctx.rng
    for _ in range(300000):
        digits = rng.randrange(1, 16)
        mm = rng.randrange(10 ** (digits - 1), 10 ** digits)
        x = float(f"{mm}e{rng.randrange(-290, 291 - digits)}")
        r = oracle_d128(x)
        if r:
            found.append((r[0] + ":float", {"op": "d128", "value": repr(x)}, r[1]))
            break
    for x in range(0, 200000):
        r = oracle_d128(x)
        if r:
            found.append((r[0] + ":int", {"op": "d128", "value": repr(x)}, r[1]))
            break
    return found


def replay(path: str) -> int:
    d = json.loads(open(path).read())
    if d.get("kind") == "failing-input":
        case = d["case"]
        if case.get("op") == "d128":
            x = eval(case["value"], {"__builtins__": {}}, {"inf": math.inf, "nan": math.nan})  # repr of int/float
            r = oracle_d128(x)
            if r:
                print(f"replay: still failing: {r[1]}")
                print(f"VIOLATION property=C01 replay={path}")
                return 1
            print("replay: case passes on the current tree")
            return 0
        # document-level case: re-run the single write through the API
        from numbers_parser import Document
        import tempfile, pathlib, datetime as _dt  # noqa: E401
        v = eval(case["value"], {"__builtins__": {}}, {"datetime": _dt, "True": True, "False": False})
        r, c = case["pos"]
        doc = Document(num_rows=case["shape"][0], num_cols=case["shape"][1])
        doc.sheets[0].tables[0].write(r, c, v)
        with tempfile.TemporaryDirectory() as td:
            p = pathlib.Path(td) / "r.numbers"
            doc.save(p)
            got = Document(p).sheets[0].tables[0].cell(r, c).value
        if not same_value(v, got):
            print(f"replay: still failing: wrote {v!r}, read {got!r}")
            print(f"VIOLATION property=C01 replay={path}")
            return 1
        print("replay: case passes on the current tree")
        return 0
    print("replay: no failing input was recorded; broken obligations/correspondences were:")
    print(json.dumps(d.get("broken"), indent=1)[:4000])
    return 1
