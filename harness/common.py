"""Shared machinery of the checks: Coq build + assumption parsing, model
extraction, model runner, evidence / violation / known-finding plumbing.

Run under /venv/bin/python with PYTHONPATH=/repo/src (set by ./check)."""
from __future__ import annotations

import fcntl
import hashlib
import json
import os
import random
import re
import shutil
import subprocess
import sys
import tempfile
import time
from pathlib import Path

VERIF = Path(__file__).resolve().parent.parent
REPO = Path(os.environ.get("VERIF_REPO", "/repo"))
COQ = VERIF / "coq"
BUILD = VERIF / "build"
GUARD = "NUMBERS_PARSER_VERIF"

FORBIDDEN = re.compile(
    r"\b(Admitted|admit|Axiom|Axioms|Parameter|Parameters|Conjecture|Unset\s+Guard|bypass_check|"
    r"Admit\s+Obligations|type-in-type|impredicative-set)\b"
)

# axioms that may appear in Print Assumptions output (all declared by the
# standard library / Flocq's dependency on Reals; none declared here)
ALLOWED_AXIOM_PREFIXES = (
    "PrimInt63.", "PrimFloat.", "Uint63.", "FloatAxioms.", "FloatOps.",
    # primitive float/int operations are printed unqualified when PrimFloat is imported
)
ALLOWED_AXIOMS = {
    # primitive 63-bit integers and binary64 floats (kernel primitives, not axioms of ours)
    "of_uint63", "normfr_mantissa", "ltb", "frshiftexp", "float", "eqb", "div", "abs", "mul",
    "add", "sub", "leb", "opp", "of_int63", "ldshiftexp", "compare", "classify", "sqrt",
    "next_up", "next_down", "int",
    # stdlib real numbers / classical logic brought in by Flocq (C01 float lemmas only)
    "ClassicalDedekindReals.sig_forall_dec", "ClassicalDedekindReals.sig_not_dec",
    "FunctionalExtensionality.functional_extensionality_dep", "Classical_Prop.classic",
}


def log(*a):
    print(*a, file=sys.stderr, flush=True)


# --------------------------------------------------------------------------
# Coq build
# --------------------------------------------------------------------------
class Lock:
    """Exclusive flock, re-entrant within the process (the Coq tree is shared by concurrently running checks)."""
    _held: dict = {}

    def __init__(self, path):
        self.path = str(path)

    def __enter__(self):
        h = Lock._held.get(self.path)
        if h:
            h[1] += 1
            return self
        f = open(self.path, "w")
        fcntl.flock(f, fcntl.LOCK_EX)
        Lock._held[self.path] = [f, 1]
        return self

    def __exit__(self, *a):
        h = Lock._held[self.path]
        h[1] -= 1
        if h[1] == 0:
            fcntl.flock(h[0], fcntl.LOCK_UN)
            h[0].close()
            del Lock._held[self.path]


def coq_files():
    out = []
    for sub in ("Gen", "Model", "Proofs", "Props"):
        out += sorted(str(p.relative_to(COQ)) for p in (COQ / sub).glob("*.v"))
    return out


def write_if_changed(path: Path, text: str):
    if path.exists() and path.read_text() == text:
        return False
    tmp = path.with_suffix(path.suffix + ".tmp%d" % os.getpid())
    tmp.write_text(text)
    os.replace(tmp, path)
    return True


def regen_coqproject():
    text = "-Q . NP\n" + "\n".join(coq_files()) + "\n"
    if write_if_changed(COQ / "_CoqProject", text) or not (COQ / "Makefile").exists():
        subprocess.run(["coq_makefile", "-f", "_CoqProject", "-o", "Makefile"], cwd=COQ,
                       check=True, stdout=subprocess.DEVNULL, stderr=subprocess.DEVNULL)


def source_hygiene():
    """Reject forbidden vernacular anywhere in the development."""
    bad = []
    for f in coq_files() + [str(p.relative_to(COQ)) for p in (COQ / "Extract").glob("*.v")]:
        txt = (COQ / f).read_text()
        # strip comments (non-nested is enough for our files; nested handled by loop)
        prev = None
        while prev != txt:
            prev = txt
            txt = re.sub(r"\(\*[^()]*?\*\)", " ", txt, flags=re.S)
        txt = re.sub(r"\(\*.*?\*\)", " ", txt, flags=re.S)
        for m in FORBIDDEN.finditer(txt):
            bad.append(f"{f}: {m.group(0)}")
    return bad


CLEAN_DIRS: dict = {}   # prop -> private from-scratch build dir (thorough tier), removed after coqchk


class CoqResult:
    def __init__(self):
        self.ok = True
        self.errors: list[str] = []
        self.theorems: dict[str, list[str]] = {}  # theorem -> axioms ([] = closed)
        self.make_s = 0.0


def coq_make(targets: list[str], jobs=8, timeout=3000) -> tuple[bool, str]:
    with Lock(COQ / ".lock"):
        # the generated tables are re-emitted from $VERIF_REPO under the same lock as the build that consumes them:
        # checks of different trees (seed tests) may run side by side on the shared Coq tree
        from tools import translate
        translate.main(quiet=True)
        regen_coqproject()
        p = subprocess.run(["bash", "-c", 'ulimit -v 12000000; exec timeout "$@"', "_", str(timeout), "make", f"-j{jobs}"] + targets, cwd=COQ,
                           stdout=subprocess.PIPE, stderr=subprocess.STDOUT, text=True)
    return p.returncode == 0, p.stdout


def parse_assumptions(out: str) -> list[tuple[str, list[str]]]:
    """Parse the output of a Props file: sequence of Print Assumptions results, in order."""
    res = []
    lines = out.splitlines()
    i = 0
    while i < len(lines):
        ln = lines[i]
        if ln.startswith("Closed under the global context"):
            res.append([])
        elif ln.startswith("Axioms:"):
            ax = []
            i += 1
            while i < len(lines) and lines[i] and not lines[i].startswith(("Closed under", "Axioms:")):
                m = re.match(r"^([A-Za-z_][\w.']*)\s*(:|$)", lines[i])
                if m:
                    ax.append(m.group(1))
                i += 1
            res.append(ax)
            continue
        i += 1
    return res


def props_theorems(props_file: Path) -> list[str]:
    """Theorem names followed by Print Assumptions, in file order."""
    txt = props_file.read_text()
    return re.findall(r"^Print Assumptions\s+([\w']+)\s*\.", txt, flags=re.M)


def coq_check_props(prop_id: str, clean=False) -> CoqResult:
    """Build everything Props/<id>.v depends on, then recompile Props/<id>.v
    capturing its Print Assumptions output."""
    r = CoqResult()
    t0 = time.time()
    bad = source_hygiene()
    if bad:
        r.ok = False
        r.errors += ["forbidden vernacular: " + b for b in bad]
    props = COQ / "Props" / f"{prop_id}.v"
    if not props.exists():
        r.ok = False
        r.errors.append(f"missing {props}")
        return r
    workdir = COQ
    if clean:
        # thorough tier: a from-scratch .vo build of everything the property needs, in a private copy of the
        # sources (a `make clean` in the shared tree would pull the rug from under concurrent checks)
        workdir = BUILD / f"clean_{prop_id}_{os.getpid()}"
        shutil.rmtree(workdir, ignore_errors=True)
        with Lock(COQ / ".lock"):
            from tools import translate
            translate.main(quiet=True)
            for sub in ("Gen", "Model", "Proofs", "Props"):
                (workdir / sub).mkdir(parents=True, exist_ok=True)
                for f in (COQ / sub).glob("*.v"):
                    shutil.copy(f, workdir / sub / f.name)
        (workdir / "_CoqProject").write_text("-Q . NP\n" + "\n".join(coq_files()) + "\n")
        subprocess.run(["coq_makefile", "-f", "_CoqProject", "-o", "Makefile"], cwd=workdir,
                       stdout=subprocess.DEVNULL, stderr=subprocess.DEVNULL)
        pm = subprocess.run(["bash", "-c", 'ulimit -v 12000000; exec timeout "$@"', "_", "5400", "make", "-j8", f"Props/{prop_id}.vo"],
                            cwd=workdir, stdout=subprocess.PIPE, stderr=subprocess.STDOUT, text=True)
        ok, out = pm.returncode == 0, pm.stdout
        CLEAN_DIRS[prop_id] = workdir
    else:
        outer = Lock(COQ / ".lock")
        outer.__enter__()
        try:
            ok, out = coq_make([f"Props/{prop_id}.vo"])
            if ok:
                p = subprocess.run(["bash", "-c", 'ulimit -v 12000000; exec timeout "$@"', "_", "900", "coqc", "-Q", ".", "NP", f"Props/{prop_id}.v"], cwd=workdir,
                                   stdout=subprocess.PIPE, stderr=subprocess.STDOUT, text=True)
        finally:
            outer.__exit__()
    if not ok:
        r.ok = False
        r.errors.append("coq build failed:\n" + out[-3000:])
        r.make_s = time.time() - t0
        return r
    # recompile the property file itself for fresh Print Assumptions output
    if clean:
        p = subprocess.run(["bash", "-c", 'ulimit -v 12000000; exec timeout "$@"', "_", "900", "coqc", "-Q", ".", "NP", f"Props/{prop_id}.v"], cwd=workdir,
                           stdout=subprocess.PIPE, stderr=subprocess.STDOUT, text=True)
    if p.returncode != 0:
        r.ok = False
        r.errors.append("coqc Props failed:\n" + p.stdout[-3000:])
        r.make_s = time.time() - t0
        return r
    names = props_theorems(workdir / "Props" / f"{prop_id}.v")
    ass = parse_assumptions(p.stdout)
    if len(names) != len(ass) or not names:
        r.ok = False
        r.errors.append(f"Print Assumptions count mismatch: {len(names)} theorems, {len(ass)} results")
    for n, a in zip(names, ass):
        r.theorems[n] = a
        for ax in a:
            base = ax
            if base in ALLOWED_AXIOMS or base.startswith(ALLOWED_AXIOM_PREFIXES):
                continue
            r.ok = False
            r.errors.append(f"theorem {n} depends on non-allow-listed axiom {ax}")
    # every Theorem in the file must be followed by Print Assumptions
    declared = re.findall(r"^Theorem\s+([\w']+)", (workdir / "Props" / f"{prop_id}.v").read_text(), flags=re.M)
    for d in declared:
        if d not in names:
            r.ok = False
            r.errors.append(f"theorem {d} has no Print Assumptions")
    r.make_s = time.time() - t0
    return r


# --------------------------------------------------------------------------
# extraction + model runner
# --------------------------------------------------------------------------
def build_model(entry: str) -> Path:
    """Extract NP.Model.<entry>.handle to OCaml and link the line driver.
    Rebuilt when the entry's .vo or the driver is newer than the binary."""
    with Lock(COQ / ".lock"):
        return _build_model_locked(entry)


def _build_model_locked(entry: str) -> Path:
    ok, out = coq_make([f"Model/{entry}.vo"])
    if not ok:
        raise RuntimeError("model build failed:\n" + out[-3000:])
    d = BUILD / entry
    d.mkdir(parents=True, exist_ok=True)
    exe = d / "modelrun"
    with Lock(d / ".lock"):
        deps = [COQ / "Model" / f"{entry}.vo", VERIF / "driver" / "driver.ml"]
        if exe.exists() and all(exe.stat().st_mtime >= x.stat().st_mtime for x in deps):
            return exe
        (d / "ex.v").write_text(
            "From Coq Require Import ExtrOcamlBasic.\n"
            f"From NP Require Import Model.PyBase Model.{entry}.\n"
            'Extraction "entry.ml" handle N_of_bits.\n'
        )
        p = subprocess.run(["timeout", "600", "coqc", "-Q", str(COQ), "NP", "ex.v"], cwd=d,
                           stdout=subprocess.PIPE, stderr=subprocess.STDOUT, text=True)
        if p.returncode != 0:
            raise RuntimeError("extraction failed:\n" + p.stdout[-3000:])
        shutil.copy(VERIF / "driver" / "driver.ml", d / "driver.ml")
        p = subprocess.run(["ocamlfind", "ocamlopt", "-w", "-a", "-inline", "100",
                            "entry.mli", "entry.ml", "driver.ml", "-o", "modelrun"], cwd=d,
                           stdout=subprocess.PIPE, stderr=subprocess.STDOUT, text=True)
        if p.returncode != 0:
            raise RuntimeError("ocamlopt failed:\n" + p.stdout[-3000:])
    return exe


def run_model(exe: Path, lines: list[str], shards: int = 8) -> list[str]:
    """Feed request lines to the extracted model; one result line per request."""
    if not lines:
        return []
    for ln in lines:
        if "\n" in ln or "\r" in ln:
            raise ValueError("newline in model request: %r" % ln[:80])
    n = len(lines)
    shards = max(1, min(shards, n // 2000 + 1))
    size = (n + shards - 1) // shards
    procs = []
    for k in range(shards):
        chunk = lines[k * size:(k + 1) * size]
        if not chunk:
            continue
        data = ("\n".join(chunk) + "\n").encode("latin-1")
        p = subprocess.Popen([str(exe)], stdin=subprocess.PIPE, stdout=subprocess.PIPE, stderr=subprocess.PIPE)
        procs.append((p, data, len(chunk)))
    # feed/collect with threads to avoid pipe deadlocks
    import threading
    outs = [None] * len(procs)

    def work(i):
        p, data, _ = procs[i]
        o, e = p.communicate(data)
        outs[i] = (o, e, p.returncode)

    ths = [threading.Thread(target=work, args=(i,)) for i in range(len(procs))]
    [t.start() for t in ths]
    [t.join() for t in ths]
    res: list[str] = []
    for (p, data, cnt), (o, e, rc) in zip(procs, outs):
        if rc != 0:
            raise RuntimeError(f"modelrun exit {rc}: {e.decode(errors='replace')[-500:]}")
        ls = o.decode("latin-1").split("\n")
        if ls and ls[-1] == "":
            ls.pop()
        if len(ls) != cnt:
            raise RuntimeError(f"modelrun returned {len(ls)} lines for {cnt} requests")
        res += ls
    return res


# code-point list encoding used for non-ASCII text fields: "65,66,8805"
def cps(s: str) -> str:
    return ",".join(str(ord(c)) for c in s)


def uncps(t: str) -> str:
    return "".join(chr(int(x)) for x in t.split(",") if x != "")


def exc_class(e: BaseException) -> str:
    """Canonical name of an exception for comparison with the model's !Name."""
    from numbers_parser import exceptions as X  # noqa
    n = type(e).__name__
    return n


# --------------------------------------------------------------------------
# check context
# --------------------------------------------------------------------------
class Ctx:
    def __init__(self, prop: str, tier: str, seed: int, level: str):
        self.prop = prop
        self.tier = tier
        self.seed = seed
        self.level = level
        self.rng = random.Random(seed)
        self.t0 = time.time()
        self.evaluations = 0
        self.distinct: set = set()
        self.samples: list = []
        self.distribution: dict = {}
        self.streams: dict = {}
        self.disagreements: list = []   # (stream, case, model, impl)
        self.oracle_failures: list = [] # (signature, case, detail)
        self._sig_counts: dict = {}
        self.obligation_errors: list[str] = []
        self.theorems: dict[str, list[str]] = {}
        self.trusted_base: list[str] = []
        self.assumptions: list[str] = []
        self.notes: list[str] = []
        self.tmp = Path(tempfile.mkdtemp(prefix=f"verif_{prop}_"))
        self.coq: CoqResult | None = None
        self.extra: dict = {}

    @property
    def quick(self):
        return self.tier == "quick"

    def cleanup(self):
        shutil.rmtree(self.tmp, ignore_errors=True)

    # ---- bookkeeping
    def count(self, stream: str, n: int = 1):
        self.evaluations += n
        self.streams[stream] = self.streams.get(stream, 0) + n

    def nontrivial(self, key):
        if len(self.distinct) < 2_000_000:
            self.distinct.add(key if isinstance(key, (str, int, tuple)) else json.dumps(key, sort_keys=True, default=str))

    def sample(self, x, cap=6):
        if len(self.samples) < cap:
            self.samples.append(x)

    def dist(self, key: str, n: int = 1):
        self.distribution[key] = self.distribution.get(key, 0) + n

    def disagree(self, stream: str, case, model, impl):
        if len(self.disagreements) < 200:
            self.disagreements.append((stream, case, model, impl))
        else:
            self.extra["disagreements_truncated"] = True

    def oracle_fail(self, signature: str, case, detail: str):
        # cap per signature so that one defect class cannot hide another
        n = self._sig_counts.get(signature, 0)
        self._sig_counts[signature] = n + 1
        if n < 25:
            self.oracle_failures.append((signature, case, detail))

    # ---- model correspondence helper
    def compare(self, stream: str, cases: list, reqs: list[str], impl_outs: list[str], exe: Path,
                nontrivial=lambda case, out: not out.startswith("!")):
        model_outs = run_model(exe, reqs)
        for case, m, i in zip(cases, model_outs, impl_outs):
            self.count(stream)
            if nontrivial(case, i):
                self.nontrivial((stream, str(case)))
            if m != i:
                self.disagree(stream, case, m, i)
        if cases:
            self.sample({"stream": stream, "case": cases[len(cases) // 2], "model": model_outs[len(cases) // 2],
                         "impl": impl_outs[len(cases) // 2]})
        return model_outs


def load_known() -> list[dict]:
    """known_findings.json (committed, never written at run time)."""
    out = []
    p = VERIF / "known_findings.json"
    if p.exists():
        out += json.loads(p.read_text()).get("findings", [])
    for frag in sorted((VERIF / "known_findings.d").glob("*.json")):
        out += json.loads(frag.read_text()).get("findings", [])
    return out


def finish(ctx: Ctx, search=None) -> int:
    """Decide the outcome, print VIOLATION / KNOWN-FINDING lines, write evidence.
    `search(ctx, hint)` is the per-property witness search: returns a list of
    (signature, case, detail) failing the implementation-only oracle."""
    known_open = {k["signature"]: k for k in load_known() if k["property"] == ctx.prop and k.get("status") == "open"}
    rep_dir = VERIF / "replays"
    rep_dir.mkdir(exist_ok=True)
    violations = []      # (replay_path, suffix)
    known_hits: dict[str, int] = {}

    def write_replay(kind: str, payload: dict) -> Path:
        blob = json.dumps(payload, sort_keys=True, default=str)
        h = hashlib.sha1(blob.encode()).hexdigest()[:12]
        path = rep_dir / f"{ctx.prop}-{kind}-{h}.json"
        path.write_text(json.dumps(payload, indent=1, default=str))
        return path

    # 1. broken obligations / correspondences trigger the witness search
    broken = []
    if ctx.obligation_errors:
        broken.append({"kind": "obligation", "what": ctx.obligation_errors})
    if ctx.disagreements:
        broken.append({"kind": "correspondence", "what": [
            {"stream": s, "case": c, "model": m, "impl": i} for (s, c, m, i) in ctx.disagreements[:20]]})
    found_by_search = []
    if broken and search is not None:
        try:
            found_by_search = search(ctx, broken) or []
        except Exception as e:  # the search itself must not hide the break
            ctx.notes.append(f"witness search raised {type(e).__name__}: {e}")
    all_fail = list(ctx.oracle_failures) + list(found_by_search)

    # 2. oracle failures -> violations unless listed as known
    seen_sig = set()
    new_fail = []
    for sig, case, detail in all_fail:
        if sig in known_open:
            known_hits[sig] = known_hits.get(sig, 0) + 1
            continue
        if sig in seen_sig:
            continue
        seen_sig.add(sig)
        new_fail.append((sig, case, detail))
    for sig, case, detail in new_fail[:5]:
        path = write_replay("witness", {"property": ctx.prop, "kind": "failing-input", "signature": sig,
                                        "case": case, "detail": detail, "seed": ctx.seed, "tier": ctx.tier})
        violations.append((path, ""))

    # 3. a break with no failing input found (and not explained by a known finding)
    if broken and not new_fail:
        explained = bool(known_hits) and not ctx.obligation_errors and all(
            d_explained(ctx, d, known_open) for d in ctx.disagreements)
        if not explained:
            path = write_replay("unproved", {"property": ctx.prop, "kind": "no-failing-input-found",
                                             "broken": broken, "seed": ctx.seed, "tier": ctx.tier,
                                             "note": "the named theorem/correspondence no longer checks"})
            violations.append((path, " no-failing-input-found"))

    for sig, n in sorted(known_hits.items()):
        print(f"KNOWN-FINDING: property={ctx.prop} {known_open[sig]['description']} [signature {sig}, {n} case(s) this run]")
    for path, suffix in violations:
        print(f"VIOLATION property={ctx.prop} replay={path}{suffix}")

    write_evidence(ctx, len(violations), known_hits)
    for d in list(CLEAN_DIRS.values()):
        shutil.rmtree(d, ignore_errors=True)
    CLEAN_DIRS.clear()
    ctx.cleanup()
    return 1 if violations else 0


def d_explained(ctx, d, known_open) -> bool:
    """A disagreement is explained when the property module tagged it with a known signature."""
    stream, case, m, i = d
    sig = ctx.extra.get("disagreement_signature")
    if sig is None:
        return False
    try:
        return sig(stream, case, m, i) in known_open
    except Exception:
        return False


def write_evidence(ctx: Ctx, nviol: int, known_hits: dict):
    # evidence/ holds runs against /repo itself; runs against a scratch tree (seeded defects) are redirected
    ev_dir = Path(os.environ.get("VERIF_EVIDENCE_DIR", VERIF / "evidence"))
    ev_dir.mkdir(parents=True, exist_ok=True)
    thms = ctx.theorems
    obligations = len(thms) + len(ctx.extra.get("gen_obligations", []))
    if not thms:
        pf = COQ / "Props" / f"{ctx.prop}.v"
        obligations = len(props_theorems(pf)) if pf.exists() else 0
    discharged = 0 if ctx.obligation_errors else obligations
    cov = {
        "evaluations": ctx.evaluations,
        "distinct_nontrivial": len(ctx.distinct),
        "rule": ctx.extra.get("rule", ""),
        "samples": ctx.samples[:8] or [{"note": "no sample recorded"}],
        "obligations": obligations,
        "discharged": discharged,
        "checker_cmd": ctx.extra.get("checker_cmd", f"cd coq && make Props/{ctx.prop}.vo && coqc -Q . NP Props/{ctx.prop}.v  (Coq 8.16.1, full .vo build)"),
        "trusted_base": ctx.trusted_base,
        "theorems": {k: ("closed" if not v else v) for k, v in thms.items()},
        "gen_obligations": ctx.extra.get("gen_obligations", []),
        "streams": ctx.streams,
        "input_distribution": ctx.distribution,
        "disagreements": len(ctx.disagreements),
        "oracle_failures": sum(ctx._sig_counts.values()),
        "oracle_failure_signatures": dict(ctx._sig_counts),
        "known_findings_hit": known_hits,
        "exhaustive": bool(ctx.extra.get("exhaustive", False)),
        "explanation": ctx.extra.get("explanation", ""),
        "notes": ctx.notes,
    }
    if ctx.extra.get("coqchk"):
        cov["coqchk"] = ctx.extra["coqchk"]
    if discharged == 0 or obligations == 0:
        # broken obligations: keep the schema's proof keys out (they require >= 1) and say what broke
        cov["obligations_total"] = cov.pop("obligations")
        cov["obligations_discharged"] = cov.pop("discharged")
        cov["obligation_errors"] = [e[:1500] for e in ctx.obligation_errors[:5]]
    ev = {
        "property_id": ctx.prop,
        "tier": ctx.tier,
        "seed": ctx.seed,
        "level": ctx.level,
        "coverage": cov,
        "assumptions": ctx.assumptions,
        "wall_s": round(time.time() - ctx.t0, 2),
        "violations": nviol,
    }
    tmp = ev_dir / f".{ctx.prop}.json.tmp"
    tmp.write_text(json.dumps(ev, indent=1, default=str))
    os.replace(tmp, ev_dir / f"{ctx.prop}.json")


def coqchk(prop: str, timeout=1500) -> dict:
    """Independent re-check of the compiled property file (thorough tier)."""
    t0 = time.time()
    cwd = CLEAN_DIRS.get(prop, COQ)
    p = subprocess.run(["timeout", str(timeout), "coqchk", "-silent", "-o", "-Q", ".", "NP", f"NP.Props.{prop}"],
                       cwd=cwd, stdout=subprocess.PIPE, stderr=subprocess.STDOUT, text=True)
    out = p.stdout
    if prop in CLEAN_DIRS:
        shutil.rmtree(CLEAN_DIRS.pop(prop), ignore_errors=True)
    axioms = []
    m = re.search(r"\* Axioms:(.*?)(\n\* |\Z)", out, flags=re.S)
    if m:
        axioms = [x.strip() for x in m.group(1).strip().splitlines() if x.strip() and "<none>" not in x]
    return {"exit": p.returncode, "wall_s": round(time.time() - t0, 1), "axioms": axioms[:60],
            "tail": out[-400:] if p.returncode else ""}


def standard_trusted_base(ctx: Ctx, extra: list[str] = ()):  # noqa
    ctx.trusted_base += [
        "Coq 8.16.1 kernel (coqc, full .vo build, vm_compute used; native_compute not used)",
        "extraction: ExtrOcamlBasic only (bool, option, unit, list, prod, sumbool, sumor -> OCaml types); no Extract Constant; nat/positive/N/Z stay Coq datatypes; OCaml 4.13.1 ocamlopt",
        "driver/driver.ml: moves bytes between stdin/stdout and the extracted handle function",
        "correspondence harness (harness/*.py): generators, implementation drivers, canonicalisers, diff - differential testing that ties the hand-written model to /repo/src",
        "the Gallina models are hand-written mirrors of the Python source (modelled, not verified)",
    ] + list(extra)
