"""C16 - table geometry and labels survive save and reopen unchanged.

Theorems: coq/Props/C16.v (model coq/Model/Sizes.v).
Correspondence: the same generated history (sizes set, sizes queried, borders drawn, labels
set, save, save+reopen) is run on a real document and, line by line (each row / column of
the edited table), on the extracted model; every reported size, the finally persisted
header sizes and every label observation are diffed.
Oracle (implementation only): a history with saves, reopens and queries removed, run on a
second document that is never saved, must report exactly what a fresh reader of the file
written by the full history reports."""
from __future__ import annotations

import json
import warnings
from fractions import Fraction
from pathlib import Path

from . import common
from .common import Ctx

LEVEL = "proof"
ENTRY = "C16Entry"
WIDTHS = [0.35, 1.0, 3.0, 8.0, 0.5, 2.0]
SIDES = ["top", "right", "bottom", "left"]
NAMES = ["T", "Données", "表 1", "a b", "Table 1", "x" * 40, "Sales/2024", "it's", "Ünï"]
CAPTIONS = ["", "Caption", "Figure 1: totals", "légende ✓", "two\nlines", "c" * 120, "0"]

QUICK_FIXTURES = [
    "issue-69b.numbers", "issue-7.numbers", "issue-66-collab.numbers", "test-styles.numbers", "issue-14.numbers",
    "issue-59.numbers", "issue-80.numbers", "issue-96.numbers", "test-8.numbers", "test-extra-borders.numbers",
    "test-1.numbers", "test-4.numbers", "test-issue-75.numbers", "test-titles.numbers", "test-6.numbers",
    "issue-77.numbers", "test-3.numbers", "test-pivot.numbers", "test-10.numbers",
]


def fq(x) -> str:
    f = Fraction(x)
    return f"{f.numerator}/{f.denominator}"


def exn(e: BaseException) -> str:
    return "!" + type(e).__name__


# ---------------------------------------------------------------- implementation driver
def open_source(src: dict):
    from numbers_parser import Document
    if "fixture" in src:
        return Document(str(common.REPO / "tests" / "data" / src["fixture"]))
    kw = src["new"]
    doc = Document(num_rows=kw["rows"], num_cols=kw["cols"], num_header_rows=kw.get("hr", 1), num_header_cols=kw.get("hc", 1),
                   table_name=kw.get("tname", "Table 1"), sheet_name=kw.get("sname", "Sheet 1"))
    for ex in src.get("extra", []):
        doc.sheets[0].add_table(ex["name"], x=ex.get("x"), y=ex.get("y"), num_rows=ex["rows"], num_cols=ex["cols"])
    return doc


def the_table(doc, tbl):
    return doc.sheets[tbl[0]].tables[tbl[1]]


def labels_obs(doc, tbl) -> str:
    """Label observation of one table in the format of the model's show_labels."""
    sheet = doc.sheets[tbl[0]]
    t = sheet.tables[tbl[1]]
    x, y = t.coordinates
    return "|".join([common.cps(sheet.name), common.cps(t.name), str(int(bool(t.table_name_enabled))),
                     str(t.num_header_rows), str(t.num_header_cols), common.cps(t.caption),
                     str(int(bool(t.caption_enabled))), fq(x), fq(y)])


def apply_event(doc, tbl, ev):
    """One event on the open document; returns what the call reported (or None)."""
    from numbers_parser import RGB, Border
    sheet = doc.sheets[tbl[0]]
    t = sheet.tables[tbl[1]]
    k = ev[0]
    if k == "rh":
        t.row_height(ev[1], ev[2])
    elif k == "cw":
        t.col_width(ev[1], ev[2])
    elif k == "q_rh":
        return t.row_height(ev[1])
    elif k == "q_cw":
        return t.col_width(ev[1])
    elif k == "q_h":
        return t.height
    elif k == "q_w":
        return t.width
    elif k == "border":
        t.set_cell_border(ev[1], ev[2], ev[3], Border(float(ev[4]), RGB(0, 0, 0), "solid"), ev[5])
    elif k in ("hr", "hc"):
        try:
            if k == "hr":
                t.num_header_rows = ev[1]
            else:
                t.num_header_cols = ev[1]
        except ValueError as e:
            return exn(e)
    elif k == "tname":
        t.name = ev[1]
    elif k == "sname":
        sheet.name = ev[1]
    elif k == "cap":
        t.caption = ev[1]
    elif k == "cap_en":
        t.caption_enabled = bool(ev[1])
    elif k == "name_en":
        t.table_name_enabled = bool(ev[1])
    elif k == "q_lab":
        return labels_obs(doc, tbl)
    else:
        raise ValueError(f"unknown event {ev!r}")
    return None


def raw_sizes(doc, tbl):
    """The persisted header sizes and the table defaults, read from the archives."""
    t = the_table(doc, tbl)
    m = doc._model
    tm = m.objects[t._table_id]
    bds = tm.base_data_store
    rows = {h.index: h.size for h in m.objects[bds.rowHeaders.buckets[0].identifier].headers}
    cols = {h.index: h.size for h in m.objects[bds.columnHeaders.identifier].headers}
    return rows, cols, tm.default_row_height, tm.default_column_width


def line_borders(t, kind, i):
    """Widest border on the two sides of a row / column, as the implementation's cells report them."""
    if kind == "r":
        cells = [t.cell(i, c) for c in range(t.num_cols)]
        a, b = "top", "bottom"
    else:
        cells = [t.cell(r, i) for r in range(t.num_rows)]
        a, b = "left", "right"
    lo = max([Fraction(0)] + [Fraction(getattr(c.border, a).width) for c in cells if getattr(c.border, a) is not None])
    hi = max([Fraction(0)] + [Fraction(getattr(c.border, b).width) for c in cells if getattr(c.border, b) is not None])
    return lo, hi


def sel_lines(n: int, touched=()):
    return sorted(set(range(min(n, 30))) | set(range(max(0, n - 5), n)) | {i for i in touched if 0 <= i < n})


def touched_lines(H):
    rows, cols = set(), set()
    for ev in H:
        if ev[0] in ("rh", "q_rh"):
            rows.add(ev[1])
        elif ev[0] in ("cw", "q_cw"):
            cols.add(ev[1])
        elif ev[0] == "border":
            _, r, c, side, _w, ln = ev
            if side in ("top", "bottom"):
                rows.update((r - 1, r, r + 1))
            else:
                cols.update((c - 1, c, c + 1))
    return rows, cols


class Tracer:
    """Per-line histories of the edited table, for the model."""

    def __init__(self, doc, tbl, H):
        self.tbl = tbl
        t = the_table(doc, tbl)
        rows, cols, dr, dc = raw_sizes(doc, tbl)
        tr, tc = touched_lines(H)
        self.dflt = {"r": fq(dr), "c": fq(dc)}
        self.lines = {}
        for kind, n, buckets, touched in (("r", t.num_rows, rows, tr), ("c", t.num_cols, cols, tc)):
            for i in sel_lines(n, touched):
                lo, hi = line_borders(t, kind, i)
                self.lines[(kind, i)] = {"bucket": fq(buckets[i]) if i in buckets else "-", "lo0": lo, "hi0": hi,
                                         "lo": lo, "hi": hi, "ops": [], "obs": []}
        # labels
        m = doc._model
        info = m.objects[m.table_info_id(t._table_id)]
        cap = m.objects[info.super.caption.identifier]
        if cap.DESCRIPTOR.name == "StandinCaptionArchive":
            cap_s = "-"
        else:
            texts = list(m.objects[cap.super.owned_storage.identifier].text)
            cap_s = "/".join((common.cps(x) if x else "e") for x in texts) if texts else "."
        x, y = t.coordinates
        self.lab0 = [str(t.num_rows), str(t.num_cols), common.cps(doc.sheets[tbl[0]].name), common.cps(t.name),
                     str(int(bool(t.table_name_enabled))), str(t.num_header_rows), str(t.num_header_cols), cap_s,
                     str(int(bool(info.super.caption_hidden))), fq(x), fq(y)]
        self.lab_ops = []
        self.lab_obs = []

    def all_op(self, op):
        for ln in self.lines.values():
            ln["ops"].append(op)

    def refresh_borders(self, doc, keys, force):
        t = the_table(doc, self.tbl)
        for key in keys:
            ln = self.lines.get(key)
            if ln is None:
                continue
            lo, hi = line_borders(t, key[0], key[1])
            if force or (lo, hi) != (ln["lo"], ln["hi"]):
                ln["lo"], ln["hi"] = lo, hi
                ln["ops"].append(f"b{fq(lo)};{fq(hi)}")

    def observe_line(self, doc, kind, i):
        t = the_table(doc, self.tbl)
        v = t.row_height(i) if kind == "r" else t.col_width(i)
        ln = self.lines.get((kind, i))
        if ln is not None:
            ln["ops"].append("o")
            ln["obs"].append(str(v))
        return v

    def event(self, doc, ev, out):
        k = ev[0]
        if k == "rh" and ("r", ev[1]) in self.lines:
            self.lines[("r", ev[1])]["ops"].append(f"s{ev[2]}")
        elif k == "cw" and ("c", ev[1]) in self.lines:
            self.lines[("c", ev[1])]["ops"].append(f"s{ev[2]}")
        elif k == "border":
            _, r, c, side, _w, _ln = ev
            if side == "top":
                keys = [("r", r), ("r", r - 1)]
            elif side == "bottom":
                keys = [("r", r), ("r", r + 1)]
            elif side == "left":
                keys = [("c", c), ("c", c - 1)]
            else:
                keys = [("c", c), ("c", c + 1)]
            self.refresh_borders(doc, keys, force=True)
        elif k == "save":
            self.all_op("v")
        elif k == "cycle":
            self.all_op("c")
            self.lab_ops.append("y")
            self.refresh_borders(doc, list(self.lines), force=False)
        elif k in ("hr", "hc"):
            self.lab_ops.append(("R" if k == "hr" else "K") + str(ev[1]))
            if out is not None:
                self.lab_obs.append(out)
        elif k == "tname":
            self.lab_ops.append("T" + common.cps(ev[1]))
        elif k == "sname":
            self.lab_ops.append("S" + common.cps(ev[1]))
        elif k == "cap":
            self.lab_ops.append("C" + common.cps(ev[1]))
        elif k == "cap_en":
            self.lab_ops.append("E" + str(int(ev[1])))
        elif k == "name_en":
            self.lab_ops.append("N" + str(int(ev[1])))
        elif k == "q_lab":
            self.lab_ops.append("g")
            self.lab_obs.append(out)


def run_history(src, tbl, H, tmp: Path, tag: str, trace: bool):
    """Run a history on a real document.  With trace=True the per-line histories for the model are
    collected; size queries are then made line by line so that every reported value is known."""
    from numbers_parser import Document
    doc = open_source(src)
    tracer = Tracer(doc, tbl, H) if trace else None
    nfile = 0
    last = None
    for ev in H:
        k = ev[0]
        if k in ("save", "cycle"):
            nfile += 1
            p = tmp / f"{tag}_{nfile}.numbers"
            doc.save(p)
            last = p
            if k == "cycle":
                doc = Document(p)
            out = None
        elif trace and k in ("q_rh", "q_cw"):
            out = tracer.observe_line(doc, "r" if k == "q_rh" else "c", ev[1])
        elif trace and k in ("q_h", "q_w"):
            t = the_table(doc, tbl)
            kind = "r" if k == "q_h" else "c"
            vals = [tracer.observe_line(doc, kind, i) for i in range(t.num_rows if kind == "r" else t.num_cols)]
            out = apply_event(doc, tbl, ev)
            if out != sum(vals):
                raise AssertionError(f"{k} = {out} but the lines add up to {sum(vals)}")
        else:
            out = apply_event(doc, tbl, ev)
        if tracer:
            tracer.event(doc, ev, out)
    return doc, tracer, last


def observe_full(doc, touched_by_table=None, big=400, widths_first=False) -> dict:
    """Everything C16 names, read through the public API, per sheet/table.  widths_first: column widths and the table
    width are the very first things read from each table (round 7: what a reopened document reports must not depend on
    which accessor happened to be called first)."""
    out = {}
    for si, sheet in enumerate(doc.sheets):
        out[f"sheet{si}.name"] = sheet.name
        for ti, t in enumerate(sheet.tables):
            key = f"s{si}t{ti}"
            tr, tc = (touched_by_table or {}).get((si, ti), ((), ()))

            def get(f):
                try:
                    return f()
                except Exception as e:  # noqa: BLE001
                    return exn(e)
            if widths_first:
                for c in sel_lines(t.num_cols, tc):
                    out[f"{key}.col_width[{c}]"] = get(lambda c=c: t.col_width(c))
                if t.num_cols <= big:
                    out[key + ".width"] = get(lambda: t.width)
            out[key + ".name"] = get(lambda: t.name)
            out[key + ".table_name_enabled"] = get(lambda: t.table_name_enabled)
            out[key + ".num_header_rows"] = get(lambda: t.num_header_rows)
            out[key + ".num_header_cols"] = get(lambda: t.num_header_cols)
            out[key + ".caption"] = get(lambda: t.caption)
            out[key + ".caption_enabled"] = get(lambda: t.caption_enabled)
            out[key + ".coordinates"] = get(lambda: [float(v).hex() for v in t.coordinates])
            out[key + ".shape"] = [t.num_rows, t.num_cols]
            for r in sel_lines(t.num_rows, tr):
                out[f"{key}.row_height[{r}]"] = get(lambda r=r: t.row_height(r))
            for c in sel_lines(t.num_cols, tc):
                if not widths_first:
                    out[f"{key}.col_width[{c}]"] = get(lambda c=c: t.col_width(c))
            if t.num_rows <= big:
                out[key + ".height"] = get(lambda: t.height)
            if t.num_cols <= big and not widths_first:
                out[key + ".width"] = get(lambda: t.width)
    return out


def erase(H):
    """The history without saves, reopens and queries."""
    return [ev for ev in H if ev[0] not in ("save", "cycle") and not ev[0].startswith("q_")]


def oracle_case(case: dict, tmp: Path, tag: str, final_path=None):
    """Implementation-only statement of C16 on one case.  Returns a list of (signature, detail)."""
    from numbers_parser import Document
    src, tbl, H = case["source"], tuple(case["table"]), case["history"]
    touched = {tbl: touched_lines(H)}
    fails = []
    try:
        ref, _, _ = run_history(src, tbl, erase(H), tmp, tag + "_ref", trace=False)
        t_ref = the_table(ref, tbl)
        # which lines carry a border allowance, which were queried before a save (for the signature only)
        o_ref = observe_full(ref, touched)
        # the same with the history's own queries kept (a stale cache in the open document shows here)
        o_refq = None
        if any(ev[0].startswith("q_") for ev in H):
            refq, _, _ = run_history(src, tbl, [ev for ev in H if ev[0] not in ("save", "cycle")], tmp, tag + "_refq", trace=False)
            o_refq = observe_full(refq, touched)
    except Exception as e:  # noqa: BLE001
        return [("reference-run-raises", f"{type(e).__name__}: {e}")]
    # labels set through the API read back as set (the last value given), before any save
    last = {}
    for ev in H:
        if ev[0] in ("tname", "sname", "cap", "cap_en", "name_en"):
            last[ev[0]] = ev[1]
    try:
        sh_ref = ref.sheets[tbl[0]]
        got = {"tname": t_ref.name, "sname": sh_ref.name, "cap": t_ref.caption, "cap_en": bool(t_ref.caption_enabled), "name_en": bool(t_ref.table_name_enabled)}
        for k, v in last.items():
            if k == "cap_en" and "cap" not in last:
                continue      # a table that never had a caption (stand-in archive) reports its caption as not shown
            want = bool(v) if k in ("cap_en", "name_en") else v
            if got[k] != want:
                fails.append((f"label-set-not-read-back:{k}", f"{k} set to {want!r} (last of the history), the open document reads {got[k]!r}"))
    except Exception as e:  # noqa: BLE001
        fails.append(("reference-run-raises", f"reading labels: {type(e).__name__}: {e}"))
    try:
        if final_path is None:
            _, _, final_path = run_history(src, tbl, H + [["cycle"]], tmp, tag + "_run", trace=False)
        fresh = Document(final_path)
        o_fin = observe_full(fresh, touched)
        o_fin_w = observe_full(Document(final_path), touched, widths_first=True)
    except Exception as e:  # noqa: BLE001
        return [("save-reopen-raises", f"{type(e).__name__}: {e}")]
    for k in sorted(o_fin):
        if o_fin_w.get(k) != o_fin[k]:
            fails.append(("reopened-read-order:" + k.split(".", 1)[1].split("[")[0],
                          f"{k}: the reopened document reports {o_fin[k]!r} when heights are read first and {o_fin_w.get(k)!r} when widths are read first"))
            break
    queried_r = {ev[1] for ev in H if ev[0] == "q_rh"}
    queried_c = {ev[1] for ev in H if ev[0] == "q_cw"}
    all_r = any(ev[0] == "q_h" for ev in H)
    all_c = any(ev[0] == "q_w" for ev in H)
    for k in sorted(set(o_ref) | set(o_fin)):
        a, b = o_ref.get(k), o_fin.get(k)
        if a == b and o_refq is not None:
            a = o_refq.get(k)
        if a == b:
            continue
        field = k.split(".", 1)[1] if "." in k else k
        if field.startswith("row_height[") or field.startswith("col_width["):
            idx = int(field[field.index("[") + 1:-1])
            is_row = field.startswith("row")
            on_tbl = k.startswith(f"s{tbl[0]}t{tbl[1]}.")
            q = (all_r or idx in queried_r) if is_row else (all_c or idx in queried_c)
            sig = ("row-height-changed:" if is_row else "col-width-changed:") + ("queried" if (q and on_tbl) else "unqueried")
        elif field in ("height", "width"):
            sig = f"table-{field}-changed"
        else:
            sig = "label-changed:" + field.split("[")[0]
        fails.append((sig, f"{k}: {a!r} in the never-saved document, {b!r} after the history's saves/reopens"))
    # a size set on a line without borders is reported as set, before and after
    last_set = {}
    for ev in erase(H):
        if ev[0] in ("rh", "cw"):
            last_set[(ev[0], ev[1])] = ev[2]
    for (kind, i), h in last_set.items():
        lo, hi = line_borders(t_ref, "r" if kind == "rh" else "c", i)
        name = f"s{tbl[0]}t{tbl[1]}." + (f"row_height[{i}]" if kind == "rh" else f"col_width[{i}]")
        if h == 0 or lo != 0 or hi != 0:
            continue   # with borders on the line only "before = after" is demanded (checked above)
        for label, o in (("never-saved document", o_ref), ("saved file", o_fin)):
            if name in o and o[name] != h:
                fails.append(("set-size-not-reported", f"{name} set to {h} (no borders on the line) reads {o[name]!r} in the {label}"))
    # a label set through the API (and accepted) is what is reported, before and after
    exp = {}
    cap_set, hidden = False, None
    for ev in erase(H):
        k = ev[0]
        if k in ("hr", "hc"):
            lim = t_ref.num_rows if k == "hr" else t_ref.num_cols
            if 0 <= ev[1] <= min(lim, 5):
                exp[f"s{tbl[0]}t{tbl[1]}." + ("num_header_rows" if k == "hr" else "num_header_cols")] = ev[1]
        elif k == "tname":
            exp[f"s{tbl[0]}t{tbl[1]}.name"] = ev[1]
        elif k == "sname":
            exp[f"sheet{tbl[0]}.name"] = ev[1]
        elif k == "cap":
            exp[f"s{tbl[0]}t{tbl[1]}.caption"] = ev[1]
            cap_set = True
        elif k == "cap_en":
            hidden = not ev[1]
        elif k == "name_en":
            exp[f"s{tbl[0]}t{tbl[1]}.table_name_enabled"] = bool(ev[1])
    if cap_set and hidden is not None:
        exp[f"s{tbl[0]}t{tbl[1]}.caption_enabled"] = not hidden
    for key, want in exp.items():
        for label, o in (("never-saved document", o_ref), ("saved file", o_fin)):
            if key in o and o[key] != want:
                fails.append(("set-label-not-reported", f"{key} set to {want!r} reads {o[key]!r} in the {label}"))
    # persisted sizes: never touched by a save unless set through the API
    try:
        r0, c0, _, _ = raw_sizes(open_source(src), tbl)
        r1, c1, _, _ = raw_sizes(fresh, tbl)
        for kind, before, after in (("rh", r0, r1), ("cw", c0, c1)):
            n = the_table(fresh, tbl).num_rows if kind == "rh" else the_table(fresh, tbl).num_cols
            for i in range(n):
                want = float(last_set[(kind, i)]) if (kind, i) in last_set else before.get(i, 0.0)
                got = after.get(i)
                if got is None or got != want:
                    fails.append(("stored-size-changed:" + ("row" if kind == "rh" else "col"),
                                  f"header {kind}[{i}] persisted as {got!r}, expected {want!r}"))
                    break
    except Exception as e:  # noqa: BLE001
        fails.append(("raw-read-raises", f"{type(e).__name__}: {e}"))
    return fails


# ---------------------------------------------------------------- generators
def gen_source(rng):
    nr, nc = rng.randrange(2, 9), rng.randrange(2, 8)
    src = {"new": {"rows": nr, "cols": nc, "hr": rng.choice([0, 1, 1, 2]), "hc": rng.choice([0, 1, 1, 2])}}
    src["new"]["hr"] = min(src["new"]["hr"], nr)
    src["new"]["hc"] = min(src["new"]["hc"], nc)
    tbl = (0, 0)
    if rng.random() < 0.3:
        src["new"]["tname"] = rng.choice(NAMES)
        src["new"]["sname"] = rng.choice(NAMES)
    if rng.random() < 0.3:
        ex = {"name": "Second", "rows": rng.randrange(2, 7), "cols": rng.randrange(2, 6)}
        if rng.random() < 0.7:
            ex["x"] = rng.choice([0.0, 12.5, 300.0, 1234.75, 0.1])
            ex["y"] = rng.choice([0.0, 250.0, 77.3, 1e4])
        src["extra"] = [ex]
        if rng.random() < 0.5:
            tbl = (0, 1)
            nr, nc = ex["rows"], ex["cols"]
    return src, tbl, nr, nc


def gen_history(rng, nr, nc, borders=True, used=None):
    H = []
    used = set() if used is None else used
    mode = rng.choice(["unqueried", "unqueried", "query-all", "query-some", "mixed"])

    def stroke():
        for _ in range(6):
            side = rng.choice(SIDES)
            r, c = rng.randrange(nr), rng.randrange(nc)
            if side in ("top", "bottom"):
                ln = rng.randrange(1, min(5, nc - c) + 1)
                line = r if side == "top" else r + 1
                edges = [("H", line, c + i) for i in range(ln)]
            else:
                ln = rng.randrange(1, min(5, nr - r) + 1)
                line = c if side == "left" else c + 1
                edges = [("V", line, r + i) for i in range(ln)]
            if not any(e in used for e in edges):
                used.update(edges)
                return ["border", r, c, side, rng.choice(WIDTHS), ln]
        return None

    def label():
        k = rng.choice(["hr", "hc", "tname", "sname", "cap", "cap_en", "name_en"])
        if k in ("hr", "hc"):
            return [k, rng.choice([-1, 0, 1, 2, 3, 5, 6, 9])]
        if k in ("tname", "sname"):
            return [k, rng.choice(NAMES)]
        if k == "cap":
            return [k, rng.choice(CAPTIONS)]
        return [k, rng.random() < 0.5]

    def query():
        x = rng.random()
        if x < 0.35:
            return ["q_rh", rng.randrange(nr)]
        if x < 0.7:
            return ["q_cw", rng.randrange(nc)]
        if x < 0.8:
            return ["q_h"]
        if x < 0.9:
            return ["q_w"]
        return ["q_lab"]

    def some_ops(k):
        for _ in range(k):
            x = rng.random()
            ev = None
            if x < 0.25:
                ev = ["rh", rng.randrange(nr), rng.choice([1, 5, 10, 19, 20, 21, 40, 100, 137, 200, 0, rng.randrange(1, 300)])]
            elif x < 0.45:
                ev = ["cw", rng.randrange(nc), rng.choice([1, 30, 97, 98, 99, 150, 400, 0, rng.randrange(1, 500)])]
            elif x < 0.8 and borders:
                ev = stroke()
            else:
                ev = label()
            if ev:
                H.append(ev)
            if mode == "mixed" and rng.random() < 0.35:
                H.append(query())

    some_ops(rng.randrange(0, 10))
    for _ in range(rng.randrange(1, 4)):
        if mode == "query-all":
            H += [["q_h"], ["q_w"], ["q_lab"]]
        elif mode == "query-some":
            H += [query() for _ in range(rng.randrange(1, 4))]
        if rng.random() < 0.15:
            H.append(["save"])
            some_ops(rng.randrange(0, 3))
        H.append(["cycle"])
        if rng.random() < 0.35:
            some_ops(rng.randrange(1, 4))
    return H, mode


def fixture_histories(rng, doc, quick: bool):
    """Histories for a fixture: nothing at all, query everything, and a few edits; per table."""
    out = []
    tables = [(si, ti) for si, s in enumerate(doc.sheets) for ti, _ in enumerate(s.tables)]
    tables = [tb for tb in tables if not doc._model.is_a_pivot_table(the_table(doc, tb)._table_id)]
    for tbl in tables[: 1 if quick else 6]:
        t = the_table(doc, tbl)
        nr, nc = t.num_rows, t.num_cols
        out.append((tbl, [["cycle"]] * (1 if quick else rng.randrange(1, 4)), "unqueried"))
        if not quick or rng.random() < 0.4:
            out.append((tbl, [["q_h"], ["q_w"], ["q_lab"], ["cycle"], ["q_rh", rng.randrange(nr)], ["cycle"]], "query-all"))
        m = doc._model
        try:
            sc = m.objects[m.objects[t._table_id].stroke_sidecar.identifier]
            has_strokes = bool(len(sc.top_row_stroke_layers) + len(sc.left_column_stroke_layers)
                               + len(sc.right_column_stroke_layers) + len(sc.bottom_row_stroke_layers))
        except KeyError:
            has_strokes = True   # no sidecar: border calls are not usable on this table
        merged = any(type(c).__name__ == "MergedCell" or c.is_merged for row in t._data for c in row) if nr * nc <= 5000 else True
        H, mode = gen_history(rng, min(nr, 40), min(nc, 40), borders=not has_strokes and not merged)
        # giving a caption to a table that has none needs a paragraph style called "...Caption..." in the document;
        # documents written by a localised Numbers have none (issue-69.numbers: Table.caption = ... raises
        # StopIteration).  Whether a caption can be *set* there is not C16's subject: no caption is set on them.
        try:
            can_caption = any("Caption" in m.objects[x].super.name for x in m.find_refs("ParagraphStyleArchive"))
        except Exception:  # noqa: BLE001
            can_caption = False
        if not can_caption:
            H = [ev for ev in H if ev[0] != "cap"]
        out.append((tbl, H, mode))
    return out


def readable_fixtures(quick: bool):
    d = common.REPO / "tests" / "data"
    if quick:
        return [f for f in QUICK_FIXTURES if (d / f).exists()]
    return sorted(p.name for p in d.glob("*.numbers"))


# ---------------------------------------------------------------- run
def model_requests(tracer: Tracer, fin_rows, fin_cols):
    reqs, outs, cases = [], [], []
    for (kind, i), ln in sorted(tracer.lines.items()):
        fin = (fin_rows if kind == "r" else fin_cols).get(i)
        reqs.append("\t".join(["line", tracer.dflt[kind], ln["bucket"], fq(ln["lo0"]), fq(ln["hi0"]), ",".join(ln["ops"])]))
        f = fq(fin) if fin is not None else "-"
        outs.append(",".join(ln["obs"]) + "\t" + (f if fin is not None else "0/1") + "\t" + f)
        cases.append(f"{kind}{i}")
    return cases, reqs, outs


def one_case(ctx: Ctx, exe, case: dict, tag: str):
    """Correspondence (traced run) + oracle on one case.  One run of the history on a real document
    serves both: it ends with a last save/reopen, after which everything is queried once more."""
    src, tbl, H = case["source"], tuple(case["table"]), case["history"]
    final_path = None
    if exe:
        try:
            Ht = H + [["cycle"], ["q_h"], ["q_w"], ["q_lab"]]
            final_doc, tracer, final_path = run_history(src, tbl, Ht, ctx.tmp, tag + "_tr", trace=True)
            fr, fc, _, _ = raw_sizes(final_doc, tbl)
            cases, reqs, outs = model_requests(tracer, fr, fc)
            name = json.dumps(case, sort_keys=True)
            ctx.compare("size-histories", [f"{name} :: {c}" for c in cases], reqs, outs, exe, nontrivial=lambda c, o: True)
            lab_req = "\t".join(["lab"] + tracer.lab0 + [";".join(tracer.lab_ops)])
            ctx.compare("label-histories", [name], [lab_req], [";".join(tracer.lab_obs)], exe, nontrivial=lambda c, o: True)
        except Exception as e:  # noqa: BLE001  the oracle below decides whether this is a violation
            ctx.dist("untraced:" + type(e).__name__)
            final_path = None
    ctx.count("oracle-history")
    for sig, detail in oracle_case(case, ctx.tmp, tag, final_path):
        ctx.oracle_fail(sig, case, detail)


def run(ctx: Ctx) -> int:
    warnings.simplefilter("ignore")
    rng = ctx.rng
    common.standard_trusted_base(ctx, [
        "modelled, not verified: one row/column of model.py row_height/col_width/recalculate_row_headers/recalculate_column_headers as Model/Sizes.v; label accessors as a record",
        "border allowance: the widest border per side of a line is computed by the harness from the implementation's own cell.border values and handed to the model (how borders persist is C15); the model adds them in exact rational arithmetic where the code uses binary64 - they agree unless a sum lands within one ulp of an integer (not the case for the generated widths 0.35, 0.5, 1, 2, 3, 8)",
        "sizes set through the API are Python ints below 2^24 (exact in the protobuf float32 field); float32/double header sizes are passed to the model as exact fractions",
        "protobuf serialisation, snappy and zip (save / Document(path)) are library code outside the model; exercised by every history",
        "labels (names, header counts, caption, visibility, coordinates): the theorem labels_cycle is about the model record only; their persistence is established by the histories, not by proof",
    ])
    ctx.assumptions += [
        "histories contain no structural edits (add/delete row/column, merge) and no cell writes; every edge is stroked at most once per document (overlapping strokes are C15)",
        "the allowance of a line is the same after reopening (C15: borders persist); the harness re-reads it after every reopen and tells the model if it changed",
    ]
    ctx.extra["rule"] = ("API-built documents (2..8 x 2..7, optional second table with coordinates) and fixtures x histories of size/label sets, "
                         "strokes of widths {0.35,0.5,1,2,3,8} on unused edges, queries (none / all / some / interleaved), save-and-continue, "
                         "1..3+ save/reopen cycles; every line of the edited table (first 30 + last 5 + touched) is one model history; "
                         "non-trivial = every case (each compares a reported value or a persisted size); distinct by (stream, case)")
    cr = common.coq_check_props("C16", clean=not ctx.quick)
    ctx.coq, ctx.theorems = cr, cr.theorems
    if not cr.ok:
        ctx.obligation_errors += cr.errors
    if not ctx.quick:
        ctx.extra["coqchk"] = common.coqchk("C16")
        if ctx.extra["coqchk"]["exit"] != 0:
            ctx.obligation_errors.append("coqchk failed: " + ctx.extra["coqchk"]["tail"])
    try:
        exe = common.build_model(ENTRY)
    except RuntimeError as e:
        ctx.obligation_errors.append(str(e))
        exe = None

    # ---- A. corpus: the two defects of the pinned tree as minimal histories
    for i, case in enumerate(CORPUS):
        ctx.dist("corpus")
        one_case(ctx, exe, case, f"corpus{i}")

    # ---- B. API-built documents
    n = 90 if ctx.quick else 600
    for i in range(n):
        src, tbl, nr, nc = gen_source(rng)
        H, mode = gen_history(rng, nr, nc)
        ctx.dist("api:" + mode)
        ctx.dist("api:cycles=%d" % sum(1 for e in H if e[0] == "cycle"))
        ctx.dist("api:strokes", sum(1 for e in H if e[0] == "border"))
        ctx.dist("api:size-sets", sum(1 for e in H if e[0] in ("rh", "cw")))
        ctx.dist("api:label-sets", sum(1 for e in H if e[0] in ("hr", "hc", "tname", "sname", "cap", "cap_en", "name_en")))
        one_case(ctx, exe, {"source": src, "table": list(tbl), "history": H}, f"api{i}")

    # ---- B2. geometry around merged ranges (implementation only)
    mcases = [{"kind": "merge-geometry", "rows": 6, "cols": 4, "look_before_save": True,
               "events": [["border", 1, 1, "bottom", 8.0, 1], ["q"], ["merge", "B2:B3"]]}]
    mcases += [gen_merge_case(rng) for _ in range(25 if ctx.quick else 400)]
    for i, mc in enumerate(mcases):
        ctx.count("oracle-merge-geometry")
        ctx.nontrivial(("merge-geometry", json.dumps(mc, sort_keys=True)))
        for sig, detail in merge_oracle(mc, ctx.tmp, f"mg{i}"):
            ctx.oracle_fail(sig, mc, detail)

    # ---- B3. tables created with explicit arguments (implementation only)
    acases = []
    for how in ("add_table", "add_sheet"):
        for hr, hc in ((0, 0), (1, 1), (3, 0), (0, 3), (2, 1), (1, 2), (5, 2)):
            acases.append({"kind": "added-table", "how": how, "name": f"T {hr}{hc}", "hr": hr, "hc": hc,
                           "rows": rng.randrange(6, 12), "cols": rng.randrange(4, 9), "xy": rng.choice([None, [rng.randrange(0, 900), rng.randrange(0, 900)]])})
    if ctx.quick:
        acases = [c for i, c in enumerate(acases) if c["hr"] != c["hc"] or i % 2 == 0]
    for i, ac in enumerate(acases):
        ctx.count("oracle-added-table")
        ctx.nontrivial(("added-table", json.dumps(ac, sort_keys=True)))
        for sig, detail in added_table_oracle(ac, ctx.tmp, f"at{i}"):
            ctx.oracle_fail(sig, ac, detail)

    # ---- C. fixtures
    from numbers_parser import Document
    for f in readable_fixtures(ctx.quick):
        try:
            doc = Document(str(common.REPO / "tests" / "data" / f))
        except Exception:  # noqa: BLE001  unreadable fixtures are C17's subject
            ctx.dist("fixture:unreadable")
            continue
        try:
            doc.save(ctx.tmp / "probe.numbers")
            doc = Document(str(common.REPO / "tests" / "data" / f))
        except Exception as e:  # noqa: BLE001  a fixture that cannot be saved at all is outside C16 (C02)
            ctx.dist("fixture:unsaveable:" + type(e).__name__)
            continue
        ctx.dist("fixture:readable")
        for j, (tbl, H, mode) in enumerate(fixture_histories(rng, doc, ctx.quick)):
            ctx.dist("fixture:" + mode)
            one_case(ctx, exe, {"source": {"fixture": f}, "table": list(tbl), "history": H}, f"fx{f[:-8]}_{j}")
    return common.finish(ctx, search)


def geometry(t):
    return {"rows": [t.row_height(r) for r in range(t.num_rows)], "cols": [t.col_width(c) for c in range(t.num_cols)],
            "height": t.height, "width": t.width}


def merge_oracle(case: dict, tmp: Path, tag: str) -> list:
    """Implementation-only (merges are outside the lock-step model): borders, size queries and merged ranges in any
    order - what the open document reports just before a save is what the reopened file reports."""
    from numbers_parser import RGB, Border, Document
    fails = []
    try:
        doc = Document(num_rows=case["rows"], num_cols=case["cols"])
        t = doc.sheets[0].tables[0]
        for ev in case["events"]:
            if ev[0] == "border":
                t.set_cell_border(ev[1], ev[2], ev[3], Border(float(ev[4]), RGB(0, 0, 0), "solid"), ev[5])
            elif ev[0] == "merge":
                t.merge_cells(ev[1])
            elif ev[0] == "rh":
                t.row_height(ev[1], ev[2])
            elif ev[0] == "cw":
                t.col_width(ev[1], ev[2])
            elif ev[0] == "q":
                geometry(t)
        before = geometry(t) if case.get("look_before_save", True) else None
        p = tmp / f"{tag}_m.numbers"
        doc.save(p)
        after_open = geometry(t)
        back = geometry(Document(p).sheets[0].tables[0])
    except Exception as e:  # noqa: BLE001
        return [("merge-geometry-raises", f"{type(e).__name__}: {e}")]
    for name, a in (("before the save", before), ("on the open document after the save", after_open)):
        if a is None:
            continue
        for k in ("rows", "cols", "height", "width"):
            if a[k] != back[k]:
                fails.append((f"merge-geometry-changed:{k}", f"{k} {name}: {a[k]}, after reopening: {back[k]}"))
                break
    return fails


def added_table_oracle(case: dict, tmp: Path, tag: str) -> list:
    """Labels and geometry given to Sheet.add_table / Document.add_sheet as arguments (implementation only): the new
    table reports exactly what was asked for, on the open document and after save + reopen, twice."""
    from numbers_parser import Document
    want = {"name": case["name"], "hr": case["hr"], "hc": case["hc"], "rows": case["rows"], "cols": case["cols"]}
    try:
        doc = Document(num_rows=3, num_cols=3)
        kw = dict(num_rows=case["rows"], num_cols=case["cols"], num_header_rows=case["hr"], num_header_cols=case["hc"])
        if case.get("xy"):
            kw.update(x=case["xy"][0], y=case["xy"][1])
            want["xy"] = [float(case["xy"][0]), float(case["xy"][1])]
        if case["how"] == "add_table":
            doc.sheets[0].add_table(case["name"], **kw)
            where = (0, 1)
        else:
            kw.pop("x", None), kw.pop("y", None)
            want.pop("xy", None)
            # add_sheet takes no header counts: the new table has the library's default of one header row and column
            kw.pop("num_header_rows"), kw.pop("num_header_cols")
            want["hr"] = want["hc"] = 1
            doc.add_sheet("Added sheet", case["name"], **kw)
            where = (1, 0)

        def obs(d):
            t = d.sheets[where[0]].tables[where[1]]
            o = {"name": t.name, "hr": t.num_header_rows, "hc": t.num_header_cols, "rows": t.num_rows, "cols": t.num_cols}
            if "xy" in want:
                o["xy"] = [float(t.coordinates[0]), float(t.coordinates[1])]
            return o
        seen = [("open document", obs(doc))]
        p = tmp / f"{tag}_1.numbers"
        doc.save(p)
        d2 = Document(p)
        seen.append(("after one cycle", obs(d2)))
        p2 = tmp / f"{tag}_2.numbers"
        d2.save(p2)
        seen.append(("after two cycles", obs(Document(p2))))
    except Exception as e:  # noqa: BLE001
        return [("added-table-raises", f"{type(e).__name__}: {e}")]
    for name, o in seen:
        bad = [k for k in want if o[k] != want[k]]
        if bad:
            return [(f"added-table-label-changed:{bad[0]}", f"{case['how']}({want}): {name} reports {bad[0]} = {o[bad[0]]!r}")]
    return []


def gen_merge_case(rng) -> dict:
    nr, nc = rng.randrange(4, 8), rng.randrange(3, 7)
    ev = []
    r0, c0 = rng.randrange(nr - 1), rng.randrange(nc - 1)
    r1, c1 = min(nr - 1, r0 + rng.randrange(1, 3)), min(nc - 1, c0 + rng.randrange(0, 3))
    from numbers_parser.xrefs import xl_range
    rng_a1 = xl_range(r0, c0, r1, c1)
    # borders on edges inside, on the rim of, and away from the rectangle
    for _ in range(rng.randrange(1, 5)):
        r, c = rng.choice([(r0, c0), (r1, c1), (rng.randrange(r0, r1 + 1), rng.randrange(c0, c1 + 1)), (rng.randrange(nr), rng.randrange(nc))])
        ev.append(["border", r, c, rng.choice(SIDES), rng.choice([2.0, 3.0, 8.0]), 1])
    if rng.random() < 0.7:
        ev.append(["q"])
    if rng.random() < 0.3:
        ev.append(["rh", rng.randrange(nr), rng.choice([30, 55])])
    ev.append(["merge", rng_a1])
    if rng.random() < 0.4:
        ev.append(["border", rng.randrange(nr), rng.randrange(nc), rng.choice(SIDES), 8.0, 1])
    if rng.random() < 0.3:
        ev.append(["q"])
    rng.shuffle(ev) if rng.random() < 0.2 else None
    return {"kind": "merge-geometry", "rows": nr, "cols": nc, "events": ev, "look_before_save": rng.random() < 0.85}


CORPUS = [
    # a row stored at 100 in the source document, never queried, saved twice
    {"source": {"fixture": "issue-69b.numbers"}, "table": [0, 0], "history": [["cycle"], ["cycle"]]},
    # a height set through the API, then two cycles without reading it
    {"source": {"new": {"rows": 4, "cols": 4}}, "table": [0, 0], "history": [["rh", 1, 100], ["cw", 1, 150], ["cycle"], ["cycle"]]},
    # a custom size set, saved, then given up again (size 0 = the table's default), with and without a query in between
    {"source": {"new": {"rows": 5, "cols": 4}}, "table": [0, 0], "history": [["rh", 2, 60], ["cw", 1, 150], ["cycle"], ["rh", 2, 0], ["cw", 1, 0], ["cycle"]]},
    {"source": {"new": {"rows": 5, "cols": 4}}, "table": [0, 0], "history": [["rh", 2, 60], ["cycle"], ["q_h"], ["rh", 2, 0], ["q_rh", 2], ["q_h"], ["cycle"], ["q_h"]]},
    {"source": {"fixture": "issue-69b.numbers"}, "table": [0, 0], "history": [["q_h"], ["rh", 0, 0], ["rh", 1, 0], ["q_h"], ["cycle"]]},
    # 8pt borders on one row and one column, sizes queried before every save
    {"source": {"new": {"rows": 4, "cols": 4}}, "table": [0, 0],
     "history": [["border", 1, 1, "left", 8.0, 1], ["border", 1, 1, "top", 8.0, 1], ["q_h"], ["q_w"], ["cycle"], ["q_h"], ["q_w"], ["cycle"]]},
    # the same, never queried: the column still grows (save itself queries the widths on the pinned tree)
    {"source": {"new": {"rows": 4, "cols": 4}}, "table": [0, 0],
     "history": [["border", 1, 1, "left", 8.0, 1], ["border", 1, 1, "top", 8.0, 1], ["cycle"], ["cycle"], ["cycle"]]},
    # a size set on a bordered line
    {"source": {"new": {"rows": 4, "cols": 4}}, "table": [0, 0],
     "history": [["border", 2, 0, "bottom", 3.0, 4], ["rh", 2, 50], ["cw", 0, 120], ["border", 0, 0, "left", 3.0, 2], ["q_rh", 2], ["cycle"]]},
]


def search(ctx: Ctx, broken) -> list:
    """Witness search: the implementation-only oracle on the disagreeing cases and on a denser stream."""
    warnings.simplefilter("ignore")
    found = []
    seen = set()
    cands = []
    for stream, case, m, i in ctx.disagreements:
        try:
            cands.append(json.loads(str(case).split(" :: ")[0]))
        except Exception:  # noqa: BLE001
            pass
    rng = ctx.rng
    for _ in range(400):
        src, tbl, nr, nc = gen_source(rng)
        H, _mode = gen_history(rng, nr, nc)
        cands.append({"source": src, "table": list(tbl), "history": H})
    for k, case in enumerate(CORPUS + cands):
        key = json.dumps(case, sort_keys=True)
        if key in seen:
            continue
        seen.add(key)
        for sig, detail in oracle_case(case, ctx.tmp, f"search{k}"):
            found.append((sig, case, detail))
        if len({f[0] for f in found}) >= 4 or len(found) > 40:
            break
    return found


def replay(path: str) -> int:
    import tempfile
    warnings.simplefilter("ignore")
    d = json.loads(open(path).read())
    if d.get("kind") == "failing-input":
        with tempfile.TemporaryDirectory() as td:
            if d["case"].get("kind") == "merge-geometry":
                fails = merge_oracle(d["case"], Path(td), "replay")
            elif d["case"].get("kind") == "added-table":
                fails = added_table_oracle(d["case"], Path(td), "replay")
            else:
                fails = oracle_case(d["case"], Path(td), "replay")
        if fails:
            for sig, detail in fails[:5]:
                print(f"replay: still failing [{sig}]: {detail}")
            print(f"VIOLATION property=C16 replay={path}")
            return 1
        print("replay: case passes on the current tree")
        return 0
    print("replay: no failing input was recorded; broken obligations/correspondences were:")
    print(json.dumps(d.get("broken"), indent=1)[:4000])
    return 1
