"""C05 - IWA archive decoding and encoding are mutually inverse and chunking-independent.

Theorems: coq/Props/C05.v (Varint, Wire, IWA models).  Correspondence: the
extracted model against numbers_parser.iwafile on the IWA members of every
fixture + the bundled template + API-generated documents + synthetic archives.
snappy is an external function: the model receives its graph on the arguments
the implementation passed (recorded from python-snappy), so the chunk framing the
library itself does is compared byte for byte.  Oracle / witness search:
implementation-only statement of the property."""
from __future__ import annotations

import json
import struct

from . import common
from . import iwa_util as U
from .common import Ctx

LEVEL = "proof"
ENTRY = "C05Entry"
CH = 65536


# ---------------------------------------------------------------- synthetic archives
def exact_stream(total: int, nseg: int = 1, nmsg: int = 1) -> bytes:
    """A well-formed uncompressed stream of exactly `total` bytes: nseg-1 small leading
    segments and one segment of nmsg messages whose last payload absorbs the rest."""
    head = b"".join(U.make_segment(100 + i, [U.filler(4 + i % 7)]) for i in range(nseg - 1))
    for pad in (None, 0, 2, 3, 4, 5):
        lead = [U.filler(2 + 3 * j) for j in range(nmsg - 1)] + ([] if pad is None else [U.filler(pad)])
        for p in range(max(0, total - len(head) - 64 - 16 * len(lead) - sum(map(len, lead))), total + 1):
            if p == 1:
                continue
            seg = U.make_segment(7, lead + [U.filler(p)])
            if len(head) + len(seg) == total:
                return head + seg
    raise ValueError(f"cannot build a stream of {total} bytes")


def build(spec) -> bytes:
    kind = spec[0]
    if kind == "empty":
        return b""
    if kind == "exact":
        return exact_stream(spec[1], spec[2], spec[3])
    if kind == "many":       # many segments
        _, n, size = spec
        return b"".join(U.make_segment(1000 + i, [U.filler(0 if (size + i % 5) == 1 else size + i % 5)]) for i in range(n))
    if kind == "multi":      # multi-message segments, sizes per segment
        return b"".join(U.make_segment(50 + i, [U.filler(s) for s in sizes]) for i, sizes in enumerate(spec[1]))
    if kind == "unknown":    # header and payload fields no schema knows
        return U.make_segment(9, [U.filler(spec[1])], extra_header=b"\xa0\x06\x2a\xaa\x06\x03abc") + \
            U.make_segment(10, [U.filler(5), U.filler(0)], extra_header=b"\xa5\x06\x01\x02\x03\x04")
    if kind == "random":     # incompressible payloads: the compressed form of a 64 KiB piece is LONGER than 64 KiB
        import random
        r = random.Random(spec[2])
        body = r.randbytes(spec[1])
        return U.make_segment(11, [U.filler(3)]) + U.make_segment(12, [b"\x12" + U.varint(len(body)) + body, U.filler(0)])
    if kind == "bighdr":     # ArchiveInfo headers whose length prefix is a 3- or 4-byte varint (>= 16384 / >= 2097152 bytes)
        n = spec[1]
        big = b"\xa2\x06" + U.varint(n) + bytes((i * 11 + 5) & 0xFF for i in range(n))     # field 100, length-delimited, unknown
        return (U.make_segment(31, [U.filler(6)]) + U.make_segment(32, [U.filler(3), U.filler(0)], extra_header=big)
                + U.make_segment(33, [U.filler(2)] * 2500) + U.make_segment(34, [U.filler(8)]))
    if kind == "interleaved":   # a message of a known type with a field its schema does not know BETWEEN two known fields
        msg = bytes.fromhex("220161" "2801" "4a0162")      # TSK.DocumentArchive (type 200): fields 4, 5 (unknown), 9
        return U.make_segment(41, [U.filler(4)]) + U.make_segment(42, [msg], types=[200]) + U.make_segment(43, [U.filler(2)])
    if kind == "ident0":     # boundary of the identifier range: identifier 0, and the optional field left out altogether
        from numbers_parser.generated.TSPArchiveMessages_pb2 import ArchiveInfo
        h = ArchiveInfo()
        mi = h.message_infos.add()
        mi.type = U.SYN_TYPE
        mi.version.extend([1, 0, 5])
        mi.length = 7
        hb = h.SerializeToString()
        absent = U.varint(len(hb)) + hb + U.filler(7)
        return U.make_segment(21, [U.filler(4)]) + U.make_segment(0, [U.filler(5), U.filler(9)]) + absent + U.make_segment(22, [U.filler(0)])
    if kind == "merge":      # should_merge segment: full messages of two types + diffs whose base is not the first message
        return merge_segment(spec[1])
    raise ValueError(spec)


def merge_segment(variant: int) -> bytes:
    """A well-formed `should_merge` segment: message 0 TSK.TreeNode, message 1 TSK.NativeContentDescription,
    then diff messages (type 0) with base_message_index 0 and 1 - the schema of a diff is its base's schema."""
    from numbers_parser.generated.mapping import NAME_ID_MAP
    from numbers_parser.generated.TSKArchives_pb2 import NativeContentDescription, TreeNode
    from numbers_parser.generated.TSPArchiveMessages_pb2 import ArchiveInfo
    msgs = [TreeNode(name="root").SerializeToString(),
            NativeContentDescription(app_name="Numbers", app_version="13.0", document_id=f"doc-{variant}").SerializeToString(),
            TreeNode(name="renamed root").SerializeToString(),
            NativeContentDescription(app_version=f"14.{variant}").SerializeToString()]
    order = [(NAME_ID_MAP["TSK.TreeNode"], None), (NAME_ID_MAP["TSK.NativeContentDescription"], None), (0, 0), (0, 1)]
    if variant % 2:
        msgs += [NativeContentDescription(document_id="x" * variant).SerializeToString()]
        order += [(0, 1)]
    header = ArchiveInfo(identifier=4700 + variant, should_merge=True)
    for i, (type_id, base) in enumerate(order):
        info = header.message_infos.add()
        info.type = type_id
        info.version.extend([1, 0, 5])
        info.length = len(msgs[i])
        if base is not None:
            info.base_message_index = base
            info.diff_merge_version.extend([1, 0, 5])
    hb = header.SerializeToString()
    return U.varint(len(hb)) + hb + b"".join(msgs)


def synthetic_specs(quick: bool):
    specs = [("empty",)]
    ks = (1, 2, 3) if quick else (1, 2, 3, 4, 5, 8)
    for k in ks:
        for d in (-1, 0, 1):
            specs.append(("exact", k * CH + d, 1, 1))
    specs += [("exact", CH - 1, 40, 1), ("exact", CH, 40, 3), ("exact", CH + 1, 40, 2), ("exact", 2 * CH + 1, 300, 4),
              ("exact", 2 * CH - 1, 3, 6), ("exact", 300, 1, 1), ("exact", 200, 5, 2)]
    specs += [("many", 3, 0), ("many", 300, 2), ("many", 1500, 40), ("many", 2000 if quick else 9000, 0)]
    specs += [("multi", [[0, 0], [5, 0, 7], [2, 3, 4, 5, 6, 7, 8, 9]]), ("multi", [[CH, 2], [3, CH - 9, 0]]),
              ("multi", [[130, 131, 132, 133, 16387, 16388, 16389]]), ("multi", [[0] * 40, [2] * 90])]
    specs += [("unknown", 9), ("unknown", CH)]
    specs += [("merge", 0), ("merge", 1), ("merge", 2)]
    specs += [("random", 70000, 1), ("random", 200000, 2), ("random", CH - 40, 3), ("ident0",), ("bighdr", 20000), ("bighdr", 2100000), ("interleaved",)]
    return specs


def blob_of_raw(raw: bytes) -> bytes:
    """Frame an uncompressed stream the way Numbers does (64 KiB compressed chunks), without iwafile.py."""
    pieces = [raw[i:i + CH] for i in range(0, len(raw), CH)]
    return U.frame_pieces(pieces, "c" * len(pieces))


# ---------------------------------------------------------------- implementation-only oracle
def check_frames(out: bytes):
    """Container rules on an encoded file; returns (ok, detail)."""
    import snappy
    pos = 0
    k = 0
    while pos < len(out):
        hd = out[pos:pos + 4]
        if len(hd) < 4:
            return False, f"frame {k}: header cut short"
        if hd[0] != 0:
            return False, f"frame {k}: marker byte {hd[0]:#x}"
        ln = hd[1] | hd[2] << 8 | hd[3] << 16
        payload = out[pos + 4:pos + 4 + ln]
        if len(payload) != ln:
            return False, f"frame {k}: length field {ln} but {len(payload)} bytes follow"
        try:
            src = snappy.uncompress(payload)
        except Exception as e:  # noqa: BLE001
            return False, f"frame {k}: payload is not snappy data ({type(e).__name__})"
        if len(src) > CH:
            return False, f"frame {k}: {len(src)} bytes of data in one chunk"
        pos += 4 + ln
        k += 1
    return True, ""


def cut_points(rng, n: int, k: int):
    if n == 0:
        return []
    cand = {rng.randrange(n + 1) for _ in range(k)}
    for c in (CH - 1, CH, CH + 1, n - 1, 1, 0, n):
        if 0 <= c <= n and rng.random() < 0.3:
            cand.add(c)
    return sorted(cand)


def pieces_of(raw: bytes, cuts):
    out, pos = [], 0
    for c in cuts:
        out.append(raw[pos:c])
        pos = c
    out.append(raw[pos:])
    return out


def safe_modes(pieces, modes: str) -> str:
    """A stored chunk is only meaningful when its bytes are not themselves snappy data
    (hypothesis of chunking_independent); otherwise send it compressed."""
    return "".join("c" if (m == "s" and (U.snappy_un(p) is not None or len(p) >= 1 << 24)) else m
                   for p, m in zip(pieces, modes))


def content_digest(f) -> str:
    """The decoded content: all segments in order (an empty archive has none, however it is framed)."""
    return ";".join(U.seg_digest(s) for c in f.chunks for s in c.archives)


def oracle_archive(m, blob: bytes, rechunks=()) -> tuple[str, str] | None:
    """C05 stated on the implementation for one well-formed archive file `blob`;
    rechunks = [(cuts, modes)]."""
    try:
        f = m.IWAFile.from_buffer(blob)
    except Exception as e:  # noqa: BLE001
        try:
            U.walk_stream(U.raw_stream(blob))
        except Exception:  # noqa: BLE001
            # not a well-formed archive by the independent walker either (tests/data/corrupted.numbers): outside C05
            return ("malformed", "")
        return ("decode-raises", f"from_buffer raised {type(e).__name__}: {e}")
    base = content_digest(f)
    raw = U.raw_stream(blob)
    try:
        out = f.to_buffer()
    except Exception as e:  # noqa: BLE001
        return ("encode-raises", f"to_buffer raised {type(e).__name__}: {e}")
    ok, why = check_frames(out)
    if not ok:
        return ("container-rule", why)
    raw2 = U.raw_stream(out)
    if raw2 != raw:
        d = next((i for i, (a, b) in enumerate(zip(raw, raw2)) if a != b), min(len(raw), len(raw2)))
        return ("roundtrip-stream", f"stream {len(raw)} bytes -> {len(raw2)} bytes, first difference at {d}")
    try:
        walked = U.walk_stream(raw2)
    except Exception as e:  # noqa: BLE001
        return ("header-length", f"encoded stream does not walk: {type(e).__name__}: {e}")
    segs = f.chunks[0].archives if f.chunks else []
    mine = [(s.header.SerializeToString(), [o.SerializeToString() for o in s.objects]) for s in segs]
    if walked != mine:
        return ("header-length", "header lengths / message bytes of the encoded stream differ from the decoded objects")
    if content_digest(m.IWAFile.from_buffer(out)) != base:
        return ("roundtrip-objects", "decode(encode(decode(x))) differs from decode(x)")
    for cuts, modes in rechunks:
        ps = pieces_of(raw, cuts)
        try:
            g = m.IWAFile.from_buffer(U.frame_pieces(ps, modes))
            dgst = content_digest(g)
        except Exception as e:  # noqa: BLE001
            return ("rechunk", f"cuts={cuts} modes={modes}: {type(e).__name__}: {e}")
        if dgst != base:
            return ("rechunk", f"cuts={cuts} modes={modes}: decoded content differs")
    return None


def oracle_stale(m, blob: bytes, grow: int) -> tuple[str, str] | None:
    """Change message sizes after decoding: the encoder must rewrite the header lengths."""
    f = m.IWAFile.from_buffer(blob)
    if not f.chunks:
        return None
    from numbers_parser.generated.TSPArchiveMessages_pb2 import ArchiveInfo
    # the same live object is encoded, changed and encoded again: every encoding must describe the objects as they are
    # at that moment (a length remembered from an earlier encoding is as stale as one remembered from decoding)
    for rnd in range(3):
        g = grow + rnd
        extra = b"\xc2\xa9\x07" + U.varint(g) + bytes(g)
        for s in f.chunks[0].archives:
            for o in s.objects:
                (o.data if hasattr(o, "data") else o).MergeFromString(extra)
        want = [(s.header.identifier, [o.SerializeToString() for o in s.objects]) for s in f.chunks[0].archives]
        out = f.to_buffer()
        try:
            walked = U.walk_stream(U.raw_stream(out))
        except Exception as e:  # noqa: BLE001
            return ("stale-length", f"grow={grow} encoding #{rnd + 1}: encoded stream does not walk: {type(e).__name__}: {e}")
        got = [(ArchiveInfo.FromString(hb).identifier, ps) for hb, ps in walked]
        if got != want:
            return ("stale-length", f"grow={grow} encoding #{rnd + 1}: header lengths not updated to the new message sizes")
    return None


def case_blob(case, cache):
    """Materialise the archive file of a case: ('member', fixture, name) or ('syn', spec)."""
    if case[0] == "member":
        key = (case[1], case[2])
        if key not in cache:
            for fx, name, blob in U.iwa_members([p for p in U.fixture_paths() if p.endswith("/" + case[1])]):
                cache[(fx, name)] = blob
        return cache[key]
    if case[0] == "file":
        return bytes.fromhex(case[1])
    return blob_of_raw(build(tuple(_tuplify(case[1]))))


def _tuplify(x):
    return tuple(_tuplify(y) for y in x) if isinstance(x, list) else x


def run_oracle(m, case, cache) -> tuple[str, str] | None:
    """case = [kind..., {'rechunks': [...], 'grow': n}]"""
    opts = case[-1] if isinstance(case[-1], dict) else {}
    blob = case_blob(case, cache)
    r = oracle_archive(m, blob, [(c, mo) for c, mo in opts.get("rechunks", [])])
    if r:
        if case[0] == "syn" and list(case[1])[:1] == ["interleaved"] and r[0] in ("roundtrip-stream", "header-length", "roundtrip-objects"):
            # protobuf's runtime re-serialises unknown fields after the known ones
            return ("roundtrip-stream:unknown-field-between-known-fields", r[1])
        return r
    if opts.get("grow") is not None:
        return oracle_stale(m, blob, opts["grow"])
    return None


# ---------------------------------------------------------------- generated documents
def generated_docs(ctx: Ctx):
    import warnings
    from numbers_parser import Document
    warnings.simplefilter("ignore")
    out = []
    rng = ctx.rng
    for k in range(2 if ctx.quick else 6):
        doc = Document(num_rows=3 + 5 * k, num_cols=3 + k)
        t = doc.sheets[0].tables[0]
        for r in range(t.num_rows):
            for c in range(t.num_cols):
                v = rng.choice([rng.randrange(-1000, 1000), round(rng.random() * 100, 2), "s%d" % rng.randrange(50), True])
                t.write(r, c, v)
        if k % 2:
            doc.add_sheet("Extra %d" % k)
        p = ctx.tmp / f"gen{k}.numbers"
        doc.save(p)
        out.append(str(p))
    return out


# ---------------------------------------------------------------- run
def run(ctx: Ctx) -> int:
    m = U.iwa()
    U.raise_stack_limit()
    rng = ctx.rng
    common.standard_trusted_base(ctx, [
        "Section hypotheses of IWA.v theorems: snappy_roundtrip (uncompress (compress x) = Some x), snappy_bound (|x| <= 65536 -> |compress x| < 2^24); "
        "stored chunks additionally assume uncompress p = None (their bytes are not snappy data) - enforced on the generated re-chunkings with python-snappy itself",
        "python-snappy is an oracle: the extracted model receives the graph of compress/uncompress restricted to the arguments the implementation passed "
        "(recorded by a proxy module); a model query outside that graph answers a marker and shows as a disagreement",
        "protobuf (upb 7.36): message contents are opaque byte strings in the model (identity decode/encode); ArchiveInfo is modelled on the wire level "
        "(Wire.v) and compared with upb on every header of the corpus; re-serialisation of parsed messages being the identity is observed by the roundtrip oracle, not proved",
        "all message types are assumed registered (known_type = true): unregistered types are the NotImplementedError path exercised by C17",
    ])
    ctx.assumptions += [
        "wire groups (wire types 3/4) are outside Wire.v: no fixture contains them",
        "headers are in canonical field order (as every protobuf serialiser emits them); set_lengths rewrites field 3 in place",
        "messages and headers are shorter than 2^32 bytes (stated in the theorems)",
    ]
    ctx.extra["rule"] = ("every well-framed .iwa member of every fixture under tests/data, of the bundled template and of API-generated "
                         "documents (quick: seeded sample of 1000 + all members over 64 KiB; thorough: all) + synthetic archives "
                         "(0 bytes, k*65536-1/0/+1, many segments, multi-message segments, unknown fields) x generated re-chunkings "
                         "(random + boundary cut points; stored and compressed chunks). non-trivial = the implementation decoded the "
                         "archive / produced bytes; distinct by (stream, case)")
    # 1. proof obligations
    cr = common.coq_check_props("C05", clean=not ctx.quick)
    ctx.coq = cr
    ctx.theorems = cr.theorems
    if not cr.ok:
        ctx.obligation_errors += cr.errors
    if not ctx.quick:
        ctx.extra["coqchk"] = common.coqchk("C05")
        if ctx.extra["coqchk"]["exit"] != 0:
            ctx.obligation_errors.append("coqchk failed: " + ctx.extra["coqchk"]["tail"])
    try:
        exe = common.build_model(ENTRY)
    except RuntimeError as e:
        ctx.obligation_errors.append(str(e))
        exe = None

    # 2. corpus
    allm = U.iwa_members(U.fixture_paths() + generated_docs(ctx))
    ctx.dist("iwa_members_total", len(allm))
    big = [x for x in allm if len(x[2]) > 20000 and len(U.raw_stream(x[2])) > CH]
    if ctx.quick:
        pool = [x for x in allm if x not in big]
        sample = rng.sample(pool, min(1000, len(pool))) + big[:12]
    else:
        sample = allm
    ctx.dist("iwa_members_used", len(sample))
    ctx.dist("members_over_64k", sum(1 for x in sample if x in big))
    specs = synthetic_specs(ctx.quick)
    syn = [(s, build(s)) for s in specs]
    ctx.dist("synthetic_archives", len(syn))
    cache = {(fx, name): blob for fx, name, blob in allm}

    import time
    t1 = time.time()
    if exe:
        # the model carries message bytes as they are; the "interleaved" archive is the witness of an open finding of
        # the implementation (bytes are canonicalised) and is judged by the oracle only
        correspondence(ctx, m, exe, sample, [x for x in syn if x[0][0] != "interleaved"])
    common.log(f"C05: correspondence {time.time() - t1:.0f}s")
    t1 = time.time()

    # 3. implementation-only oracle
    n_re = 0
    cases = []
    for fx, name, blob in sample:
        raw_len = len(U.raw_stream(blob))
        res = []
        ident = ["member", fx, name] if not fx.startswith("gen") else ["file", blob.hex()]
        for _ in range(2 if raw_len <= CH else 3):
            cuts = cut_points(rng, raw_len, rng.choice([0, 1, 2, 3, 5, 9]))
            modes = "".join(rng.choice("sc") for _ in range(len(cuts) + 1))
            modes = safe_modes(pieces_of(U.raw_stream(blob), cuts), modes)
            res.append([cuts, modes])
        cases.append(ident + [{"rechunks": res, "grow": rng.choice([0, 1, 3, 126, 200])}])
    for spec, raw in syn:
        res = []
        for _ in range(4):
            cuts = cut_points(rng, len(raw), rng.choice([0, 1, 2, 4, 8, 30]))
            modes = "".join(rng.choice("sc") for _ in range(len(cuts) + 1))
            res.append([cuts, safe_modes(pieces_of(raw, cuts), modes)])
        nobj = sum(len(ps) for _, ps in U.walk_stream(raw))
        cases.append(["syn", list(spec), {"rechunks": res, "grow": rng.choice([0, 2, 127, 70000] if nobj <= 20 else [0, 2, 127])}])
    for case in cases:
        try:
            r = run_oracle(m, case, cache)
        except Exception as e:  # noqa: BLE001
            r = ("oracle-crash", f"{type(e).__name__}: {e}")
        ctx.count("oracle")
        n_re += len(case[-1]["rechunks"])
        if r and r[0] == "malformed":
            ctx.dist("malformed_members_skipped", 1)
        elif r:
            ctx.oracle_fail(r[0], case, r[1])
    ctx.dist("oracle_rechunkings", n_re)
    common.log(f"C05: oracle {time.time() - t1:.0f}s")
    return common.finish(ctx, search)


# ---------------------------------------------------------------- correspondence streams
def correspondence(ctx: Ctx, m, exe, sample, syn):
    rng = ctx.rng
    from google.protobuf.internal.decoder import _DecodeVarint, _DecodeVarint32
    from google.protobuf.internal.encoder import _VarintBytes
    from numbers_parser.generated.TSPArchiveMessages_pb2 import ArchiveInfo

    # --- varints
    vals = sorted({0, 1, 127, 128, 129, 255, 256, 16383, 16384, 2**21 - 1, 2**21, 2**28 - 1, 2**28, 2**32 - 1, 2**32, 2**35,
                   2**63 - 1, 2**63, 2**64 - 1} | {2**k + d for k in range(0, 64, 3) for d in (-1, 0, 1) if 2**k + d >= 0} |
                  {rng.randrange(2**rng.randrange(1, 64)) for _ in range(400)})
    reqs = [f"vi\t{v}" for v in vals]
    outs = [_VarintBytes(v).hex() for v in vals]
    ctx.compare("varint_encode", vals, reqs, outs, exe)
    bufs = [_VarintBytes(v) + bytes(rng.randrange(256) for _ in range(rng.randrange(3))) for v in vals]
    bufs += [b[:k] for b in bufs[::5] for k in range(len(b))]
    bufs += [b"", b"\x80", b"\xff" * 9 + b"\x01", b"\xff" * 9 + b"\x7f", b"\xff" * 10, b"\x80" * 9 + b"\x00", b"\x80" * 10 + b"\x00",
             b"\x80\x00", b"\x80\x80\x00\x05"]
    bufs += [bytes(rng.choice([0x80, 0xff, 0x00, 0x7f, 0x01, rng.randrange(256)]) for _ in range(rng.randrange(1, 13))) for _ in range(600)]

    def dec(fn, b):
        try:
            v, pos = fn(b, 0)
            return f"{v}\t{b[pos:].hex()}"
        except Exception as e:  # noqa: BLE001
            return U.exn(e)
    ctx.compare("varint_decode", [b.hex() for b in bufs], [f"vd\t{b.hex()}" for b in bufs], [dec(_DecodeVarint, b) for b in bufs], exe)
    ctx.compare("varint_decode32", [b.hex() for b in bufs], [f"v32\t{b.hex()}" for b in bufs], [dec(_DecodeVarint32, b) for b in bufs], exe)

    # --- headers of the corpus on the wire level
    raws = {}
    headers = {}
    for fx, name, blob in sample:
        raw = U.raw_stream(blob)
        raws[(fx, name)] = raw
        try:
            for hb, _ in U.walk_stream(raw):
                headers.setdefault(hb, (fx, name))
        except Exception:  # noqa: BLE001 - malformed member (corrupted.numbers): segs stream covers it
            pass
    for _, raw in syn:
        for hb, _ in U.walk_stream(raw):
            headers.setdefault(hb, ("syn", ""))
    hlist = sorted(headers)
    if ctx.quick and len(hlist) > 6000:
        hlist = rng.sample(hlist, 6000)

    def view(hb):
        a = ArchiveInfo.FromString(hb)
        infos = ",".join(f"{mi.type}:{mi.length}:{mi.base_message_index}" for mi in a.message_infos)
        return f"{int(not repr(a))} {int(a.should_merge)} {a.identifier} {infos}"
    ctx.compare("header_view", [h.hex() for h in hlist], [f"hdr\t{h.hex()}" for h in hlist], [view(h) for h in hlist], exe)
    ctx.compare("header_wire_roundtrip", [h.hex() for h in hlist], [f"wire\t{h.hex()}" for h in hlist],
                ["1 " + ArchiveInfo.FromString(h).SerializeToString().hex() for h in hlist], exe)
    ctx.dist("distinct_headers", len(hlist))

    # --- (ii) segments of the uncompressed stream
    def impl_segs(blob):
        try:
            f = m.IWAFile.from_buffer(blob)
            return U.chunk_digest(f.chunks[0]) if f.chunks else ""
        except Exception as e:  # noqa: BLE001
            return U.exn(e)
    cases = [("member", fx, name) for fx, name, _ in sample] + [("syn",) + tuple(map(str, s)) for s, _ in syn]
    rawl = [raws[(fx, name)] for fx, name, _ in sample] + [r for _, r in syn]
    blobs = [b for _, _, b in sample] + [blob_of_raw(r) for _, r in syn]
    ctx.compare("segments", cases, [f"segs\t{r.hex()}" for r in rawl], [impl_segs(b) for b in blobs], exe)
    ctx.dist("raw_bytes_parsed_by_model", sum(map(len, rawl)))

    # --- whole files with the recorded snappy graph: decode, frames ok, is_iwa_file
    idx = [i for i in range(len(blobs)) if len(blobs[i]) < 150000]
    sub = sorted(rng.sample(idx, min(len(idx), 160 if ctx.quick else 1200)) + [i for i in range(len(sample), len(blobs)) if len(blobs[i]) < 400000])
    sub = sorted(set(sub))
    reqs_f, outs_f, reqs_ok, outs_ok, reqs_ch, outs_ch, cs = [], [], [], [], [], [], []
    for i in sub:
        with U.SnappyRecorder() as rec:
            try:
                f = m.IWAFile.from_buffer(blobs[i])
                o = U.file_digest(f)
            except Exception as e:  # noqa: BLE001
                f, o = None, U.exn(e)
            utab = rec.table(rec.un)
        cs.append(cases[i])
        reqs_f.append(f"file\t{blobs[i].hex()}\t{utab}")
        outs_f.append(o)
        if f is None:
            continue
        # (iv) implementation output frames satisfy the model's chunk_ok; model frames the same stream identically
        with U.SnappyRecorder() as rec:
            out = f.to_buffer()
            ctab = rec.table(rec.co)
        nfr = sum(1 for _ in range(0, len(rawl[i]), CH))
        utab2 = U.SnappyRecorder.table({v: U.snappy_un(v) for v in rec.co.values()})
        reqs_ok.append(f"ok\t{out.hex()}\t{utab2}")
        outs_ok.append("1" * nfr)
        reqs_ch.append(f"chunks\t{rawl[i].hex()}\t{ctab}")
        outs_ch.append(out.hex())
    ctx.compare("file_from_buffer", cs, reqs_f, outs_f, exe)
    ctx.compare("frames_chunk_ok", list(range(len(reqs_ok))), reqs_ok, outs_ok, exe)
    ctx.compare("to_buffer_framing", list(range(len(reqs_ch))), reqs_ch, outs_ch, exe)

    # --- chunk layer on arbitrary byte strings (sizes around the 64 KiB boundary)
    class Fake:
        def __init__(self, b):
            self.b = b

        def to_buffer(self):
            return self.b
    sizes = [0, 1, 2, 3, 4, 5, CH - 1, CH, CH + 1, 2 * CH - 1, 2 * CH, 2 * CH + 1] + ([] if ctx.quick else [3 * CH + 1, 5 * CH - 1])
    reqs, outs, cs = [], [], []
    for n in sizes:
        for kind in ("zeros", "random", "text"):
            d = bytes(n) if kind == "zeros" else bytes(rng.randrange(256) for _ in range(n)) if kind == "random" else (b"numbers " * (n // 8 + 1))[:n]
            with U.SnappyRecorder() as rec:
                out = m.IWACompressedChunk([Fake(d[:n // 2]), Fake(d[n // 2:])]).to_buffer()
                ctab = rec.table(rec.co)
            reqs.append(f"chunks\t{d.hex()}\t{ctab}")
            outs.append(out.hex())
            cs.append((n, kind))
            with U.SnappyRecorder() as rec:
                try:
                    back = b"".join(m.IWACompressedChunk._decompress_all(out))
                    o = U.dg(back)
                except Exception as e:  # noqa: BLE001
                    o = U.exn(e)
                utab = rec.table(rec.un)
            reqs.append(f"dec\t{out.hex()}\t{utab}")
            outs.append(o)
            cs.append((n, kind, "dec"))
    ctx.compare("chunk_layer_sizes", cs, reqs, outs, exe)

    # --- (iii) model-framed re-chunkings decoded by the implementation
    import snappy
    reqs, cs, expect = [], [], []
    pick = sorted(rng.sample(range(len(sample)), min(len(sample), 120 if ctx.quick else 800))) + \
        [i for i in range(len(sample), len(blobs)) if len(rawl[i]) < 300000]
    for i in pick:
        raw = rawl[i]
        if len(raw) > 300000:
            continue
        base = impl_segs(blobs[i])
        if base.startswith("!"):
            continue
        for _ in range(2):
            cuts = cut_points(rng, len(raw), rng.choice([0, 1, 2, 3, 6, 12]))
            ps = pieces_of(raw, cuts)
            modes = safe_modes(ps, "".join(rng.choice("sc") for _ in ps))
            ctab = ",".join(p.hex() + ":" + snappy.compress(p).hex() for p, mo in zip(ps, modes) if mo == "c")
            reqs.append(f"rechunk\t{raw.hex()}\t{','.join(map(str, cuts))}\t{modes}\t{ctab}")
            cs.append((cases[i], cuts, modes))
            expect.append(base)
            ctx.dist("rechunk_stored_pieces", modes.count("s"))
            ctx.dist("rechunk_compressed_pieces", modes.count("c"))
    framed = common.run_model(exe, reqs)
    for case, fr, want, rq in zip(cs, framed, expect, reqs):
        ctx.count("rechunk_model_framed")
        ctx.nontrivial(("rechunk", str(case)))
        try:
            fb = bytes.fromhex(fr)
            ok = m.is_iwa_file(fb)
            f = m.IWAFile.from_buffer(fb)
            got = U.chunk_digest(f.chunks[0]) if f.chunks else ""
            if not ok:
                got = "not-an-iwa-file"
            if fb != U.frame_pieces(pieces_of(bytes.fromhex(rq.split("\t")[1]), case[1]), case[2]):
                got = "model framing differs from the reference framing"
        except Exception as e:  # noqa: BLE001
            got = f"!{type(e).__name__} {fr[:40]}"
        if got != want:
            ctx.disagree("rechunk_model_framed", [list(case[0]), case[1], case[2]], fr[:80], got[:200])

    # --- segment encoder with stale header lengths
    reqs, outs, cs = [], [], []
    segpool = []
    for i in pick[:200]:
        try:
            f = m.IWAFile.from_buffer(blobs[i])
        except Exception:  # noqa: BLE001
            continue
        if f.chunks:
            for s in f.chunks[0].archives:
                if sum(mi.length for mi in s.header.message_infos) < 30000:
                    segpool.append((cases[i], s))
    for case, s in rng.sample(segpool, min(len(segpool), 700 if ctx.quick else 5000)):
        mode = rng.choice(["same", "zero", "plus", "big", "swap"])
        ps = [o.SerializeToString() for o in s.objects]
        for k, mi in enumerate(s.header.message_infos):
            if mode == "zero":
                mi.length = 0
            elif mode == "plus":
                mi.length += rng.choice([1, 127, 128])
            elif mode == "big":
                mi.length = rng.choice([2**32 - 1, 2**21, 16384])
            elif mode == "swap":
                mi.length = len(ps[(k + 1) % len(ps)]) if ps else 0
        hb = s.header.SerializeToString()
        reqs.append("enc\t" + "|".join([hb.hex()] + [p.hex() for p in ps]))
        outs.append(s.to_buffer().hex())
        cs.append((case, s.header.identifier, mode))
    # whole synthetic streams, several segments per request
    for spec, raw in syn:
        if len(raw) > 200000 or not raw:
            continue
        segs = U.walk_stream(raw)
        reqs.append("enc\t" + ";".join("|".join([hb.hex()] + [p.hex() for p in ps]) for hb, ps in segs))
        outs.append(raw.hex())
        cs.append(("syn", spec, "same"))
    ctx.compare("segment_to_buffer", cs, reqs, outs, exe)

    # --- is_iwa_file on members, non-members and cut members
    fixed = int(is_fixed(m))
    bl = [b for _, _, b in sample[:300]]
    probes = bl + [b[:len(b) - 1] for b in bl[:100]] + [b + b"\x00\x00\x00\x00" for b in bl[:50]] + [b"\x01" + b[1:] for b in bl[:50]]
    probes = [p for p in probes if len(p) < 100000]

    def isiwa(p):
        try:
            return "T" if m.is_iwa_file(p) else "F"
        except Exception as e:  # noqa: BLE001
            return U.exn(e)
    ctx.compare("is_iwa_file", [p[:12].hex() + f"/{len(p)}" for p in probes], [f"isiwa\t{fixed}\t{p.hex()}" for p in probes],
                [isiwa(p) for p in probes], exe)


def is_fixed(m) -> bool:
    """Is fixes/C17-is-iwa-file-short-header.patch applied to the tree under test?"""
    try:
        m.is_iwa_file(b"\x00")
        return True
    except struct.error:
        return False


# ---------------------------------------------------------------- witness search / replay
def search(ctx: Ctx, broken) -> list:
    """Evaluate the implementation-only oracle on the whole corpus, every synthetic
    archive of the thorough tier and a denser set of re-chunkings."""
    m = U.iwa()
    rng = ctx.rng
    found = []
    cache = {}
    allm = U.iwa_members()
    for fx, name, blob in allm:
        cache[(fx, name)] = blob
    cases = []
    for d in ctx.disagreements:
        c = d[1]
        if isinstance(c, (list, tuple)) and c and c[0] == "member":
            cases.append(["member", c[1], c[2], {"rechunks": [], "grow": 1}])
    for spec in synthetic_specs(False):
        raw = build(spec)
        res = []
        for _ in range(12):
            cuts = cut_points(rng, len(raw), rng.choice([0, 1, 2, 4, 8, 30]))
            res.append([cuts, safe_modes(pieces_of(raw, cuts), "".join(rng.choice("sc") for _ in range(len(cuts) + 1)))])
        nobj = sum(len(ps) for _, ps in U.walk_stream(raw))
        cases.append(["syn", list(spec), {"rechunks": res, "grow": rng.choice([0, 1, 127, 70000] if nobj <= 20 else [0, 1, 127])}])
    for fx, name, blob in allm:
        raw = U.raw_stream(blob)
        res = []
        for _ in range(2):
            cuts = cut_points(rng, len(raw), rng.choice([1, 2, 5]))
            res.append([cuts, safe_modes(pieces_of(raw, cuts), "".join(rng.choice("sc") for _ in range(len(cuts) + 1)))])
        cases.append(["member", fx, name, {"rechunks": res, "grow": rng.choice([0, 1, 200])}])
    for case in cases:
        try:
            r = run_oracle(m, case, cache)
        except Exception as e:  # noqa: BLE001
            r = ("oracle-crash", f"{type(e).__name__}: {e}")
        if r and r[0] != "malformed":
            found.append((r[0], case, r[1]))
            if len(found) > 10:
                break
    return found


def replay(path: str) -> int:
    d = json.loads(open(path).read())
    m = U.iwa()
    if d.get("kind") == "failing-input":
        r = run_oracle(m, d["case"], {})
        if r and r[0] != "malformed":
            print(f"replay: still failing [{r[0]}]: {r[1]}")
            print(f"VIOLATION property=C05 replay={path}")
            return 1
        print("replay: case passes on the current tree")
        return 0
    print("replay: no failing input was recorded; broken obligations/correspondences were:")
    print(json.dumps(d.get("broken"), indent=1)[:4000])
    return 1
