"""C10 - A1-notation conversion functions are mutually inverse bijections.

Theorems: coq/Props/C10.v.  Correspondence: the extracted A1 model against
numbers_parser.xrefs on the exhaustively enumerated column domain and on the
row domain, plus a malformed parse stream.  Witness search / oracle:
implementation-only statement of the property."""
from __future__ import annotations

import json

from . import common
from .common import Ctx

LEVEL = "proof"
ENTRY = "C10Entry"


def impl():
    from numbers_parser import xrefs
    return xrefs


def call(f, *a):
    try:
        return f(*a), None
    except Exception as e:  # noqa: BLE001
        return None, type(e).__name__


def fmt_str(v, e):
    return "!" + e if e else v


def fmt_pair(v, e):
    return "!" + e if e else f"{v[0]}\t{v[1]}"


def fmt_int(v, e):
    return "!" + e if e else str(v)


class Stub:
    """Minimal model object for tokenizer.parse_numbers_range."""
    class _C:
        def refresh(self):
            pass
    name_ref_cache = _C()

    def table_names(self):
        return []

    def table_id_to_sheet_id(self, _):
        return None


def frac_value(spelled: str):
    t, _, v = spelled.partition(":")
    if t == "fraction":
        from fractions import Fraction
        return Fraction(v)
    if t == "decimal":
        from decimal import Decimal
        return Decimal(v)
    return float(v)


FRAC_CASES = [("frac", w, v) for w in ("col", "row", "rc_col", "rc_abs", "rng_r2", "rng_c2", "rng_r1", "rng_c1")
              for v in ("float:-0.5", "float:-0.25", "float:-1e-09", "float:-0.9999999", "fraction:-1/2", "fraction:-1/1000", "decimal:-0.5",
                        "float:-1.5", "float:-2.0")]


# ---------------------------------------------------------------- oracle
def oracle_case(x, case) -> tuple[str, str] | None:
    """Implementation-only statement of C10 on one case. Returns (signature, detail) on failure."""
    kind = case[0]
    if kind == "rc":
        _, r, c, ra, ca = case
        if r < 0 or c < 0:
            for f, args in ((x.xl_rowcol_to_cell, (r, c, ra, ca)),):
                v, e = call(f, *args)
                if e != "IndexError":
                    return ("negative-accepted", f"xl_rowcol_to_cell{args} -> {v!r}/{e}")
            return None
        s, e = call(x.xl_rowcol_to_cell, r, c, ra, ca)
        if e:
            return ("encode-raises", f"xl_rowcol_to_cell({r},{c},{ra},{ca}) raised {e}")
        if c < 18278:
            back, e2 = call(x.xl_cell_to_rowcol, s)
            if e2 or back != (r, c):
                return ("roundtrip", f"xl_cell_to_rowcol(xl_rowcol_to_cell({r},{c},{ra},{ca})={s!r}) = {back!r}/{e2}")
        if ("$" in s) != (ra or ca) or s.count("$") != int(ra) + int(ca):
            return ("markers", f"{s!r} for abs=({ra},{ca})")
        return None
    if kind == "col":
        _, c, ca = case
        if c < 0:
            v, e = call(x.xl_col_to_name, c, ca)
            return None if e == "IndexError" else ("negative-accepted", f"xl_col_to_name({c}) -> {v!r}/{e}")
        n, e = call(x.xl_col_to_name, c, ca)
        if e:
            return ("encode-raises", f"xl_col_to_name({c}) raised {e}")
        letters = n.lstrip("$")
        # independent bijective base-26 reference
        k, ref = c + 1, ""
        while k > 0:
            k, rem = divmod(k - 1, 26)
            ref = chr(65 + rem) + ref
        if letters != ref:
            return ("naming", f"xl_col_to_name({c}) = {n!r}, bijective base-26 gives {ref!r}")
        if c < 18278:
            o, e2 = call(x.xl_col_to_offset, n)
            if e2 or o != c:
                return ("roundtrip", f"xl_col_to_offset({n!r}) = {o!r}/{e2}, expected {c}")
        return None
    if kind == "order":
        _, a, b = case  # a < b
        na, nb = x.xl_col_to_name(a), x.xl_col_to_name(b)
        if not ((len(na), na) < (len(nb), nb)):
            return ("order", f"names of {a} < {b}: {na!r} !< {nb!r}")
        return None
    if kind == "rng":
        _, r1, c1, r2, c2 = case
        s, e = call(x.xl_range, r1, c1, r2, c2)
        if min(r1, c1, r2, c2) < 0:
            return None if e == "IndexError" else ("negative-accepted", f"xl_range{case[1:]} -> {s!r}/{e}")
        if e:
            return ("encode-raises", f"xl_range{case[1:]} raised {e}")
        if (":" not in s) != ((r1, c1) == (r2, c2)):
            return ("range-collapse", f"xl_range{case[1:]} = {s!r}")
        if ":" in s:
            a, b = s.split(":")
            if call(x.xl_cell_to_rowcol, a)[0] != (r1, c1) or call(x.xl_cell_to_rowcol, b)[0] != (r2, c2):
                return ("range-corners", f"xl_range{case[1:]} = {s!r}")
        return None
    if kind == "frac":
        # a negative coordinate that is not an integer: still negative, still no name (TypeError is as good as IndexError here)
        _, which, spelled = case
        v = frac_value(spelled)
        calls = {"col": (x.xl_col_to_name, (v,)), "row": (x.xl_rowcol_to_cell, (v, 0)), "rc_col": (x.xl_rowcol_to_cell, (0, v)),
                 "rc_abs": (x.xl_rowcol_to_cell, (v, v, True, True)), "rng_r2": (x.xl_range, (0, 0, v, 0)),
                 "rng_c2": (x.xl_range, (0, 0, 0, v)), "rng_r1": (x.xl_range, (v, 0, 1, 1)), "rng_c1": (x.xl_range, (0, v, 1, 1))}
        f, args = calls[which]
        got, e = call(f, *args)
        return None if e else ("negative-accepted", f"{f.__name__}{args} -> {got!r}")
    if kind == "c2i":
        _, s = case
        from numbers_parser.tokenizer import parse_numbers_range
        r, e = call(parse_numbers_range, Stub(), f"{s}:{s}")
        if e:
            return ("decoder2-raises", f"parse_numbers_range({s}:{s}) raised {e}")
        o, e2 = call(x.xl_col_to_offset, s)
        if len(s) <= 3 and (e2 or r.col_start != o):
            return ("decoders-disagree", f"tokenizer col {r.col_start} vs xrefs {o}/{e2} for {s!r}")
        return None
    return None


# ---------------------------------------------------------------- streams
def gen_cases(ctx: Ctx):
    rng = ctx.rng
    quick = ctx.quick
    col_cases = [("col", c, ca) for c in range(-3, 18278 + 30) for ca in (False, True)]
    col_cases += [("col", c, False) for c in (10**5, 10**6, 475253, 475254, 12356630, 2**31, 2**40 + 7)]
    pow10 = [10**k + d for k in range(1, 8) for d in (-1, 0, 1)]
    rows = list(range(0, 20001 if quick else 1000002)) + pow10 + [999998, 999999, 1000000, 1000001]
    col_sample = [0, 1, 25, 26, 27, 51, 52, 701, 702, 703, 18277] + [rng.randrange(18278) for _ in range(20)]
    rc_cases = []
    for i, r in enumerate(rows):
        c = col_sample[i % len(col_sample)]
        for ra in (False, True):
            for ca in (False, True):
                rc_cases.append(("rc", r, c, ra, ca))
    for r in (-3, -2, -1):
        for c in (-1, 0, 5):
            rc_cases.append(("rc", r, c, False, True))
    for c in (-3, -2, -1):
        rc_cases.append(("rc", 0, c, True, False))
    # every column with a few rows
    for c in range(18278):
        rc_cases.append(("rc", rng.choice(pow10), c, bool(c & 1), bool(c & 2)))
    rng_cases = []
    corners = [(0, 0), (0, 1), (1, 0), (9, 25), (9, 26), (99, 701), (99, 702), (999999, 18277), (255, 255), (256, 256)]
    for a in corners:
        for b in corners:
            rng_cases.append(("rng", a[0], a[1], b[0], b[1]))
    for _ in range(300 if quick else 5000):
        r1, c1 = rng.randrange(1000001), rng.randrange(18278)
        if rng.random() < 0.3:
            r2, c2 = r1, c1
        elif rng.random() < 0.3:
            r2, c2 = r1, rng.randrange(18278)
        else:
            r2, c2 = rng.randrange(1000001), rng.randrange(18278)
        rng_cases.append(("rng", r1, c1, r2, c2))
    # a negative coordinate in ANY of the four positions (each alone, with equal and with different corners)
    for neg in (-1, -2, -1000000):
        for pos in range(4):
            for base in ((2, 2, 2, 2), (2, 2, 5, 4), (0, 0, 0, 3), (7, 1, 3, 1)):
                q = list(base)
                q[pos] = neg
                rng_cases.append(("rng", *q))
    rng_cases += [("rng", -1, -1, -1, -1), ("rng", -1, 0, -1, 0), ("rng", 0, -1, 0, -1), ("rng", 3, 3, -3, -3)]
    order_cases = [("order", c, c + 1) for c in range(0, 18290)] + \
                  [("order", a, b) for a, b in (sorted(rng.sample(range(20000), 2)) for _ in range(2000))]
    return col_cases, rc_cases, rng_cases, order_cases


MALFORMED_ALPHA = ["A", "Z", "a", "$", "0", "1", "9", " ", ":", "B", "!", "-", "A1", "AA", "AAA", "AAAA"]


def malformed(ctx: Ctx):
    rng = ctx.rng
    out = ["", "A0", "a1", "$A$1", "$A1", "A$1", "$$A1", "A$$1", "AAAA1", "ZZZ1", "ZZZZ1", "A1B2", "A1:B2",
           "A 1", " A1", "A1 ", "1A", "$1", "A$", "A", "$", "AB", "ABC", "ABCD", "A01", "A00012", "A-1", "A+1",
           "XFD1048576", "ZZZ999999999999999999", "A1١"[:2]]
    n = 3000 if ctx.quick else 40000
    for _ in range(n):
        k = rng.randrange(1, 6)
        out.append("".join(rng.choice(MALFORMED_ALPHA) for _ in range(k)))
    # exhaustive short strings over a small alphabet
    alpha = ["A", "Z", "$", "0", "7", "a", ":"]
    for a in alpha:
        out.append(a)
        for b in alpha:
            out.append(a + b)
            for c in alpha:
                out.append(a + b + c)
                for d in alpha:
                    out.append(a + b + c + d)
    return [s for s in out if "\t" not in s and "\n" not in s]


def run(ctx: Ctx) -> int:
    x = impl()
    common.standard_trusted_base(ctx, [
        "PrimFloat/Uint63 kernel primitives (float_division_exact only)",
        "tools/translate.py: reads the two A1 regex sources from numbers_parser.xrefs (Gen/GenA1.v)",
        "Python's re engine and str(int)/int(str): tied by the exhaustive/malformed correspondence streams (ASCII input only; \\d also matches non-ASCII digits, outside the modelled alphabet)",
    ])
    ctx.assumptions += ["columns beyond 2^53 are outside the model: the code divides in binary64 there"]
    ctx.extra["rule"] = ("exhaustive: every column -3..18307 x col_abs; rows 0..20000 (quick) / 0..1000001 (thorough) x 4 marker "
                         "combinations; parse-back of every produced string; malformed strings (all strings of length<=4 over "
                         "{A,Z,$,0,7,a,:} + random); range corner pairs. non-trivial = the implementation returned a value "
                         "(not an exception); distinct by (stream, case)")
    ctx.extra["exhaustive"] = True
    # 1. proof obligations
    cr = common.coq_check_props("C10", clean=not ctx.quick)
    ctx.coq = cr
    ctx.theorems = cr.theorems
    if not cr.ok:
        ctx.obligation_errors += cr.errors
    if not ctx.quick:
        ctx.extra["coqchk"] = common.coqchk("C10")
        if ctx.extra["coqchk"]["exit"] != 0:
            ctx.obligation_errors.append("coqchk failed: " + ctx.extra["coqchk"]["tail"])
    # 2. correspondence
    try:
        exe = common.build_model(ENTRY)
    except RuntimeError as e:
        ctx.obligation_errors.append(str(e))
        exe = None
    col_cases, rc_cases, rng_cases, order_cases = gen_cases(ctx)
    produced = set()
    if exe:
        reqs, outs = [], []
        for _, c, ca in col_cases:
            reqs.append(f"c2n\t{c}\t{int(ca)}")
            v, e = call(x.xl_col_to_name, c, ca)
            outs.append(fmt_str(v, e))
            if not e:
                produced.add(v)
        ctx.compare("col_to_name", col_cases, reqs, outs, exe)
        reqs, outs = [], []
        for _, r, c, ra, ca in rc_cases:
            reqs.append(f"r2c\t{r}\t{c}\t{int(ra)}\t{int(ca)}")
            v, e = call(x.xl_rowcol_to_cell, r, c, ra, ca)
            outs.append(fmt_str(v, e))
            if not e:
                produced.add(v)
        ctx.compare("rowcol_to_cell", rc_cases, reqs, outs, exe)
        reqs, outs = [], []
        for _, r1, c1, r2, c2 in rng_cases:
            reqs.append(f"rng\t{r1}\t{c1}\t{r2}\t{c2}")
            outs.append(fmt_str(*call(x.xl_range, r1, c1, r2, c2)))
        ctx.compare("xl_range", rng_cases, reqs, outs, exe)
        texts = sorted(produced) + malformed(ctx)
        reqs = [f"c2r\t{t}" for t in texts]
        outs = [fmt_pair(*call(x.xl_cell_to_rowcol, t)) for t in texts]
        ctx.compare("cell_to_rowcol", texts, reqs, outs, exe)
        reqs = [f"c2o\t{t}" for t in texts]
        outs = [fmt_int(*call(x.xl_col_to_offset, t)) for t in texts]
        ctx.compare("col_to_offset", texts, reqs, outs, exe)
        # tokenizer's second decoder
        from numbers_parser.tokenizer import parse_numbers_range
        names = [x.xl_col_to_name(c) for c in list(range(0, 18278, 1 if not ctx.quick else 7)) + [18277, 18278, 475253]]
        reqs = [f"c2i\t{t}" for t in names]
        outs = []
        for t in names:
            r, e = call(parse_numbers_range, Stub(), f"{t}:{t}")
            outs.append("!" + e if e else str(r.col_start))
        ctx.compare("col_to_index", names, reqs, outs, exe)
    ctx.dist("columns", len(col_cases))
    ctx.dist("rowcol", len(rc_cases))
    ctx.dist("ranges", len(rng_cases))
    # 3. implementation-only oracle over the same structured cases
    names_for_c2i = [("c2i", x.xl_col_to_name(c)) for c in range(0, 18278, 13)]
    ctx.dist("negative_non_integers", len(FRAC_CASES))
    for case in col_cases + rc_cases + rng_cases + order_cases + names_for_c2i + FRAC_CASES:
        try:
            res = oracle_case(x, case)
        except Exception as e:  # noqa: BLE001
            res = ("oracle-crash", f"{type(e).__name__}: {e}")
        ctx.count("oracle")
        if res:
            ctx.oracle_fail(res[0], list(case), res[1])
    return common.finish(ctx, search)


def search(ctx: Ctx, broken) -> list:
    """Witness search: evaluate the implementation-only oracle around the
    disagreeing inputs and on a denser stream."""
    x = impl()
    found = []
    cands = []
    for stream, case, m, i in ctx.disagreements:
        if isinstance(case, tuple):
            cands.append(case)
            if case[0] == "col":
                c = case[1]
                cands += [("col", c + d, ca) for d in (-1, 0, 1) for ca in (False, True)]
                cands += [("rc", r, c, ra, ca) for r in (0, 9) for ra in (False, True) for ca in (False, True)]
                if c >= 0:
                    cands += [("order", max(c - 1, 0), c + 1), ("order", c, c + 1)]
            if case[0] == "rc":
                _, r, c, ra, ca = case
                cands += [("rc", r + d, c, a, b) for d in (-1, 0, 1) for a in (False, True) for b in (False, True)]
                cands += [("rng", r, c, r, c), ("rng", r, c, r + 1, c)]
        else:
            # a text: try it as the encoding of something
            v, e = call(x.xl_cell_to_rowcol, case)
            if not e and v[0] >= 0 and v[1] >= 0:
                cands.append(("rc", v[0], v[1], "$" in case[1:], case.startswith("$")))
    # dense fresh stream
    rng = ctx.rng
    cands += [("col", c, ca) for c in range(0, 18278) for ca in (False, True)]
    cands += [("rc", rng.randrange(1000001), rng.randrange(18278), rng.random() < .5, rng.random() < .5) for _ in range(100000)]
    cands += [("order", c, c + 1) for c in range(18290)]
    cands += [("c2i", x.xl_col_to_name(c)) for c in range(0, 18278)]
    for case in cands:
        try:
            res = oracle_case(x, case)
        except Exception as e:  # noqa: BLE001
            res = ("oracle-crash", f"{type(e).__name__}: {e}")
        if res:
            found.append((res[0], list(case), res[1]))
            if len(found) > 20:
                break
    return found


def replay(path: str) -> int:
    d = json.loads(open(path).read())
    x = impl()
    if d.get("kind") == "failing-input":
        case = tuple(d["case"])
        res = oracle_case(x, case)
        if res:
            print(f"replay: still failing: {res[1]}")
            print(f"VIOLATION property=C10 replay={path}")
            return 1
        print("replay: case passes on the current tree")
        return 0
    print("replay: no failing input was recorded; broken obligations/correspondences were:")
    print(json.dumps(d.get("broken"), indent=1)[:4000])
    return 1
