"""C15 - styles and borders applied through the API read back equal, now and after reload.

Theorems: coq/Props/C15.v (models coq/Model/Borders.v, coq/Model/Styles.v).
Correspondence (borders): generated stroke histories (side, start, length 1..5, widths, colours,
patterns; overlapping, abutting, superseding; fresh and re-used Border objects; reads and
save/reopen in between) are run in lock-step on a real 6x6 table and on the extracted model; every
cell's four sides at every snapshot, the persisted stroke runs (origin, length, order, attributes,
layer order) and max_order are diffed.  Styles: the dirty-flag rule for every attribute name and
the colour quantisation for all 256 component values against the model.
Oracle (implementation only): an independent last-writer-wins edge map against the open document,
the reopened file and the file saved after reading everything; shared edges; styles created with
every attribute over its domain applied next to unstyled cells, read back now and after reload;
reading never changes what is saved."""
from __future__ import annotations

import json
import struct
import warnings
from pathlib import Path

from . import common
from .common import Ctx

LEVEL = "proof"
ENTRY = "C15Entry"
SIDES = ["top", "right", "bottom", "left"]
SIDE_CH = {"top": "t", "right": "r", "bottom": "b", "left": "l"}
WIDTHS = [0.35, 1.0, 3.0]
COLOURS = [(0, 0, 0), (255, 0, 0), (29, 177, 0)]
PATTERNS = ["solid", "dashes", "dots", "none"]
NR = NC = 6


# ---------------------------------------------------------------- borders: implementation driver
def tok(width, color, style) -> str:
    return f"W{int(round(width * 100))}C{color[0]:03d}{color[1]:03d}{color[2]:03d}S{int(style)}"


def border_tok(b) -> str:
    return "-" if b is None else tok(b.width, tuple(b.color), b.style)


def snapshot(t) -> list:
    out = []
    for r in range(t.num_rows):
        for c in range(t.num_cols):
            cb = t.cell(r, c).border
            out += [border_tok(cb.top), border_tok(cb.right), border_tok(cb.bottom), border_tok(cb.left)]
    return out


def layers_dump(doc, t) -> tuple[str, int]:
    from numbers_parser.cell import BORDER_STYLE_MAP
    from numbers_parser.model import rgb
    m = doc._model
    sc = m.objects[m.objects[t._table_id].stroke_sidecar.identifier]
    parts = []
    for ch, name in (("t", "top_row_stroke_layers"), ("l", "left_column_stroke_layers"),
                     ("r", "right_column_stroke_layers"), ("b", "bottom_row_stroke_layers")):
        for ref in getattr(sc, name):
            layer = m.objects[ref.identifier]
            runs = []
            for run in layer.stroke_runs:
                style = BORDER_STYLE_MAP[m.stroke_type(run)]
                runs.append(f"{run.origin}.{run.length}.{run.order}." + tok(round(run.stroke.width, 2), tuple(rgb(run.stroke.color)), style))
            parts.append(f"{ch}{layer.row_column_index}:" + "/".join(runs))
    return " ".join(parts), sc.max_order


def new_table(nr=NR, nc=NC):
    from numbers_parser import Document
    doc = Document(num_rows=nr, num_cols=nc)
    return doc, doc.sheets[0].tables[0]


def run_border_history(H: list, tmp: Path, tag: str):
    """Run a history on a real document.  Returns (snapshots, layer dump, max_order, max_order at start,
    error names of refused strokes)."""
    from numbers_parser import RGB, Border, Document
    doc, t = new_table()
    _, max0 = layers_dump(doc, t)
    objs = {}
    snaps = []
    n = 0
    for op in H:
        k = op[0]
        if k == "s":
            _, side, r, c, ln, oi, (w, col, pat) = op
            if oi not in objs:
                objs[oi] = Border(float(w), RGB(*col), pat)
            t.set_cell_border(r, c, side, objs[oi], ln)
        elif k == "R":
            snapshot(t)
        elif k == "O":
            n += 1
            p = tmp / f"{tag}_{n}.numbers"
            doc.save(p)
            doc = Document(p)
            t = doc.sheets[0].tables[0]
        elif k == "V":
            snaps.append(snapshot(t))
    dump, mx = layers_dump(doc, t)
    return snaps, dump, mx, max0


def model_ops(H: list) -> str:
    from numbers_parser.cell import BORDER_STYLE_MAP
    out = []
    for op in H:
        if op[0] == "s":
            _, side, r, c, ln, oi, (w, col, pat) = op
            out.append(f"s,{SIDE_CH[side]},{r},{c},{ln},{oi}," + tok(w, col, BORDER_STYLE_MAP[pat]))
        else:
            out.append(op[0])
    return ";".join(out)


# ---------------------------------------------------------------- borders: independent LWW reference
def lww_reference(H: list, nr=NR, nc=NC) -> list:
    """Last writer wins per edge, written independently of the library and of the Coq model."""
    from numbers_parser.cell import BORDER_STYLE_MAP
    edges = {}
    for op in H:
        if op[0] != "s":
            continue
        _, side, r, c, ln, _oi, (w, col, pat) = op
        if not (0 <= r < nr and 0 <= c < nc):
            continue
        t = tok(w, col, BORDER_STYLE_MAP[pat])
        for i in range(ln):
            if side == "top":
                e = ("H", r, c + i)
            elif side == "bottom":
                e = ("H", r + 1, c + i)
            elif side == "left":
                e = ("V", c, r + i)
            else:
                e = ("V", c + 1, r + i)
            edges[e] = t
    out = []
    for r in range(nr):
        for c in range(nc):
            out += [edges.get(("H", r, c), "-"), edges.get(("V", c + 1, r), "-"),
                    edges.get(("H", r + 1, c), "-"), edges.get(("V", c, r), "-")]
    return out


def key_name(i: int, nc=NC) -> str:
    cell, s = divmod(i, 4)
    r, c = divmod(cell, nc)
    return f"cell({r},{c}).{SIDES[s]}"


def first_diff(a: list, b: list) -> str:
    for i, (x, y) in enumerate(zip(a, b)):
        if x != y:
            return f"{key_name(i)}: {x} vs {y}"
    return f"lengths {len(a)} vs {len(b)}"


def shared_edge_fail(snap: list, nr=NR, nc=NC):
    def at(r, c, s):
        return snap[(r * nc + c) * 4 + s]
    for r in range(nr):
        for c in range(nc):
            if r + 1 < nr and at(r, c, 2) != at(r + 1, c, 0):
                return f"cell({r},{c}).bottom = {at(r, c, 2)} but cell({r + 1},{c}).top = {at(r + 1, c, 0)}"
            if c + 1 < nc and at(r, c, 1) != at(r, c + 1, 3):
                return f"cell({r},{c}).right = {at(r, c, 1)} but cell({r},{c + 1}).left = {at(r, c + 1, 3)}"
    return None


def strokes_only(H):
    return [op for op in H if op[0] == "s"]


def border_oracle(H: list, tmp: Path, tag: str) -> list:
    """Implementation-only statement of the border half of C15 on one stroke history."""
    fails = []
    S = strokes_only(H)
    want = lww_reference(S)
    try:
        # open document; reopened file; file saved after reading everything
        snaps, dump_a, mx_a, _ = run_border_history(S + [["V"], ["O"], ["V"]], tmp, tag + "_a")
        snaps_b, dump_b, mx_b, _ = run_border_history(S + [["R"], ["O"], ["V"]], tmp, tag + "_b")
    except Exception as e:  # noqa: BLE001
        return [("border-history-raises", f"{type(e).__name__}: {e}")]
    mem, rel = snaps
    if mem != want:
        fails.append(("memory-not-last-writer-wins", "open document: " + first_diff(mem, want) + " (last writer)"))
    if rel != want:
        fails.append(("reload-not-last-writer-wins", "after save and reopen: " + first_diff(rel, want) + " (last writer)"))
    for name, s in (("open document", mem), ("reopened file", rel)):
        d = shared_edge_fail(s)
        if d:
            fails.append(("shared-edge-differs", f"{name}: {d}"))
    if snaps_b[0] != rel or dump_b != dump_a or mx_b != mx_a:
        fails.append(("reading-changes-saved-borders",
                      f"saved after reading all borders: {first_diff(snaps_b[0], rel) if snaps_b[0] != rel else 'stroke layers differ'}"))
    # the history as generated (reads and reopens in between) must end in the same picture
    if H != S:
        try:
            snaps_h, _, _, _ = run_border_history(H + [["V"], ["O"], ["V"]], tmp, tag + "_h")
            for name, s in (("open document", snaps_h[-2]), ("reopened file", snaps_h[-1])):
                if s != want:
                    fails.append(("history-not-last-writer-wins", f"{name} after a history with reads/reopens: " + first_diff(s, want)))
        except Exception as e:  # noqa: BLE001
            fails.append(("border-history-raises", f"{type(e).__name__}: {e}"))
    return fails


def write_oracle(H: list, writes: list, tmp: Path, tag: str) -> list:
    """Writing values into cells must not change any border (implementation only; cell writes are not modelled)."""
    from numbers_parser import RGB, Border, Document
    S = strokes_only(H)
    want = lww_reference(S)
    try:
        doc, t = new_table()
        objs = {}
        for _, side, r, c, ln, oi, (w, col, pat) in S:
            if oi not in objs:
                objs[oi] = Border(float(w), RGB(*col), pat)
            t.set_cell_border(r, c, side, objs[oi], ln)
        for r, c, v in writes:
            t.write(r, c, v)
        mem = snapshot(t)
        p = tmp / f"{tag}_w.numbers"
        doc.save(p)
        rel = snapshot(Document(p).sheets[0].tables[0])
    except Exception as e:  # noqa: BLE001
        return [("border-history-raises", f"{type(e).__name__}: {e}")]
    fails = []
    if mem != want:
        fails.append(("border-lost-on-write", f"open document after writing {len(writes)} cell value(s): " + first_diff(mem, want) + " (last writer)"))
    if rel != want:
        fails.append(("reload-not-last-writer-wins", "after writes, save and reopen: " + first_diff(rel, want)))
    return fails


def multi_table_oracle(Hs: list, tmp: Path, tag: str) -> list:
    """Several tables of one document (the second on the first sheet, the third on a sheet of its own), each with its
    own stroke history, the strokes interleaved: every table shows exactly its own last-writer picture, on the open
    document and after save and reopen (a border belongs to the table it was drawn in)."""
    from numbers_parser import RGB, Border, Document
    fails = []
    try:
        doc, t0 = new_table()
        tables = [t0]
        if len(Hs) > 1:
            tables.append(doc.sheets[0].add_table("Second", num_rows=NR, num_cols=NC))
        if len(Hs) > 2:
            doc.add_sheet("Other", "Third", num_rows=NR, num_cols=NC)
            tables.append(doc.sheets[-1].tables[0])
        Ss = [strokes_only(H) for H in Hs]
        objs = {}
        for k in range(max(len(S) for S in Ss)):
            for ti, S in enumerate(Ss):
                if k < len(S):
                    _, side, r, c, ln, oi, (w, col, pat) = S[k]
                    if (ti, oi) not in objs:
                        objs[(ti, oi)] = Border(float(w), RGB(*col), pat)
                    tables[ti].set_cell_border(r, c, side, objs[(ti, oi)], ln)
        mem = [snapshot(t) for t in tables]
        p = tmp / f"{tag}_mt.numbers"
        doc.save(p)
        d2 = Document(p)
        back = [d2.sheets[0].tables[0]] + ([d2.sheets[0].tables[1]] if len(Hs) > 1 else []) + ([d2.sheets[1].tables[0]] if len(Hs) > 2 else [])
        rel = [snapshot(t) for t in back]
    except Exception as e:  # noqa: BLE001
        return [("border-history-raises", f"multi-table: {type(e).__name__}: {e}")]
    for ti, S in enumerate(Ss):
        want = lww_reference(S)
        if mem[ti] != want:
            fails.append(("multi-table:memory", f"table #{ti} of {len(Ss)}, open document: " + first_diff(mem[ti], want) + " (own last writer)"))
        if rel[ti] != want:
            fails.append(("multi-table:reload", f"table #{ti} of {len(Ss)}, after save and reopen: " + first_diff(rel[ti], want) + " (own last writer)"))
    return fails


def list_form_oracle(calls: list, tmp: Path, tag: str) -> list:
    """set_cell_border with a LIST of sides (and an explicit length) is the same as one call per side, in row/column
    and in A1 notation; implementation only.  calls = [[r, c, [sides], width, length], ...]"""
    from numbers_parser import RGB, Border, Document
    from numbers_parser.xrefs import xl_rowcol_to_cell
    try:
        snaps = []
        for form in ("list", "list-a1", "single"):
            doc, t = new_table()
            for r, c, sides, w, ln in calls:
                b = Border(float(w), RGB(0, 0, 0), "solid")
                if form == "list":
                    t.set_cell_border(r, c, list(sides), b, ln)
                elif form == "list-a1":
                    t.set_cell_border(xl_rowcol_to_cell(r, c), list(sides), b, ln)
                else:
                    for sd in sides:
                        t.set_cell_border(r, c, sd, b, ln)
            mem = snapshot(t)
            p = tmp / f"{tag}_{form}.numbers"
            doc.save(p)
            snaps.append((form, mem, snapshot(Document(p).sheets[0].tables[0])))
    except Exception as e:  # noqa: BLE001
        return [("border-history-raises", f"list form of side: {type(e).__name__}: {e}")]
    fails = []
    _, ref_mem, ref_rel = snaps[-1]
    for form, mem, rel in snaps[:-1]:
        if mem != ref_mem:
            fails.append(("side-list-differs-from-single-calls", f"{form}, open document: " + first_diff(mem, ref_mem) + " (one call per side)"))
        elif rel != ref_rel:
            fails.append(("side-list-differs-from-single-calls", f"{form}, reopened file: " + first_diff(rel, ref_rel) + " (one call per side)"))
    return fails


def last_drawn_edges(t) -> list:
    """Snapshot indices of the edges whose border has the highest stroke order in the table."""
    best, out = None, []
    for r in range(t.num_rows):
        for c in range(t.num_cols):
            cell = t.cell(r, c)
            if type(cell).__name__ == "MergedCell" or cell.is_merged:
                continue      # which sides a merged cell reports is the library's own convention
            cb = cell.border
            for si, sd in enumerate(("top", "right", "bottom", "left")):
                b = getattr(cb, sd)
                o = getattr(b, "_order", None) if b is not None else None
                if o is None:
                    continue
                if best is None or o > best:
                    best, out = o, []
                if o == best:
                    out.append((r * t.num_cols + c) * 4 + si)
    return out


def fixture_border_oracle(name: str, sheet: int, table: int, strokes: list, tmp: Path, tag: str) -> list:
    """New strokes on a table of a document written by Numbers that already has borders (its stroke orders and
    max_order are whatever Numbers left): the stroked edges report the new border, on the open document and after
    save + reopen, and the two agree on every edge.  strokes = [[r, c, side, width, length], ...]"""
    from numbers_parser import RGB, Border, Document
    path = common.REPO / "tests" / "data" / name
    try:
        doc = Document(str(path))
        t = doc.sheets[sheet].tables[table]
        for k, (r, c, side, w, ln) in enumerate(strokes):
            t.set_cell_border(r, c, side, Border(float(w), RGB(200, k % 200, 7), "solid"), ln)
        mem = snapshot(t)
        p = tmp / f"{tag}_fx.numbers"
        doc.save(p)
        rel = snapshot(Document(p).sheets[sheet].tables[table])
    except Exception as e:  # noqa: BLE001
        return [("border-history-raises", f"{name}: {type(e).__name__}: {e}")]
    fails = []
    nc = t.num_cols
    if mem != rel:
        i = next(i for i, (x, y) in enumerate(zip(mem, rel)) if x != y)
        fails.append(("fixture-borders:open-differs-from-reload", f"{name} sheet {sheet} table {table}: {key_name(i, nc)}: {mem[i]} on the open document, {rel[i]} after reopening"))
    # the last stroke drawn wins on its own edges
    r, c, side, w, ln = strokes[-1]
    want = border_tok(Border(float(w), RGB(200, (len(strokes) - 1) % 200, 7), "solid"))
    for j in range(ln):
        rr, cc = (r, c + j) if side in ("top", "bottom") else (r + j, c)
        if rr >= t.num_rows or cc >= t.num_cols:
            break
        cell = t.cell(rr, cc)
        if type(cell).__name__ == "MergedCell" or cell.is_merged:
            continue
        i = (rr * nc + cc) * 4 + SIDES.index(side)
        for where, snap in (("open document", mem), ("reopened file", rel)):
            if snap[i] != want:
                fails.append(("fixture-borders:last-stroke-not-reported", f"{name} sheet {sheet} table {table}, {where}: {key_name(i, nc)} reports {snap[i]}, drawn last: {want}"))
                return fails
    return fails


def merge_border_oracle(H: list, merges: list, tmp: Path, tag: str) -> list:
    """Strokes, then merged ranges (implementation only; the model has no merged cells): merging draws nothing and
    erases nothing - every cell outside the merged rectangles reports the borders it reported before the merge, and
    the open document and the reopened file report the same borders everywhere."""
    from numbers_parser import RGB, Border, Document
    S = strokes_only(H)
    try:
        doc, t = new_table()
        objs = {}
        for _, side, r, c, ln, oi, (w, col, pat) in S:
            if oi not in objs:
                objs[oi] = Border(float(w), RGB(*col), pat)
            t.set_cell_border(r, c, side, objs[oi], ln)
        before = snapshot(t)
        for (r0, c0, r1, c1) in merges:
            from numbers_parser.xrefs import xl_range
            t.merge_cells(xl_range(r0, c0, r1, c1))
        mem = snapshot(t)
        p = tmp / f"{tag}_mb.numbers"
        doc.save(p)
        rel = snapshot(Document(p).sheets[0].tables[0])
    except Exception as e:  # noqa: BLE001
        return [("border-history-raises", f"merge after strokes: {type(e).__name__}: {e}")]
    fails = []
    if mem != rel:
        fails.append(("merge-borders:open-differs-from-reload", "after merging " + str(merges) + ": " + first_diff(mem, rel) + " (open document vs reopened file)"))
    inner = set()
    for (r0, c0, r1, c1) in merges:
        for r in range(r0, r1 + 1):
            for c in range(c0, c1 + 1):
                # which sides of a cell INSIDE a merged rectangle report a stroke is the library's own convention
                # (the anchor reports top and left only); the unchanged-edge clause is stated for cells outside
                base = (r * NC + c) * 4
                inner.update((base, base + 1, base + 2, base + 3))
    for name, snap in (("open document", mem), ("reopened file", rel)):
        bad = [i for i in range(len(before)) if i not in inner and snap[i] != before[i]]
        if bad:
            i = bad[0]
            fails.append(("merge-borders:edge-outside-merge-changed", f"{name}: {key_name(i)}: {before[i]} before merging {merges}, {snap[i]} after"))
            break
    return fails


# ---------------------------------------------------------------- borders: generator
def gen_border_history(rng, n_strokes=None, nr=NR, nc=NC):
    H = []
    nobj = 0
    placed = []          # (side, r, c, ln) of earlier strokes: to aim overlaps / abutments at
    n = n_strokes if n_strokes is not None else rng.randrange(1, 14)
    for _ in range(n):
        x = rng.random()
        if placed and x < 0.55:
            side, r, c, ln = rng.choice(placed)
            y = rng.random()
            horiz = side in ("top", "bottom")
            pos = c if horiz else r
            lim = nc if horiz else nr
            if y < 0.25:      # supersede exactly
                npos, nln = pos, ln
            elif y < 0.45:    # inside / at the start / at the end
                nln = rng.randrange(1, ln + 1)
                npos = pos + rng.randrange(0, ln - nln + 1)
            elif y < 0.7:     # partial overlap on either end
                nln = rng.randrange(1, 6)
                npos = pos + rng.randrange(-nln + 1, ln)
            elif y < 0.85:    # abutting
                nln = rng.randrange(1, 6)
                npos = pos + ln if rng.random() < 0.5 else pos - nln
            else:             # covering more than one earlier run
                npos, nln = max(0, pos - 2), 5
            npos = min(max(npos, 0), lim - 1)
            nln = max(1, min(nln, 5))
            # the same edge line, possibly addressed from the other side (top of r = bottom of r-1)
            if rng.random() < 0.35:
                if side == "top" and r > 0:
                    side, r = "bottom", r - 1
                elif side == "bottom" and r + 1 < nr:
                    side, r = "top", r + 1
                elif side == "left" and c > 0:
                    side, c = "right", c - 1
                elif side == "right" and c + 1 < nc:
                    side, c = "left", c + 1
            if horiz:
                c = npos
            else:
                r = npos
            ln = nln
        else:
            side = rng.choice(SIDES)
            r, c = rng.randrange(nr), rng.randrange(nc)
            ln = rng.randrange(1, 6)
        attrs = (rng.choice(WIDTHS), rng.choice(COLOURS), rng.choice(PATTERNS))
        if nobj and rng.random() < 0.2:
            oi = rng.randrange(nobj)         # re-use an earlier Border object (its attributes stay)
            attrs = next(op[6] for op in H if op[0] == "s" and op[5] == oi)
        else:
            oi = nobj
            nobj += 1
        H.append(["s", side, r, c, ln, oi, list(attrs)])
        placed.append((side, r, c, ln))
        y = rng.random()
        if y < 0.08:
            H.append(["R"])
        elif y < 0.14:
            H.append(["O"])
        elif y < 0.3:
            H.append(["V"])
    return H


BORDER_CORPUS = [
    # a second stroke over an edge that already has a border (the pinned tree keeps the first in memory)
    [["s", "top", 1, 1, 2, 0, [1.0, [255, 0, 0], "solid"]], ["s", "top", 1, 1, 2, 1, [3.0, [0, 0, 0], "dashes"]]],
    # the same edge from the other side
    [["s", "bottom", 2, 2, 1, 0, [1.0, [255, 0, 0], "solid"]], ["s", "top", 3, 2, 1, 1, [0.35, [29, 177, 0], "dots"]]],
    # a stroke partially overlapping two runs
    [["s", "top", 1, 0, 2, 0, [1.0, [255, 0, 0], "solid"]], ["s", "top", 1, 2, 4, 1, [3.0, [29, 177, 0], "solid"]],
     ["s", "top", 1, 1, 3, 2, [3.0, [0, 0, 0], "dashes"]]],
    # middle split, then the tail superseded
    [["s", "left", 0, 3, 5, 0, [1.0, [0, 0, 0], "solid"]], ["s", "left", 2, 3, 1, 1, [3.0, [255, 0, 0], "none"]],
     ["s", "left", 3, 3, 2, 2, [0.35, [29, 177, 0], "dots"]]],
    # one Border object used for three strokes, another drawn over the first in between
    [["s", "right", 1, 1, 2, 0, [1.0, [255, 0, 0], "solid"]], ["s", "top", 4, 0, 3, 1, [3.0, [0, 0, 0], "solid"]],
     ["s", "left", 1, 2, 1, 1, [3.0, [0, 0, 0], "solid"]], ["s", "right", 1, 1, 1, 0, [1.0, [255, 0, 0], "solid"]]],
]
for _h in BORDER_CORPUS:
    for _op in _h:
        _op[6][1] = list(_op[6][1])


def border_case(ctx: Ctx, exe, H: list, tag: str):
    case = {"kind": "borders", "history": H}
    if exe:
        Ht = H + [["V"], ["O"], ["V"]]
        try:
            snaps, dump, mx, max0 = run_border_history(Ht, ctx.tmp, tag + "_tr")
            impl = "|".join(",".join(s) for s in snaps) + "\t" + dump + "\t" + str(mx)
        except Exception as e:  # noqa: BLE001
            impl, max0 = "!" + type(e).__name__, 2
        req = "\t".join(["brd", str(NR), str(NC), str(max0), model_ops(Ht)])
        ctx.compare("border-histories", [json.dumps(case)], [req], [impl], exe, nontrivial=lambda c, o: not o.startswith("!"))
        # the model against the specification, on the same history (cheap cross-check of the theorem's reading)
        spec = common.run_model(exe, ["\t".join(["lww", str(NR), str(NC), model_ops(strokes_only(H))])])[0]
        want = ",".join(lww_reference(strokes_only(H)))
        ctx.count("lww-spec")
        if spec != want:
            ctx.disagree("lww-spec", json.dumps(case), spec[:200], want[:200])
    ctx.count("oracle-borders")
    for sig, detail in border_oracle(H, ctx.tmp, tag):
        ctx.oracle_fail(sig, case, detail)


# ---------------------------------------------------------------- run
def run(ctx: Ctx) -> int:
    warnings.simplefilter("ignore")
    rng = ctx.rng
    common.standard_trusted_base(ctx, [
        "modelled, not verified: CellBorder setters, model.set_cell_border/add_stroke/extract_strokes(_in_layers), Table.set_cell_border as Model/Borders.v - tables WITHOUT merged cells only",
        "a border's width/colour/pattern is an opaque payload in the model; that the payload survives protobuf (width read back as round(float32(w), 2), colour components through float32) is checked by the histories and, for colours, by colour_quantisation",
        "Border objects are modelled as heap objects shared by reference; stroke layers as a map from (side, index) to runs with a list of indices in creation order (layer indices are unique in documents written by the library)",
        "tools/gen_c15.py: reads Style._text_attrs()/_cell_attrs() from numbers_parser.cell (Gen/GenStyles.v)",
        "style attribute <-> protobuf field plumbing is exploration only (style oracle), not modelled",
    ])
    ctx.assumptions += [
        "tables without merged cells; strokes start inside the table (a start cell beyond the table makes Table.set_cell_border grow the table: structural edits are C03/C11); lengths >= 1",
        "every stroke layer index occurs once per side; orders stored in the file do not exceed max_order",
    ]
    ctx.extra["rule"] = ("borders: 6x6 tables x histories of 1..13 strokes (4 sides, lengths 1..5, 3 widths x 3 colours x 4 patterns; 55% aimed at an earlier stroke: "
                         "superseding, inside, partial overlap, abutting, covering several runs, same edge from the neighbouring cell; 20% re-used Border objects) "
                         "with reads, save/reopen and snapshots in between; styles: every attribute over its domain; non-trivial = the history ran without an exception; "
                         "distinct by (stream, case)")
    cr = common.coq_check_props("C15", clean=not ctx.quick)
    ctx.coq, ctx.theorems = cr, cr.theorems
    if not cr.ok:
        ctx.obligation_errors += cr.errors
    if not ctx.quick:
        ctx.extra["coqchk"] = common.coqchk("C15")
        if ctx.extra["coqchk"]["exit"] != 0:
            ctx.obligation_errors.append("coqchk failed: " + ctx.extra["coqchk"]["tail"])
    try:
        exe = common.build_model(ENTRY)
    except RuntimeError as e:
        ctx.obligation_errors.append(str(e))
        exe = None

    # ---- A. borders
    for i, H in enumerate(BORDER_CORPUS):
        ctx.dist("borders:corpus")
        border_case(ctx, exe, H, f"bc{i}")
    for i in range(70 if ctx.quick else 800):
        H = gen_border_history(rng)
        ctx.dist("borders:histories")
        ctx.dist("borders:strokes", sum(1 for op in H if op[0] == "s"))
        ctx.dist("borders:reopens", sum(1 for op in H if op[0] == "O"))
        border_case(ctx, exe, H, f"b{i}")

    # ---- A2. cell writes after strokes keep the borders (implementation only)
    for i in range(12 if ctx.quick else 150):
        H = gen_border_history(rng, n_strokes=rng.randrange(1, 6))
        writes = [[rng.randrange(NR), rng.randrange(NC), rng.choice(["x", 1.5, True])] for _ in range(rng.randrange(1, 6))]
        for op in strokes_only(H)[:2]:
            writes.append([op[2], op[3], "on-a-stroked-cell"])
        ctx.count("oracle-writes-keep-borders")
        for sig, detail in write_oracle(H, writes, ctx.tmp, f"w{i}"):
            ctx.oracle_fail(sig, {"kind": "borders-writes", "history": H, "writes": writes}, detail)

    # ---- A3. borders of several tables of one document do not mix (implementation only)
    for i in range(10 if ctx.quick else 120):
        Hs = [gen_border_history(rng, n_strokes=rng.randrange(1, 7)) for _ in range(rng.choice([2, 3]))]
        if i % 2 == 0:
            # the same side and the same row/column index in every table
            for H in Hs[1:]:
                H[:0] = [op[:5] + [100 + op[5]] + op[6:] for op in strokes_only(Hs[0])[:2]]   # Border objects of their own
        Hs = [strokes_only(H) for H in Hs]
        ctx.count("oracle-multi-table-borders")
        ctx.nontrivial(("multi-table", json.dumps(Hs)))
        for sig, detail in multi_table_oracle(Hs, ctx.tmp, f"mt{i}"):
            ctx.oracle_fail(sig, {"kind": "borders-multi-table", "histories": Hs}, detail)

    # ---- A4. merging after strokes keeps the borders (implementation only)
    for i in range(12 if ctx.quick else 150):
        H = strokes_only(gen_border_history(rng, n_strokes=rng.randrange(1, 7)))
        merges = []
        for _ in range(rng.choice([1, 1, 2])):
            r0, c0 = rng.randrange(NR - 1), rng.randrange(NC - 1)
            r1, c1 = min(NR - 1, r0 + rng.randrange(0, 3)), min(NC - 1, c0 + rng.randrange(0, 3))
            if (r0, c0) != (r1, c1) and all(r1 < a or r0 > c or c1 < b or c0 > d for (a, b, c, d) in merges):
                merges.append((r0, c0, r1, c1))
        if i % 3 == 0 and H:
            # a rectangle that starts at a stroked cell
            r, c = H[0][2], H[0][3]
            merges = [(r, c, min(NR - 1, r + 1), min(NC - 1, c + 1))] if (r, c) != (min(NR - 1, r + 1), min(NC - 1, c + 1)) else merges
        if not merges:
            continue
        ctx.count("oracle-merge-keeps-borders")
        ctx.nontrivial(("merge-borders", json.dumps([H, merges])))
        for sig, detail in merge_border_oracle(H, merges, ctx.tmp, f"mb{i}"):
            ctx.oracle_fail(sig, {"kind": "borders-merge", "history": H, "merges": [list(m) for m in merges]}, detail)

    # ---- A5. list form of `side`; new strokes on documents written by Numbers (implementation only)
    for i in range(8 if ctx.quick else 100):
        calls = []
        for _ in range(rng.randrange(1, 4)):
            r, c = rng.randrange(NR), rng.randrange(NC)
            sides = rng.sample(SIDES, rng.randrange(1, 5))
            ln = rng.randrange(1, 5)
            room = min([NC - c if sd in ("top", "bottom") else NR - r for sd in sides])
            calls.append([r, c, sides, rng.choice([1.0, 2.0, 3.0]), max(1, min(ln, room))])
        ctx.count("oracle-side-list")
        ctx.nontrivial(("side-list", json.dumps(calls)))
        for sig, detail in list_form_oracle(calls, ctx.tmp, f"sl{i}"):
            ctx.oracle_fail(sig, {"kind": "borders-side-list", "calls": calls}, detail)
    from numbers_parser import Document
    for name in (["test-styles.numbers"] if ctx.quick else ["test-styles.numbers", "issue-44.numbers", "test-5.numbers", "issue-7.numbers"]):
        if not (common.REPO / "tests" / "data" / name).exists():
            continue
        try:
            d0 = Document(str(common.REPO / "tests" / "data" / name))
            shapes = [(si, ti, t.num_rows, t.num_cols, snapshot(t), last_drawn_edges(t)) for si, sh in enumerate(d0.sheets) for ti, t in enumerate(sh.tables)
                      if t.num_rows * t.num_cols <= 600]
        except Exception:  # noqa: BLE001
            continue
        for si, ti, nr, nc_, snap0, newest in shapes:
            edged = [i for i, x in enumerate(snap0) if x != "-"]
            if not edged:
                continue
            tb0 = d0.sheets[si].tables[ti]
            merged_cells = {(r, c) for r in range(nr) for c in range(nc_)
                            if type(tb0.cell(r, c)).__name__ == "MergedCell" or tb0.cell(r, c).is_merged}
            for k in range(3 if ctx.quick else 12):
                strokes = []
                for j in range(rng.randrange(1, 4)):
                    # mostly over an edge that already carries a border; the first round starts on the edge Numbers drew last
                    # (its order is the highest in the table, possibly equal to the recorded max_order)
                    i = rng.choice(edged) if rng.random() < 0.8 else rng.randrange(len(snap0))
                    if k == 0 and j == 0 and newest:
                        i = newest[0]
                        strokes = []          # ... and is the only stroke of that round, so that it is also the last one drawn
                    cell, sd = divmod(i, 4)
                    r, c = divmod(cell, nc_)
                    side = SIDES[sd]
                    room = nc_ - c if side in ("top", "bottom") else nr - r
                    ln = rng.randrange(1, min(3, room) + 1)
                    run = [(r, c + q) if side in ("top", "bottom") else (r + q, c) for q in range(ln)]
                    if any((rr, cc) in merged_cells for rr, cc in run):
                        continue      # strokes along merged cells follow the library's own rules (refused with a warning)
                    strokes.append([r, c, side, rng.choice([0.5, 2.0, 3.0]), ln])
                    if k == 0 and newest:
                        break
                if not strokes:
                    continue
                ctx.count("oracle-fixture-borders")
                ctx.nontrivial(("fixture-borders", name, si, ti, json.dumps(strokes)))
                for sig, detail in fixture_border_oracle(name, si, ti, strokes, ctx.tmp, f"fb{si}_{ti}_{k}"):
                    ctx.oracle_fail(sig, {"kind": "borders-fixture", "fixture": name, "sheet": si, "table": ti, "strokes": strokes}, detail)

    # ---- B. styles
    from . import c15_styles
    c15_styles.run_styles(ctx, exe)
    return common.finish(ctx, search)


def search(ctx: Ctx, broken) -> list:
    warnings.simplefilter("ignore")
    found = []
    rng = ctx.rng
    cands = list(BORDER_CORPUS)
    for stream, case, m, i in ctx.disagreements:
        try:
            d = json.loads(case)
            if d.get("kind") == "borders":
                cands.append(d["history"])
        except Exception:  # noqa: BLE001
            pass
    cands += [gen_border_history(rng) for _ in range(500)]
    for k, H in enumerate(cands):
        for sig, detail in border_oracle(H, ctx.tmp, f"s{k}"):
            found.append((sig, {"kind": "borders", "history": H}, detail))
        if len({f[0] for f in found}) >= 3 or len(found) > 30:
            break
    from . import c15_styles
    found += c15_styles.search_styles(ctx)
    return found


def replay(path: str) -> int:
    import tempfile
    warnings.simplefilter("ignore")
    d = json.loads(open(path).read())
    if d.get("kind") == "failing-input":
        case = d["case"]
        with tempfile.TemporaryDirectory() as td:
            if case.get("kind") == "borders":
                fails = border_oracle(case["history"], Path(td), "replay")
            elif case.get("kind") == "borders-side-list":
                fails = list_form_oracle(case["calls"], Path(td), "replay")
            elif case.get("kind") == "borders-fixture":
                fails = fixture_border_oracle(case["fixture"], case["sheet"], case["table"], case["strokes"], Path(td), "replay")
            elif case.get("kind") == "borders-merge":
                fails = merge_border_oracle(case["history"], [tuple(m) for m in case["merges"]], Path(td), "replay")
            elif case.get("kind") == "borders-multi-table":
                fails = multi_table_oracle(case["histories"], Path(td), "replay")
            elif case.get("kind") == "borders-writes":
                fails = write_oracle(case["history"], case["writes"], Path(td), "replay")
            else:
                from . import c15_styles
                fails = c15_styles.replay_case(case, Path(td))
        if fails:
            for sig, detail in fails[:5]:
                print(f"replay: still failing [{sig}]: {detail}")
            print(f"VIOLATION property=C15 replay={path}")
            return 1
        print("replay: case passes on the current tree")
        return 0
    print("replay: no failing input was recorded; broken obligations/correspondences were:")
    print(json.dumps(d.get("broken"), indent=1)[:4000])
    return 1
