"""C03 - any edit history leaves each table equal to a plain grid, before and after save.

Theorems: coq/Props/C03.v.  Correspondence: lock-step runs of real
Document/Table objects and the extracted Grid model over edit histories
(bounded-exhaustive short histories on 2x2 tables, random long ones,
several tables and documents interleaved), every table dumped after every
step.  Oracle (implementation only): a plain Python list-of-lists grid
subjected to the same edits."""
from __future__ import annotations

import itertools
import json

from . import common, gridlib
from .common import Ctx

LEVEL = "proof"
ENTRY = "C03Entry"


# ---------------------------------------------------------------- plain reference grid (oracle)
class Plain:
    def __init__(self, nr, nc):
        self.g = [[None] * nc for _ in range(nr)]
        self.w = nc          # the width of a grid does not vanish with its last row (a 0 x n grid is a grid)

    @property
    def nr(self):
        return len(self.g)

    @property
    def nc(self):
        return len(self.g[0]) if self.g else self.w

    def apply(self, op):
        k = op[0]
        if k == "W":
            _, _, r, c, v = op
            while self.nr <= r:
                self.g.append([None] * self.nc)
            while self.nc <= c:
                for row in self.g:
                    row.append(None)
                self.w = self.nc
            self.g[r][c] = v
        elif k == "AR":
            _, _, n, s, d = op
            s = self.nr if s is None else s
            self.g[s:s] = [[d] * self.nc for _ in range(n)]
        elif k == "AC":
            _, _, n, s, d = op
            s = self.nc if s is None else s
            for row in self.g:
                row[s:s] = [d] * n
            self.w = self.nc if self.g else self.w + max(n, 0)
        elif k == "DR":
            # a plain grid: only rows that exist can go (a count of zero removes nothing, an over-long count is cut short)
            _, _, n, s = op
            s = max(self.nr - n, 0) if s is None else s
            del self.g[s:s + max(n, 0)]
        elif k == "DC":
            _, _, n, s = op
            s = max(self.nc - n, 0) if s is None else s
            gone = len(range(self.nc)[s:s + max(n, 0)])
            for row in self.g:
                del row[s:s + max(n, 0)]
            self.w = self.nc if self.g else self.w - gone


def grid_of_dump(d: str):
    """(nr, nc, values, positions_ok) from a canonical dump."""
    nr, nc, rows, _ = d.split(":")
    vals, pos_ok = [], True
    for ri, row in enumerate(rows.split(";") if rows else []):
        rv = []
        for ci, cell in enumerate(row.split("/") if row else []):
            r, c, v, _, _ = cell.split(".")
            if (int(r), int(c)) != (ri, ci):
                pos_ok = False
            rv.append(None if v == "-" else (int(v) if v.lstrip("-").isdigit() else v))
        vals.append(rv)
    return int(nr), int(nc), vals, pos_ok


def oracle_history(ctx: Ctx, stream, h, iouts):
    """Implementation-only: compare every dump with the plain grids."""
    plains = []
    for k, (op, out) in enumerate(zip(h, iouts)):
        if op[0] == "N":
            if out != "ok":
                ctx.oracle_fail("edit-refused", {"history": [list(o) for o in h[:k + 1]]}, f"adding a {op[1]}x{op[2]} table -> {out}")
                return
            plains.append(Plain(op[1], op[2]))
            continue
        if op[0] == "W" and not (0 <= op[2] < 1000000 and 0 <= op[3] < 1000):
            if out != "!IndexError":
                ctx.oracle_fail("write-outside-limits-accepted", {"history": [list(o) for o in h[:k + 1]]}, f"{op} -> {out}")
                return
            continue      # refused: the plain grid stays as it is (the dumps that follow check it)
        if op[0] in ("W", "AR", "AC", "DR", "DC"):
            if out != "ok":
                ctx.oracle_fail("edit-refused", {"history": [list(o) for o in h[:k + 1]]}, f"{op} -> {out}")
                return
            plains[op[1]].apply(op)
            continue
        if op[0] in ("D", "RO"):
            ctx.count("oracle-grid")
            if out.startswith("!"):
                ctx.oracle_fail("dump-raises" if op[0] == "D" else "save-reopen-raises",
                                {"history": [list(o) for o in h[:k + 1]]}, f"{op} -> {out}")
                return
            nr, nc, vals, pos_ok = grid_of_dump(out)
            p = plains[op[1]]
            what = "reopened" if op[0] == "RO" else "open"
            if (nr, nc) != (p.nr, p.nc) or len(vals) != p.nr or any(len(r) != p.nc for r in vals):
                ctx.oracle_fail(f"dims:{what}", {"history": [list(o) for o in h[:k + 1]]},
                                f"table {op[1]}: reports {nr}x{nc}, rows {len(vals)}; plain grid {p.nr}x{p.nc}")
                return
            if vals != p.g:
                ctx.oracle_fail(f"values:{what}", {"history": [list(o) for o in h[:k + 1]]},
                                f"table {op[1]}: {vals} != plain grid {p.g}")
                return
            if not pos_ok:
                ctx.oracle_fail(f"positions:{what}", {"history": [list(o) for o in h[:k + 1]]},
                                f"table {op[1]}: a cell reports a row/col different from its position")
                return


# ---------------------------------------------------------------- generators
def op_alphabet(nr, nc, t=0):
    """All single edits considered on an nr x nc table (stay within the remaining extent)."""
    ops = []
    for (r, c) in [(0, 0), (nr - 1, nc - 1), (nr, 0), (0, nc), (nr + 1, nc)]:
        ops.append(("W", t, r, c, 5))
    for n in (1, 2):
        for s in [None, 0, nr - 1]:
            for d in (None, 9):
                ops.append(("AR", t, n, s, d))
        for s in [None, 0, nc - 1]:
            for d in (None, 9):
                ops.append(("AC", t, n, s, d))
    for s in [None, 0, nr - 1]:
        if nr >= 2:
            ops.append(("DR", t, 1, s))
    for s in [None, 0, nc - 1]:
        if nc >= 2:
            ops.append(("DC", t, 1, s))
    return ops


def dims_after(nr, nc, op):
    k = op[0]
    if k == "W":
        return max(nr, op[2] + 1), max(nc, op[3] + 1)
    if k == "AR":
        return nr + op[2], nc
    if k == "AC":
        return nr, nc + op[2]
    if k == "DR":
        return nr - op[2], nc
    if k == "DC":
        return nr, nc - op[2]
    return nr, nc


def exhaustive_histories(depth):
    out = []

    def rec(prefix, nr, nc, d):
        if d == 0:
            return
        for op in op_alphabet(nr, nc):
            h = prefix + [op]
            out.append(h)
            a, b = dims_after(nr, nc, op)
            rec(h, a, b, d - 1)
    rec([], 2, 2, depth)
    return out


def fixture_edit_oracle(ctx: Ctx, names):
    """Documents written by Numbers (several tables per sheet, pivot tables, header rows, merged cells ...): every
    ordinary table gets one value written into its last cell and one row appended; after save + reopen EVERY table
    equals the plain grid of what was read before, with exactly those edits."""
    import warnings
    from numbers_parser import Document
    warnings.simplefilter("ignore")
    for name in names:
        p = common.REPO / "tests" / "data" / name
        if not p.exists():
            continue
        from .c02 import open_doc
        doc, _why = open_doc(p)
        if doc is None:
            continue
        case = {"fixture": name}
        try:
            want = {}
            for si, sh in enumerate(doc.sheets):
                for ti, t in enumerate(sh.tables):
                    if doc._model.is_a_pivot_table(t._table_id) or t.num_rows * t.num_cols > 3000:
                        continue
                    grid = [[(type(c).__name__, c.value) for c in row] for row in t.rows()]
                    if any(k in ("ErrorCell", "RichTextCell", "MergedCell") for row in grid for k, _ in row):
                        continue      # cells the library warns it cannot write back as they are
                    tok = f"edited {si}.{ti}"
                    t.write(t.num_rows - 1, t.num_cols - 1, tok)
                    grid[-1][-1] = ("TextCell", tok)
                    t.add_row(default=7.0)
                    grid.append([("NumberCell", 7.0)] * t.num_cols)
                    want[(si, ti)] = grid
            if not want:
                continue
            out = ctx.tmp / "fixture_edit.numbers"
            doc.save(out)
            back = Document(out)
        except Exception as e:  # noqa: BLE001
            ctx.oracle_fail("save-reopen-raises", case, f"{name}: {type(e).__name__}: {e}")
            continue
        for (si, ti), grid in want.items():
            ctx.count("oracle-fixture-edit")
            t2 = back.sheets[si].tables[ti]
            got = [[(type(c).__name__, c.value) for c in row] for row in t2.rows()]
            if (t2.num_rows, t2.num_cols) != (len(grid), len(grid[0])) or len(got) != len(grid):
                ctx.oracle_fail("dims:reopened", dict(case, table=[si, ti]), f"{name} {t2.name}: reopened {t2.num_rows}x{t2.num_cols}, expected {len(grid)}x{len(grid[0])}")
                continue
            bad = [(r, c) for r in range(len(grid)) for c in range(len(grid[0]))
                   if got[r][c][1] != grid[r][c][1] and not (got[r][c][1] != got[r][c][1] and grid[r][c][1] != grid[r][c][1])]
            if bad:
                r, c = bad[0]
                ctx.oracle_fail("values:reopened", dict(case, table=[si, ti], pos=[r, c]),
                                f"{name} {t2.name} ({r},{c}): {grid[r][c]!r} before the save (with the edits), {got[r][c]!r} after reopening; {len(bad)} cell(s) differ")
            ctx.nontrivial(("fixture-edit", name, si, ti))


def random_history(rng, length, ntables=1, with_save=True, late_tables=False):
    shapes = [(rng.randrange(1, 5), rng.randrange(1, 5)) for _ in range(ntables)]
    ops = [("N", a, b) for a, b in shapes]
    dims = list(shapes)
    val = 10
    for _ in range(length):
        t = rng.randrange(ntables)
        nr, nc = dims[t]
        k = rng.choice(["W", "W", "W", "AR", "AC", "DR", "DC", "RO" if with_save else "W"])
        x = rng.random()
        if x < 0.04:
            # a write the documented limits refuse (IndexError): nothing may change, whatever the other coordinate is
            val += 1
            ops.append(rng.choice([("W", t, nr + rng.randrange(3), 1000 + rng.randrange(3), val), ("W", t, -1, rng.randrange(nc), val),
                                   ("W", t, rng.randrange(nr), -1, val), ("W", t, 1000000, nc + 1, val), ("W", t, nr + 1, 1000, val)]))
            continue
        if x < 0.07 and late_tables and ntables < 4:
            # a table added in the middle of the history (placed below the sheet's last table, whatever was done to that)
            a, b = rng.randrange(1, 4), rng.randrange(1, 4)
            ops.append(("N", a, b))
            dims.append((a, b))
            ntables += 1
            continue
        if k == "W":
            r = rng.choice([rng.randrange(nr), rng.randrange(nr), nr, nr + rng.randrange(3)])
            c = rng.choice([rng.randrange(nc), rng.randrange(nc), nc, nc + rng.randrange(2)])
            val += 1
            op = ("W", t, r, c, val)
        elif k in ("AR", "AC"):
            ext = nr if k == "AR" else nc
            val += 1
            op = (k, t, rng.choice([1, 1, 2, 3, 0]), rng.choice([None, 0, ext - 1, rng.randrange(ext)]), rng.choice([None, None, val]))
        elif k in ("DR", "DC"):
            ext = nr if k == "DR" else nc
            if ext < 2:
                continue
            n = rng.randrange(1, ext)
            if rng.random() < 0.12:
                n = 0         # "delete nothing" is an edit too
            s = rng.choice([None, rng.randrange(0, ext - n + 1)])
            if n == 0 and s is not None:
                s = min(s, ext - 1)
            op = (k, t, n, s)
        else:
            ops.append(("RO", t))
            continue
        ops.append(op)
        dims[t] = dims_after(nr, nc, op)
        if dims[t][0] > 40 or dims[t][1] > 30:
            break
    ops.append(("RO", rng.randrange(ntables)))
    return ops


def run(ctx: Ctx) -> int:
    rng = ctx.rng
    common.standard_trusted_base(ctx, [
        "cell values are abstract integer tokens in the model; the harness writes Python ints and reads numbers back (12.0 == 12)",
        "save/reopen in the model (Grid.reopen) relies on C01's storage round trip for values; the lock-step compares it with real save + Document(path)",
        "numbers_cache / protobuf object cloning exist only in the implementation; cross-table and cross-document interference is observed by dumping every table after every step, not modelled",
    ])
    ctx.assumptions += ["deletion counts stay within the remaining extent and at least one row/column remains (over-deletion has no grid semantics)"]
    ctx.extra["rule"] = ("bounded-exhaustive: every history of length <= 2 (quick) / <= 3 (thorough) over 34-44 single edits on a 2x2 table; random histories "
                         "of length 5-60 over 1-3 tables with save/reopen at random points; two documents interleaved. every table dumped after every "
                         "mutating step. non-trivial = the whole history agreed and was executed; distinct by (stream, history)")
    cr = common.coq_check_props("C03", clean=not ctx.quick)
    ctx.coq, ctx.theorems = cr, cr.theorems
    if not cr.ok:
        ctx.obligation_errors += cr.errors
    if not ctx.quick:
        ctx.extra["coqchk"] = common.coqchk("C03")
        if ctx.extra["coqchk"]["exit"] != 0:
            ctx.obligation_errors.append("coqchk failed: " + ctx.extra["coqchk"]["tail"])
    try:
        exe = common.build_model(ENTRY)
    except RuntimeError as e:
        ctx.obligation_errors.append(str(e))
        exe = None

    ex = exhaustive_histories(2 if ctx.quick else 3)
    ex_h = [gridlib.with_dumps([("N", 2, 2)] + h, 1) for h in ex]
    # save/reopen at the end of a sample of the exhaustive histories
    for i in range(0, len(ex_h), 20 if ctx.quick else 29):
        ex_h[i] = ex_h[i] + [("RO", 0)]
    rnd = []
    for i in range(50 if ctx.quick else 1500):
        nt = rng.choice([1, 1, 2, 3, 3])
        rnd.append(gridlib.with_dumps(random_history(rng, rng.randrange(5, 61), nt, late_tables=(i % 2 == 1)), nt))
    # a table added after rows / columns of the sheet's last table were deleted or inserted (no save in between)
    for pre in ([("DR", 0, 1, None)], [("DR", 0, 2, 1)], [("DC", 0, 1, 0)], [("AR", 0, 2, 0, None)], [("DR", 0, 1, 0), ("AR", 0, 1, None, 5)]):
        rnd.append(gridlib.with_dumps([("N", 5, 3), ("W", 0, 4, 2, 11)] + pre + [("N", 2, 2), ("W", 1, 1, 1, 13), ("N", 3, 1)], 3) + [("RO", 0), ("RO", 1), ("RO", 2)])
    # counts of zero: nothing is inserted, nothing is deleted
    for zero in ([("DR", 0, 0, None)], [("DC", 0, 0, None)], [("DR", 0, 0, 1)], [("DC", 0, 0, 2)], [("AR", 0, 0, None, 5)], [("AC", 0, 0, 1, 6)],
                 [("DR", 0, 0, None), ("DC", 0, 0, None), ("W", 0, 1, 1, 8)]):
        rnd.append(gridlib.with_dumps([("N", 4, 3), ("W", 0, 3, 2, 11), ("W", 0, 0, 0, 12)] + zero, 1) + [("RO", 0)])
    # a table emptied of all its rows or all its columns is still a grid: it saves, reopens to the same (empty) grid and
    # grows again (round 7: the random generator never deleted the last remaining line)
    for emp in ([("DR", 0, 3, 0)], [("DR", 0, 3, None)], [("DC", 0, 2, 0)], [("DC", 0, 2, None)],
                [("DR", 0, 2, 1), ("DR", 0, 1, None)], [("DR", 0, 3, 0), ("DC", 0, 2, 0)]):
        rnd.append(gridlib.with_dumps([("N", 3, 2), ("W", 0, 0, 0, 11), ("W", 0, 2, 1, 12)] + emp
                                      + [("RO", 0), ("RO", 0), ("W", 0, 1, 1, 14), ("AR", 0, 1, None, None), ("RO", 0)], 1))
    rnd.append(gridlib.with_dumps([("N", 2, 2), ("N", 3, 3), ("W", 1, 2, 2, 21), ("DR", 0, 2, 0), ("W", 1, 0, 0, 22)], 2) + [("RO", 1), ("RO", 0)])
    # tables whose row count sits on / next to the 256-row tile size, saved and reopened
    for h in ([("N", 256, 2), ("W", 0, 255, 1, 5), ("W", 0, 0, 0, 6), ("RO", 0)],
              [("N", 255, 1), ("AR", 0, 1, None, 7), ("W", 0, 3, 0, 8), ("RO", 0)],
              [("N", 257, 1), ("DR", 0, 1, 0), ("W", 0, 255, 0, 9), ("RO", 0)],
              [("N", 2, 2), ("W", 0, 511, 1, 4), ("W", 0, 256, 0, 3), ("RO", 0), ("DR", 0, 256, 0), ("RO", 0)]):
        rnd.append(h)
    # text (every third token is written as text) in several added tables, each table reopened
    rnd.append(gridlib.with_dumps([("N", 2, 2), ("N", 2, 2), ("N", 2, 2), ("W", 0, 0, 0, 3), ("W", 1, 0, 0, 6), ("W", 1, 1, 1, 9),
                                   ("W", 2, 0, 0, 12), ("W", 2, 1, 0, 15), ("W", 2, 1, 1, 16)], 3) + [("RO", 0), ("RO", 1), ("RO", 2)])
    rnd.append(gridlib.with_dumps([("N", 1, 1), ("N", 3, 1), ("N", 1, 3), ("N", 2, 2), ("AR", 1, 1, 0, 21), ("AC", 2, 1, None, 24),
                                   ("W", 3, 0, 0, 27), ("W", 0, 0, 0, 30)], 4) + [("RO", 3), ("RO", 2), ("RO", 1), ("RO", 0)])
    # renames: tables are addressed by their current name on every step; names move between tables
    rnd.append(gridlib.with_dumps([("N", 2, 2), ("N", 3, 3), ("W", 0, 0, 0, 1), ("W", 1, 2, 2, 2), ("RN", 0, "Archive"), ("RN", 1, "Table 1"),
                                   ("W", 1, 0, 0, 4), ("W", 0, 1, 1, 5), ("RN", 0, "Table 2"), ("W", 0, 3, 0, 8), ("W", 1, 0, 3, 10)], 2)
               + [("RO", 0), ("RO", 1)])
    # names that differ only in case (reachable through renames): each table is still addressed by exactly its own name
    rnd.append(gridlib.with_dumps([("N", 2, 2), ("N", 3, 3), ("RN", 0, "Totals"), ("RN", 1, "TOTALS"), ("W", 1, 0, 0, 4), ("W", 0, 1, 1, 5),
                                   ("W", 1, 2, 2, 8), ("AR", 1, 1, None, None), ("RN", 0, "totals"), ("W", 0, 2, 0, 10), ("W", 1, 0, 1, 11)], 2)
               + [("RO", 0), ("RO", 1)])
    rnd.append(gridlib.with_dumps([("N", 2, 2), ("N", 2, 2), ("N", 2, 2), ("RN", 2, "data"), ("RN", 1, "Data"), ("RN", 0, "DATA"), ("W", 2, 0, 0, 13),
                                   ("W", 1, 1, 1, 14), ("W", 0, 0, 1, 16), ("DC", 2, 1, 0)], 3) + [("RO", 0), ("RO", 1), ("RO", 2)])
    for _ in range(4 if ctx.quick else 40):
        h = [("N", 2, 2), ("N", 2, 3), ("N", 3, 2)]
        names = ["Table 1", "Table 2", "Table 3"]
        v = 30
        for _ in range(12):
            t = rng.randrange(3)
            if rng.random() < 0.4:
                other = rng.randrange(3)
                fresh_name = f"N{v}"
                if other != t and rng.random() < 0.6:
                    # free a name, then give it to another table
                    old = names[other]
                    h += [("RN", other, fresh_name), ("RN", t, old)]
                    names[other], names[t] = fresh_name, old
                else:
                    h.append(("RN", t, fresh_name))
                    names[t] = fresh_name
            v += 1
            h.append(("W", t, rng.randrange(3), rng.randrange(3), v))
        rnd.append(gridlib.with_dumps(h, 3) + [("RO", 0), ("RO", 1), ("RO", 2)])
    ctx.dist("exhaustive_histories", len(ex_h))
    ctx.dist("random_histories", len(rnd))
    ctx.dist("ops_total", sum(len(h) for h in ex_h + rnd))
    for name, hs in (("exhaustive", ex_h), ("random", rnd)):
        if exe:
            res = gridlib.lockstep(ctx, exe, name, hs)
        else:
            res = [(h, None, gridlib.run_impl(ctx.tmp, f"{name}{i}", h)) for i, h in enumerate(hs)]
        for h, _, iouts in res:
            oracle_history(ctx, name, h, iouts)
    # deletion counts longer than what is left from the start index (implementation only: the model's domain is
    # "within the remaining extent"): a plain grid loses the rows/columns that exist, and dimensions say so
    over = []
    for pre in ([("DR", 0, 3, 2)], [("DC", 0, 5, 1)], [("DR", 0, 3, 2), ("W", 0, 0, 0, 5), ("AR", 0, 1, None, None)], [("DC", 0, 2, 2), ("AC", 0, 1, 0, 7)],
                [("DR", 0, 2, 3), ("DR", 0, 1, None)], [("DR", 0, 9, 0)], [("DR", 0, 9, None), ("W", 0, 1, 1, 6)], [("DC", 0, 9, 0)]):
        over.append(gridlib.with_dumps([("N", 4, 3), ("W", 0, 3, 2, 11), ("W", 0, 0, 0, 12)] + pre, 1) + [("RO", 0)])
    for i, h in enumerate(over):
        oracle_history(ctx, "over-long-deletions", h, gridlib.run_impl(ctx.tmp, f"over{i}", h))
    ctx.dist("over_long_deletion_histories", len(over))
    # rows / columns added with a default value - falsy values are values too (shared with C01)
    from . import c01
    c01.default_fills(ctx, [1, "x", 2.5, 7], rng)
    fixture_edit_oracle(ctx, ["test-pivot.numbers", "test-1.numbers", "issue-73.numbers", "test-7.numbers", "issue-43.numbers"] if ctx.quick
                        else sorted(p.name for p in (common.REPO / "tests" / "data").glob("*.numbers")))
    # two documents interleaved: run the ops of two histories alternately on two open documents
    inter = []
    for i in range(5 if ctx.quick else 100):
        a = gridlib.with_dumps(random_history(rng, 20, 1, with_save=True), 1)
        b = gridlib.with_dumps(random_history(rng, 20, 2, with_save=True), 2)
        da, db = gridlib.ImplDoc(ctx.tmp, f"ia{i}"), gridlib.ImplDoc(ctx.tmp, f"ib{i}")
        oa, ob = [], []
        ia = ib = 0
        while ia < len(a) or ib < len(b):
            if ia < len(a) and (ib >= len(b) or rng.random() < 0.5):
                oa.append(da.apply(a[ia]))
                ia += 1
            else:
                ob.append(db.apply(b[ib]))
                ib += 1
        inter.append((a, oa))
        inter.append((b, ob))
    if exe:
        mouts = common.run_model(exe, [gridlib.request(h) for h, _ in inter])
        for (h, iouts), mline in zip(inter, mouts):
            mo = [gridlib.canon_model_out(op, o) for op, o in zip(h, mline.split("|"))]
            ctx.count("interleaved-documents", len(h))
            for k, (op, x, y) in enumerate(zip(h, mo, iouts)):
                if x != y:
                    ctx.disagree("interleaved-documents", {"history": [list(o) for o in h[:k + 1]], "at": k}, x[:300], y[:300])
                    break
    for h, iouts in inter:
        oracle_history(ctx, "interleaved", h, iouts)
    return common.finish(ctx, search)


def search(ctx: Ctx, broken) -> list:
    """Re-run the disagreeing histories and their prefixes through the implementation-only oracle; then a fresh stream."""
    sub = common.Ctx(ctx.prop, ctx.tier, ctx.seed + 1, LEVEL)
    hs = []
    for stream, case, m, i in ctx.disagreements:
        h = [tuple(o) for o in case.get("history", [])]
        if h:
            hs.append(h)
    for i in range(300):
        hs.append(gridlib.with_dumps(random_history(ctx.rng, 30, 2), 2))
    for idx, h in enumerate(hs):
        oracle_history(sub, "search", h, gridlib.run_impl(sub.tmp, f"s{idx}", h))
        if sub.oracle_failures:
            break
    out = list(sub.oracle_failures)
    sub.cleanup()
    return out


def replay(path: str) -> int:
    d = json.loads(open(path).read())
    if d.get("kind") == "failing-input":
        h = [tuple(o) for o in d["case"]["history"]]
        sub = common.Ctx("C03", "quick", 0, LEVEL)
        oracle_history(sub, "replay", h, gridlib.run_impl(sub.tmp, "replay", h))
        fails = list(sub.oracle_failures)
        sub.cleanup()
        if fails:
            print(f"replay: still failing: {fails[0][2]}")
            print(f"VIOLATION property=C03 replay={path}")
            return 1
        print("replay: history passes on the current tree")
        return 0
    print("replay: no failing input was recorded; broken obligations/correspondences were:")
    print(json.dumps(d.get("broken"), indent=1)[:4000])
    return 1
