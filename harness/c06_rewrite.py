"""C06 - protobuf-level rewriter of .numbers files: layout transformations that keep the document objects.

A document is loaded into a `Pack` (ordered members: name, bytes, zip compression, whether the member sat inside
a package's Index.zip), one or more transformations are applied and a new .numbers file (single zip or package
folder) is written.  IWA members are parsed with numbers_parser.iwafile.IWAFile only when a transformation has to
change a message; frames (compression chunks) are handled by the independent code below.

Transformations (KINDS):
  perm      permute TableDataList.entries of every list (strings, formats, styles, formulas, rich text, ...)
  rechunk   cut every IWA stream at random boundaries; each piece stored or snappy-compressed, <= 64 KiB of data
  order     shuffle / reverse the zip member order
  method    stored <-> deflated zip members
  form      single-file zip <-> package folder (Index.zip + loose files)
  offsets   narrow (byte) <-> wide (4-byte unit) cell offsets of rows where both encodings can express the row
  rows      the order of a tile's rowInfos and of the table's tile references (each keeps its tile_row_index / tileid)
  headers   explicit header records for a subset of the rows that have no storage; header records of such rows removed;
            rowInfos of rows that store no cell removed (with or without their header record)
All randomness comes from the `rng` argument."""
from __future__ import annotations

import io
import os
import shutil
import struct
import zipfile
from array import array
from pathlib import Path

KINDS = ("perm", "rechunk", "order", "method", "form", "offsets", "headers", "rows")


class Member:
    __slots__ = ("name", "data", "method", "in_index")

    def __init__(self, name, data, method=zipfile.ZIP_STORED, in_index=False):
        self.name, self.data, self.method, self.in_index = name, data, method, in_index

    @property
    def is_iwa(self):
        return self.name.endswith(".iwa") and framed_ok(self.data)


class Pack:
    def __init__(self, form, members):
        self.form = form            # "zip" | "package"
        self.members = members
        self.nested = None          # name of the inner Index.zip of a zipped package (zip form only)
        self.log: list[str] = []    # what the transformations did (for replays / distributions)
        self.stats: dict = {}

    def bump(self, key, n=1):
        self.stats[key] = self.stats.get(key, 0) + n


# ------------------------------------------------------------------ container I/O
def load(path) -> Pack:
    path = Path(path)
    if path.is_dir():
        members = []
        for root, dirs, files in os.walk(path):
            dirs.sort()
            for fn in sorted(files):
                p = Path(root) / fn
                rel = str(p.relative_to(path))
                if fn.lower() == "index.zip":
                    with zipfile.ZipFile(p, metadata_encoding="utf-8") as z:
                        for info in z.infolist():
                            members.append(Member(info.filename, z.read(info.filename), info.compress_type, True))
                else:
                    members.append(Member(rel, p.read_bytes(), zipfile.ZIP_STORED, False))
        return Pack("package", members)
    members = []
    nested = None
    with zipfile.ZipFile(path, metadata_encoding="utf-8") as z:      # member names as the reader decodes them
        for i in z.infolist():
            data = z.read(i.filename)
            if i.filename.lower().endswith("index.zip") and nested is None:
                # a zipped package: the members of the inner Index.zip are read at this position
                nested = i.filename
                with zipfile.ZipFile(io.BytesIO(data), metadata_encoding="utf-8") as z2:
                    for j in z2.infolist():
                        members.append(Member(j.filename, z2.read(j.filename), j.compress_type, True))
            else:
                members.append(Member(i.filename, data, i.compress_type, False))
    pack = Pack("zip", members)
    pack.nested = nested
    return pack


def _zip_write(z, m: Member):
    info = zipfile.ZipInfo(m.name, date_time=(2021, 1, 1, 0, 0, 0))
    info.compress_type = m.method if m.method in (zipfile.ZIP_STORED, zipfile.ZIP_DEFLATED) else zipfile.ZIP_DEFLATED
    info.external_attr = 0o644 << 16
    z.writestr(info, m.data)


def save(pack: Pack, path) -> Path:
    path = Path(path)
    if path.exists():
        shutil.rmtree(path) if path.is_dir() else path.unlink()
    if pack.form == "zip":
        nested = getattr(pack, "nested", None)
        with zipfile.ZipFile(path, "w") as z:
            done = False
            for m in pack.members:
                if m.in_index and nested:
                    if not done:       # the inner archive sits where its first member sits
                        buf = io.BytesIO()
                        with zipfile.ZipFile(buf, "w") as z2:
                            for m2 in pack.members:
                                if m2.in_index:
                                    _zip_write(z2, m2)
                        _zip_write(z, Member(nested, buf.getvalue(), zipfile.ZIP_STORED))
                        done = True
                    continue
                _zip_write(z, m)
        return path
    path.mkdir(parents=True)
    with zipfile.ZipFile(path / "Index.zip", "w") as z:
        for m in pack.members:
            if m.in_index:
                _zip_write(z, m)
    for m in pack.members:
        if m.in_index:
            continue
        if m.name.endswith("/"):
            (path / m.name).mkdir(parents=True, exist_ok=True)
            continue
        p = path / m.name
        p.parent.mkdir(parents=True, exist_ok=True)
        p.write_bytes(m.data)
    return path


# ------------------------------------------------------------------ IWA frames (independent of iwafile.py)
def split_frames(data: bytes):
    out, pos = [], 0
    while pos < len(data):
        if len(data) - pos < 4 or data[pos] != 0:
            return None
        n = data[pos + 1] | data[pos + 2] << 8 | data[pos + 3] << 16
        if pos + 4 + n > len(data):
            return None
        out.append(data[pos + 4:pos + 4 + n])
        pos += 4 + n
    return out


def framed_ok(data: bytes) -> bool:
    return split_frames(data) is not None


def _snappy():
    import snappy
    return snappy


def unframe(data: bytes) -> bytes:
    """The archive stream of an IWA member: every frame decompressed (or taken as stored), concatenated."""
    sn = _snappy()
    out = []
    for payload in split_frames(data):
        try:
            out.append(sn.uncompress(payload))
        except Exception:  # noqa: BLE001 - a stored frame
            out.append(payload)
    return b"".join(out)


def frame_pieces(pieces) -> bytes:
    """pieces: [(bytes, stored?)] -> framed member; a piece that snappy would accept as compressed data is compressed."""
    sn = _snappy()
    out = []
    for raw, stored in pieces:
        assert len(raw) <= 65536
        payload = None
        if stored:
            try:
                sn.uncompress(raw)
            except Exception:  # noqa: BLE001 - good: the reader will take the frame as stored
                payload = raw
        if payload is None:
            payload = sn.compress(raw)
        assert len(payload) < 1 << 24
        out.append(b"\x00" + struct.pack("<I", len(payload))[:3] + payload)
    return b"".join(out)


def random_cuts(rng, n: int):
    """Cut points of a stream of n bytes: pieces of 1..65536 bytes, biased to small and to boundary sizes."""
    cuts, pos = [], 0
    mode = rng.randrange(4)
    while pos < n:
        if mode == 0:
            step = rng.randrange(1, 64)
        elif mode == 1:
            step = rng.choice([1, 2, 3, 5, 17, 255, 256, 4096, 65535, 65536])
        elif mode == 2:
            step = rng.randrange(1, 65537)
        else:
            step = max(1, n // rng.randrange(1, 8))
        step = min(step, 65536, n - pos)
        pos += step
        cuts.append(pos)
        if len(cuts) > 4000:         # keep tiny-step mode affordable on big members
            mode = 2
    return cuts


# ------------------------------------------------------------------ message-level access
def iwa_parse(m: Member):
    from numbers_parser.iwafile import IWAFile
    return IWAFile.from_buffer(m.data, m.name)


def iwa_objects(iwaf):
    for chunk in iwaf.chunks:
        for archive in chunk.archives:
            if archive.objects:
                yield archive.header.identifier, archive.objects[0]


class Messages:
    """All first objects of all archives of the pack, by identifier; remembers which members were touched."""

    def __init__(self, pack: Pack):
        self.pack = pack
        self.files = {}      # member index -> IWAFile
        self.where = {}      # identifier -> member index
        self.objs = {}
        self.dirty = set()
        for i, m in enumerate(pack.members):
            if not m.is_iwa:
                continue
            try:
                f = iwa_parse(m)
            except Exception:  # noqa: BLE001 - leave members the library cannot parse untouched
                continue
            self.files[i] = f
            for ident, obj in iwa_objects(f):
                self.objs[ident] = obj
                self.where[ident] = i

    def of_type(self, name):
        return [(i, o) for i, o in self.objs.items() if type(o).__name__ == name]

    def touch(self, ident):
        self.dirty.add(self.where[ident])

    def flush(self):
        for i in sorted(self.dirty):
            self.pack.members[i].data = self.files[i].to_buffer()


def _reorder(container, order):
    items = [type(container[0])() for _ in order]
    for dst, j in zip(items, order):
        dst.CopyFrom(container[j])
    del container[:]
    for it in items:
        container.add().CopyFrom(it)


# ------------------------------------------------------------------ transformations
def t_perm(pack: Pack, rng, style=None):
    """Permute the entries of every TableDataList."""
    msgs = Messages(pack)
    style = style or rng.choice(["shuffle", "reverse", "rotate", "swap-first"])
    n_lists = n_moved = 0
    for ident, dl in msgs.of_type("TableDataList"):
        n = len(dl.entries)
        if n < 2:
            continue
        order = list(range(n))
        if style == "reverse":
            order.reverse()
        elif style == "rotate":
            k = rng.randrange(1, n)
            order = order[k:] + order[:k]
        elif style == "swap-first":
            j = rng.randrange(1, n)
            order[0], order[j] = order[j], order[0]
        else:
            while order == list(range(n)):
                rng.shuffle(order)
        _reorder(dl.entries, order)
        msgs.touch(ident)
        n_lists += 1
        n_moved += sum(1 for a, b in enumerate(order) if a != b)
        pack.bump("perm:list-type-%d" % dl.listType)
    msgs.flush()
    pack.log.append(f"perm[{style}]: {n_lists} lists, {n_moved} entries moved")
    pack.bump("perm:lists", n_lists)
    return n_lists > 0


def t_rechunk(pack: Pack, rng):
    n = 0
    for m in pack.members:
        if not m.is_iwa:
            continue
        stream = unframe(m.data)
        cuts = random_cuts(rng, len(stream))
        p_stored = rng.choice([0.0, 0.3, 1.0])
        pieces, prev = [], 0
        for c in cuts:
            pieces.append((stream[prev:c], rng.random() < p_stored))
            prev = c
        if rng.random() < 0.2:
            pieces.insert(rng.randrange(len(pieces) + 1), (b"", False))   # an empty compressed piece
        new = frame_pieces(pieces)
        assert unframe(new) == stream
        m.data = new
        n += 1
        pack.bump("rechunk:pieces", len(pieces))
    pack.log.append(f"rechunk: {n} members")
    pack.bump("rechunk:members", n)
    return n > 0


def t_order(pack: Pack, rng, style=None):
    style = style or rng.choice(["reverse", "shuffle", "shuffle", "metadata-first", "tables-first"])
    ms = pack.members
    if style == "reverse":
        ms.reverse()
    elif style == "shuffle":
        rng.shuffle(ms)
    elif style == "metadata-first":
        ms.sort(key=lambda m: (not m.name.startswith("Metadata/"), rng.random()))
    else:
        ms.sort(key=lambda m: (not m.name.startswith("Index/Tables/"), rng.random()))
    pack.log.append(f"order[{style}]: {len(ms)} members")
    return len(ms) > 1


def t_method(pack: Pack, rng, style=None):
    style = style or rng.choice(["all-deflated", "all-stored", "mixed"])
    for m in pack.members:
        if style == "all-deflated":
            m.method = zipfile.ZIP_DEFLATED
        elif style == "all-stored":
            m.method = zipfile.ZIP_STORED
        else:
            m.method = rng.choice([zipfile.ZIP_DEFLATED, zipfile.ZIP_STORED])
    pack.log.append(f"method[{style}]")
    return True


def t_form(pack: Pack, rng):
    if pack.form == "zip":
        if any(m.name.lower().endswith("index.zip") for m in pack.members):
            pack.log.append("form: more than one nested Index.zip, unchanged")
            return False
        if getattr(pack, "nested", None):
            # a zipped package: flatten it into a single-file document
            for m in pack.members:
                m.in_index = False
            pack.nested = None
            pack.log.append("form: zipped package -> single file")
            return True
        for m in pack.members:
            m.in_index = m.name.startswith("Index/") and not m.name.endswith("/")
        pack.form = "package"
    else:
        for m in pack.members:
            m.in_index = False
        pack.form = "zip"
        pack.nested = None
    pack.log.append(f"form: -> {pack.form}")
    return True


def _offsets(ri):
    return array("h", ri.cell_offsets).tolist()


def t_offsets(pack: Pack, rng, direction=None):
    """Re-encode rows between narrow (byte) and wide (4-byte unit) offsets where both encodings express the row."""
    msgs = Messages(pack)
    direction = direction or rng.choice(["to-narrow", "to-wide", "mixed"])
    n = 0
    for ident, tile in msgs.of_type("Tile"):
        for ri in tile.rowInfos:
            if not ri.cell_offsets:
                continue
            offs = _offsets(ri)
            want = direction if direction != "mixed" else rng.choice(["to-narrow", "to-wide"])
            if ri.has_wide_offsets and want == "to-narrow":
                if all(o == -1 or 0 <= o * 4 <= 32767 for o in offs):
                    new = [o if o == -1 else o * 4 for o in offs]
                    ri.cell_offsets = array("h", new).tobytes()
                    ri.has_wide_offsets = False
                    n += 1
                    pack.bump("offsets:to-narrow")
            elif not ri.has_wide_offsets and want == "to-wide":
                if all(o == -1 or (o >= 0 and o % 4 == 0) for o in offs):
                    new = [o if o == -1 else o // 4 for o in offs]
                    ri.cell_offsets = array("h", new).tobytes()
                    ri.has_wide_offsets = True
                    n += 1
                    pack.bump("offsets:to-wide")
        msgs.touch(ident)
    msgs.flush()
    pack.log.append(f"offsets[{direction}]: {n} rows re-encoded")
    return n > 0


def table_layouts(msgs: Messages):
    """(table id, TableModelArchive, [header buckets], [(tileid, Tile)], tile_size) of every table model."""
    out = []
    for ident, tm in msgs.of_type("TableModelArchive"):
        bds = tm.base_data_store
        buckets = [(b.identifier, msgs.objs.get(b.identifier)) for b in bds.rowHeaders.buckets]
        tiles = [(t.tileid, t.tile.identifier, msgs.objs.get(t.tile.identifier)) for t in bds.tiles.tiles]
        if any(b is None for _, b in buckets) or any(t is None for _, _, t in tiles):
            continue
        out.append((ident, tm, buckets, tiles, bds.tiles.tile_size or 256))
    return out


def row_is_blank(ri) -> bool:
    return all(o < 0 for o in _offsets(ri))


def _set_rowinfos(tile, keep):
    copies = []
    for ri in keep:
        c = type(ri)()
        c.CopyFrom(ri)
        copies.append(c)
    del tile.rowInfos[:]
    for c in copies:
        tile.rowInfos.add().CopyFrom(c)


HEADER_STYLES = ("add", "remove", "drop-rowinfo-keep-header", "drop-rowinfo-and-header")


def t_headers(pack: Pack, rng, style=None):
    """Header records of rows without storage are optional, and so are the rowInfos of rows that store no cell.
    Per table one of the applicable styles is chosen (or `style` when given and applicable)."""
    msgs = Messages(pack)
    changed = 0
    used = []
    for ident, tm, buckets, tiles, tsz in table_layouts(msgs):
        if not buckets:
            continue
        nrows = tm.number_of_rows
        stored = {}
        for tileid, tid_, tile in tiles:
            for ri in tile.rowInfos:
                stored[tileid * tsz + ri.tile_row_index] = ri
        have = set()
        for bid, b in buckets:
            have |= {h.index for h in b.headers}
        blank = sorted(r for r, ri in stored.items() if row_is_blank(ri))
        empty = [r for r in range(nrows) if r not in stored]
        can = []
        if any(r not in have for r in empty):
            can.append("add")
        if any(r in have for r in empty):
            can.append("remove")
        if blank:
            can += ["drop-rowinfo-keep-header", "drop-rowinfo-and-header"]
        if style is not None:
            can = [c for c in can if c == style]
        if not can:
            continue
        st = rng.choice(can)
        used.append(st)
        if st.startswith("drop-rowinfo"):
            victims = set(r for r in blank if rng.random() < 0.6) or {rng.choice(blank)}
            for tileid, tid_, tile in tiles:
                keep = [ri for ri in tile.rowInfos if (tileid * tsz + ri.tile_row_index) not in victims]
                if len(keep) != len(tile.rowInfos):
                    _set_rowinfos(tile, keep)
                    msgs.touch(tid_)
            changed += len(victims)
            pack.bump("headers:rowinfo-dropped", len(victims))
            if st == "drop-rowinfo-and-header":
                changed += _remove_headers(msgs, buckets, victims, pack)
        elif st == "add":
            cand = [r for r in empty if r not in have]
            pick = [r for r in cand if rng.random() < 0.5] or [rng.choice(cand)]
            bid, b = buckets[rng.randrange(len(buckets))]
            hs = []
            for h in b.headers:
                c = type(h)()
                c.CopyFrom(h)
                hs.append(c)
            for r in pick:
                hs.append(type(b).Header(index=r, numberOfCells=0, size=0.0, hidingState=0))
            hs.sort(key=lambda h: h.index)
            del b.headers[:]
            for h in hs:
                b.headers.add().CopyFrom(h)
            msgs.touch(bid)
            changed += len(pick)
            pack.bump("headers:added", len(pick))
        else:
            victims = {r for r in empty if r in have}
            changed += _remove_headers(msgs, buckets, victims, pack)
    msgs.flush()
    summary = ",".join(f"{u}x{used.count(u)}" for u in sorted(set(used)))
    pack.log.append(f"headers[{summary or 'nothing applicable'}]: {changed} records changed")
    return changed > 0


def _remove_headers(msgs, buckets, victims, pack):
    n = 0
    for bid, b in buckets:
        # only records that carry nothing but the index (no height, not hidden, no style) are meaning-free
        def free(h):
            return h.index in victims and h.size == 0.0 and h.hidingState == 0 and not h.HasField("cell_style") and not h.HasField("text_style")
        keep = [h for h in b.headers if not free(h)]
        if len(keep) != len(b.headers):
            copies = []
            for h in keep:
                c = type(h)()
                c.CopyFrom(h)
                copies.append(c)
            n += len(b.headers) - len(keep)
            del b.headers[:]
            for c in copies:
                b.headers.add().CopyFrom(c)
            msgs.touch(bid)
    pack.bump("headers:removed", n)
    return n


def t_rows(pack: Pack, rng, style=None):
    """Stored rows carry their own position: shuffle the rowInfos of each tile and the tile references of each table."""
    msgs = Messages(pack)
    style = style or rng.choice(["shuffle", "reverse"])
    n = 0
    for ident, tm, buckets, tiles, tsz in table_layouts(msgs):
        for tileid, tid_, tile in tiles:
            k = len(tile.rowInfos)
            if k > 1:
                order = list(range(k))
                if style == "reverse":
                    order.reverse()
                else:
                    while order == list(range(k)):
                        rng.shuffle(order)
                _reorder(tile.rowInfos, order)
                msgs.touch(tid_)
                n += 1
        refs = tm.base_data_store.tiles.tiles
        if len(refs) > 1:
            order = list(range(len(refs)))
            if style == "reverse":
                order.reverse()
            else:
                while order == list(range(len(refs))):
                    rng.shuffle(order)
            _reorder(refs, order)
            msgs.touch(ident)
            pack.bump("rows:tile-refs-reordered")
            n += 1
    msgs.flush()
    pack.log.append(f"rows[{style}]: {n} rowInfo/tile lists reordered")
    pack.bump("rows:lists", n)
    return n > 0


TRANSFORMS = {"perm": t_perm, "rechunk": t_rechunk, "order": t_order, "method": t_method, "form": t_form,
              "offsets": t_offsets, "headers": t_headers, "rows": t_rows}


def rewrite(src, dst, kinds, rng, options=None):
    """Apply the transformations `kinds` (in order) to the document at `src`, write it to `dst`.
    Returns (path, pack) - pack.log says what was done, pack.applied which kinds changed something."""
    pack = load(src)
    pack.applied = []
    options = options or {}
    for k in kinds:
        kw = {}
        if k in options and options[k] is not None:
            kw = {"style" if k in ("perm", "order", "method", "headers", "rows") else "direction": options[k]} if k != "rechunk" and k != "form" else {}
        if TRANSFORMS[k](pack, rng, **kw):
            pack.applied.append(k)
    return save(pack, dst), pack
