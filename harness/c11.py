"""C11 - A1 and row/column addressing reach the same cell in every call; bounds hold.

Theorems: coq/Props/C11.v (Grid + A1 models).  Correspondence: positions in
[-3..3, n-2..n+2, 255..257, limits] x both notations x position-taking methods,
iter_rows/iter_cols over all min/max combinations, in lock-step with the
extracted Grid model.  Oracle (implementation only): A1 form and row/col form
act on the same cell; out-of-range reads/writes raise IndexError and change
nothing; in-range writes grow the table to exactly the required size;
iteration visits exactly the addressed rectangle."""
from __future__ import annotations

import itertools
import json
import warnings

from . import common, gridlib
from .common import Ctx

LEVEL = "proof"
ENTRY = "C03Entry"
warnings.filterwarnings("ignore")


def a1(r, c, style=0):
    """A1 text of a position (r may be -1 -> 'A0'); style selects plain/$/lower-case forms."""
    from numbers_parser.xrefs import xl_col_to_name
    name = xl_col_to_name(c)
    s = [f"{name}{r + 1}", f"${name}${r + 1}", f"{name}${r + 1}", f"${name}{r + 1}"][style % 4]
    return s


def snapshot(t):
    return gridlib.dump_table(t)


def fresh(nr, nc):
    from numbers_parser import Document
    d = Document(num_rows=nr, num_cols=nc, num_header_rows=0, num_header_cols=0)
    t = d.sheets[0].tables[0]
    v = 1
    for r in range(min(nr, 4)):
        for c in range(min(nc, 4)):
            t.write(r, c, v)
            v += 1
    return d, t


def call(f, *a, **k):
    try:
        return ("ok", f(*a, **k))
    except Exception as e:  # noqa: BLE001
        return ("!" + type(e).__name__, None)


METHODS = ["cell", "write", "set_cell_style", "set_cell_formatting", "set_cell_border"]


def do_method(doc, t, method, pos, tag):
    """Apply a position-taking method with `pos` = (r, c) or (a1_text,)."""
    if method == "cell":
        st, c = call(t.cell, *pos)
        return st if st != "ok" else "ok:" + gridlib.show_cell(c)
    if method == "write":
        return call(t.write, *pos, tag)[0]
    if method == "set_cell_style":
        if "S" not in doc.styles:
            doc.add_style(name="S", bold=True)
        return call(t.set_cell_style, *pos, "S")[0]
    if method == "set_cell_formatting":
        return call(t.set_cell_formatting, *pos, "number", decimal_places=2)[0]
    if method == "set_cell_border":
        from numbers_parser import Border
        return call(t.set_cell_border, *pos, "top", Border(2.0, (255, 0, 0), "solid"))[0]
    return "?"


def probe_state(t):
    """Observable state used to decide 'same cell / nothing changed'."""
    out = [snapshot(t)]
    for row in t.rows():
        for c in row:
            st = getattr(c, "_style", None)
            b = getattr(getattr(c, "_border", None), "top", None)
            out.append((c.row, c.col, st.name if st is not None else None, getattr(c, "_num_format_id", None),
                        None if b is None else (b.width, tuple(b.color), b.style)))
    return out


def oracle_position(ctx: Ctx, shape, r, c, method, style):
    """A1 form vs row/col form of the same position on two identical fresh tables."""
    nr, nc = shape
    case = {"shape": list(shape), "pos": [r, c], "method": method, "a1style": style}
    valid_name = 0 <= c
    d1, t1 = fresh(nr, nc)
    before = probe_state(t1)
    out_rc = do_method(d1, t1, method, (r, c), 777)
    after_rc = probe_state(t1)
    limit_ok = 0 <= r < 1000000 and 0 <= c < 1000
    inside = 0 <= r < nr and 0 <= c < nc
    # bounds (row/col form)
    if method == "cell":
        if not inside and out_rc != "!IndexError":
            ctx.oracle_fail("read-outside-accepted", case, f"cell({r},{c}) on {nr}x{nc} -> {out_rc}")
        if inside and not out_rc.startswith("ok:"):
            ctx.oracle_fail("read-inside-refused", case, f"cell({r},{c}) on {nr}x{nc} -> {out_rc}")
        if after_rc != before:
            ctx.oracle_fail("read-changed-state", case, "cell() changed the table")
    else:
        if not limit_ok:
            neg = r < 0 or c < 0
            if out_rc != "!IndexError":
                ctx.oracle_fail("negative-position-accepted" if neg else "beyond-limit-accepted", case,
                                f"{method}({r},{c}) on {nr}x{nc} -> {out_rc}")
            elif after_rc != before:
                ctx.oracle_fail("refused-call-changed-state", case, f"{method}({r},{c}) raised but changed the table")
        elif method == "set_cell_formatting" and out_rc == "!TypeError":
            pass   # formatting an empty cell is documented to raise TypeError; only A1 == row/col is checked below
        else:
            if out_rc != "ok":
                ctx.oracle_fail("write-inside-refused", case, f"{method}({r},{c}) on {nr}x{nc} -> {out_rc}")
            else:
                want = (max(nr, r + 1), max(nc, c + 1))
                if (t1.num_rows, t1.num_cols) != want or len(t1.rows()) != want[0] or any(len(x) != want[1] for x in t1.rows()):
                    ctx.oracle_fail("growth-not-exact", case, f"{method}({r},{c}) on {nr}x{nc}: size now {(t1.num_rows, t1.num_cols)}, expected {want}")
    # A1 form
    if not valid_name:
        return
    if r < -1:
        return   # no A1 text exists for rows below 'A0'
    text = a1(r, c, style)
    d2, t2 = fresh(nr, nc)
    out_a1 = do_method(d2, t2, method, (text,), 777)
    after_a1 = probe_state(t2)
    if r == -1:
        # 'A0' names no cell: must be refused like a negative row
        if out_a1 != "!IndexError":
            ctx.oracle_fail("negative-position-accepted", dict(case, a1=text), f"{method}({text!r}) -> {out_a1}")
        elif after_a1 != before:
            ctx.oracle_fail("refused-call-changed-state", dict(case, a1=text), f"{method}({text!r}) raised but changed the table")
        return
    if c >= 18278:
        return
    if out_a1 != out_rc or after_a1 != after_rc:
        ctx.oracle_fail("a1-differs-from-rowcol", dict(case, a1=text),
                        f"{method}({text!r}) -> {out_a1}; {method}({r},{c}) -> {out_rc}; states equal: {after_a1 == after_rc}")


def oracle_iter(ctx: Ctx, t, nr, nc, which, a, b, c, d):
    """iter_rows(min_row=a,max_row=b,min_col=c,max_col=d) / iter_cols(min_col=a,max_col=b,min_row=c,max_row=d)."""
    case = {"shape": [nr, nc], "iter": which, "args": [a, b, c, d]}
    if which == "rows":
        r0, r1, c0, c1 = a, b, c, d
        st, res = call(lambda: [list(x) for x in t.iter_rows(min_row=a, max_row=b, min_col=c, max_col=d)])
    else:
        c0, c1, r0, r1 = a, b, c, d
        st, res = call(lambda: [list(x) for x in t.iter_cols(min_col=a, max_col=b, min_row=c, max_row=d)])
    R0 = 0 if r0 is None else r0
    R1 = nr - 1 if r1 is None else r1
    C0 = 0 if c0 is None else c0
    C1 = nc - 1 if c1 is None else c1
    # every bound that is given must be a position of the table: a negative END or a START at/past the edge is as
    # much outside as a negative start or an end past the edge
    outside = any(v is not None and not 0 <= v < n for v, n in ((r0, nr), (r1, nr), (c0, nc), (c1, nc)))
    if outside:
        if st != "!IndexError":
            cls = "zero-bound" if 0 in (r1, c1) else "outside"
            ctx.oracle_fail(f"iter-outside-accepted:{cls}", case, f"iter_{which}{(a, b, c, d)} on {nr}x{nc} -> {st} ({len(res) if res is not None else None} items)")
        return
    if st != "ok":
        ctx.oracle_fail("iter-inside-refused", case, f"iter_{which}{(a, b, c, d)} on {nr}x{nc} -> {st}")
        return
    rows = t.rows()
    if which == "rows":
        exp = [[rows[r][cc] for cc in range(C0, C1 + 1)] for r in range(R0, R1 + 1)]
    else:
        exp = [[rows[r][cc] for r in range(R0, R1 + 1)] for cc in range(C0, C1 + 1)]
    same = len(res) == len(exp) and all(len(x) == len(y) and all(p is q for p, q in zip(x, y)) for x, y in zip(res, exp))
    if not same:
        cls = "zero-bound" if 0 in (r1, c1) else "other"
        ctx.oracle_fail(f"iter-wrong-rectangle:{cls}", case,
                        f"iter_{which}{(a, b, c, d)} on {nr}x{nc}: {[len(x) for x in res]} items per line, expected {[len(x) for x in exp]}")
        return
    # values_only=True: the same rectangle, as values
    if which == "rows":
        st2, res2 = call(lambda: [list(x) for x in t.iter_rows(min_row=a, max_row=b, min_col=c, max_col=d, values_only=True)])
    else:
        st2, res2 = call(lambda: [list(x) for x in t.iter_cols(min_col=a, max_col=b, min_row=c, max_row=d, values_only=True)])
    expv = [[cell.value for cell in line] for line in exp]
    if st2 != "ok" or res2 != expv:
        ctx.oracle_fail("iter-wrong-rectangle:values-only", dict(case, values_only=True),
                        f"iter_{which}{(a, b, c, d)} values_only=True on {nr}x{nc}: {st2} {[len(x) for x in (res2 or [])]} values per line, expected {[len(x) for x in expv]}")


def oracle_a1_history(ctx: Ctx, ops: list):
    """One table through a history of edits; after every edit EVERY position is read in A1 and in row/column form (the
    same A1 texts are therefore read again and again): both forms give the same cell, and the A1 text of a position
    just outside the table raises IndexError.  ops: ["W", r, c, v] | ["AR", n, start] | ["AC", n, start] | ["DR", n, start]
    | ["DC", n, start] | ["M", a1range]"""
    d, t = fresh(4, 3)
    case = {"a1_history": ops}

    def sweep(k):
        for r in range(t.num_rows):
            for c in range(t.num_cols):
                ctx.count("oracle-a1-history")
                ca, cb = call(t.cell, a1(r, c))[1], call(t.cell, r, c)[1]
                if ca is not cb or ca is None:
                    sa = "raises" if ca is None else gridlib.show_cell(ca)
                    sb = "raises" if cb is None else gridlib.show_cell(cb)
                    ctx.oracle_fail("a1-differs-from-rowcol", dict(case, upto=k, pos=[r, c]),
                                    f"after {ops[:k]}: cell({a1(r, c)!r}) -> {sa}; cell({r},{c}) -> {sb}")
                    return False
        for text in (a1(t.num_rows, 0), a1(0, t.num_cols), a1(t.num_rows + 1, t.num_cols)):
            st = call(t.cell, text)[0]
            if st != "!IndexError":
                ctx.oracle_fail("read-outside-accepted", dict(case, upto=k, a1=text), f"after {ops[:k]}: cell({text!r}) on {t.num_rows}x{t.num_cols} -> {st}")
                return False
        return True

    if not sweep(0):
        return
    for k, op in enumerate(ops, 1):
        try:
            if op[0] == "W":
                t.write(op[1], op[2], op[3])
            elif op[0] == "AR":
                t.add_row(op[1], op[2])
            elif op[0] == "AC":
                t.add_column(op[1], op[2])
            elif op[0] == "DR":
                t.delete_row(op[1], op[2])
            elif op[0] == "DC":
                t.delete_column(op[1], op[2])
            elif op[0] == "M":
                t.merge_cells(op[1])
            elif op[0] == "B":
                # a border drawn at a position (A1 or row/column form) is reported by the cell found at that position
                from numbers_parser import RGB, Border
                pos = (a1(op[1], op[2]),) if op[3] else (op[1], op[2])
                cell = t.cell(op[1], op[2])
                plain = type(cell).__name__ != "MergedCell" and not cell.is_merged
                t.set_cell_border(*pos, "top", Border(2.0, RGB(9, 9, 9), "solid"))
                got = t.cell(op[1], op[2]).border.top
                if plain and (got is None or got.width != 2.0):
                    ctx.oracle_fail("border-not-on-addressed-cell", dict(case, upto=k, pos=[op[1], op[2]]),
                                    f"after {ops[:k]}: set_cell_border{pos} was accepted but cell({op[1]},{op[2]}).border.top is {got!r}")
                    return
        except (IndexError, ValueError):
            pass      # a refused edit changes nothing; the sweep below still has to agree
        if not sweep(k):
            return
    ctx.nontrivial(("a1-history", json.dumps(ops)))


def gen_a1_history(rng):
    ops = []
    nr, nc = 4, 3
    for _ in range(rng.randrange(2, 7)):
        k = rng.choice(["W", "AR", "AC", "DR", "DC", "M", "AR", "DC"])
        if k == "W":
            r, c = rng.randrange(nr + 2), rng.randrange(nc + 1)
            ops.append(["W", r, c, rng.randrange(100, 999)])
            nr, nc = max(nr, r + 1), max(nc, c + 1)
        elif k in ("AR", "AC"):
            ext = nr if k == "AR" else nc
            ops.append([k, 1, rng.choice([None, 0, rng.randrange(ext)])])
            if k == "AR":
                nr += 1
            else:
                nc += 1
        elif k in ("DR", "DC"):
            ext = nr if k == "DR" else nc
            if ext < 3:
                continue
            ops.append([k, 1, rng.choice([None, 0, rng.randrange(ext)])])
            if k == "DR":
                nr -= 1
            else:
                nc -= 1
        else:
            r, c = rng.randrange(nr - 1), rng.randrange(nc - 1)
            ops.append(["M", f"{a1(r, c)}:{a1(r + 1, c + rng.randrange(2))}"])
        if rng.random() < 0.35:
            ops.append(["B", rng.randrange(nr), rng.randrange(nc), rng.randrange(2)])
    return ops


def positions_for(nr, nc, big):
    rows = sorted(set([-3, -2, -1, 0, 1, 2, 3, nr - 2, nr - 1, nr, nr + 1, nr + 2] + ([255, 256, 257, 999998, 999999, 1000000, 1000001] if big else [])))
    cols = sorted(set([-3, -2, -1, 0, 1, 2, 3, nc - 2, nc - 1, nc, nc + 1, nc + 2] + ([255, 256, 257, 998, 999, 1000, 1001] if big else [])))
    return rows, cols


def run(ctx: Ctx) -> int:
    rng = ctx.rng
    common.standard_trusted_base(ctx, [
        "coq/Model/A1.v + Props/C10.v (a1_roundtrip) supply the A1 half of a1_same_cell",
        "tools/gen_c11.py (AST translator of Table._validate_cell_coords: guards, growth loops, first statement of every *args method; fail closed) - set_cell_style / set_cell_formatting / set_cell_border are shown by gen_position_methods to enter through the translated validation and are exercised by the implementation-only oracle (A1 form vs row/col form on twin documents); the executable model covers cell() and write()",
    ])
    ctx.extra["rule"] = ("positions with row in {-3..3, n-2..n+2} (+ {255..257, 999998..1000001} on one table) and column in {-3..3, n-2..n+2} (+ {255..257, 998..1001}) "
                         "x A1 forms (plain, $-forms) x {cell, write, set_cell_style, set_cell_formatting, set_cell_border} x table sizes 1x1, 4x3, 12x8; "
                         "iter_rows/iter_cols over all combinations of {None, 0, 1, last-1, last, last+1, -1}; non-trivial = the call was executed and compared; distinct by case")
    ctx.extra["exhaustive"] = True
    cr = common.coq_check_props("C11", clean=not ctx.quick)
    ctx.coq, ctx.theorems = cr, cr.theorems
    if not cr.ok:
        ctx.obligation_errors += cr.errors
    try:
        st = json.loads((common.BUILD / "translate_status.json").read_text()).get("c11_validate", "missing")
    except Exception as e:  # noqa: BLE001
        st = f"missing: {type(e).__name__}"
    ctx.extra["gen_obligations"] = [{"table": "GenC11.v (Table._validate_cell_coords translated from its AST)", "status": st}]
    if st != "ok":
        ctx.obligation_errors.append(f"translator: GenC11.v {st}")
    if not ctx.quick:
        ctx.extra["coqchk"] = common.coqchk("C11")
        if ctx.extra["coqchk"]["exit"] != 0:
            ctx.obligation_errors.append("coqchk failed: " + ctx.extra["coqchk"]["tail"])
    try:
        exe = common.build_model(ENTRY)
    except RuntimeError as e:
        ctx.obligation_errors.append(str(e))
        exe = None

    shapes = [(1, 1), (4, 3), (12, 8)]
    # ---- lock-step with the model: reads and writes at boundary positions, iteration bounds
    hists = []
    for (nr, nc) in shapes:
        rows, cols = positions_for(nr, nc, big=False)
        for r in rows:
            for c in cols:
                hists.append([("N", nr, nc), ("W", 0, 0, 0, 5), ("RD", 0, r, c), ("W", 0, r, c, 9), ("D", 0)])
        opts_r = [None, 0, 1, nr - 2, nr - 1, nr, -1, -2, nr + 3]
        opts_c = [None, 0, 1, nc - 2, nc - 1, nc, -1, -2, nc + 3]
        combos = list(itertools.product(opts_r, opts_r, opts_c, opts_c))
        if ctx.quick:
            combos = [x for i, x in enumerate(combos) if i % 7 == 0 or 0 in x[:2] and 0 in x[2:]]
        for (a, b, c, d) in combos:
            hists.append([("N", nr, nc), ("W", 0, nr - 1, nc - 1, 3), ("IR", 0, a, b, c, d), ("IC", 0, c, d, a, b)])
    # growth to the limits (one table, sparse)
    for (r, c) in [(255, 0), (256, 1), (257, 2), (0, 255), (1, 256), (2, 257), (0, 999), (0, 1000), (300, 300)]:
        hists.append([("N", 2, 2), ("W", 0, r, c, 4), ("RD", 0, r, c), ("RD", 0, r + 1, c), ("RD", 0, r, c + 1)])
    if not ctx.quick:
        hists.append([("N", 1, 1), ("W", 0, 2999, 0, 4), ("RD", 0, 2999, 0), ("W", 0, 1000000, 0, 1)])
    ctx.dist("lockstep_histories", len(hists))
    if exe:
        # compare only outcome classes and dumps (cells of a dump are compared in full)
        res = gridlib.lockstep(ctx, exe, "bounds", hists)

    # ---- implementation-only oracle: both notations x all methods
    n_pos = 0
    for (nr, nc) in shapes:
        rows, cols = positions_for(nr, nc, big=False)
        for r in rows:
            for c in cols:
                for mi, method in enumerate(METHODS):
                    if ctx.quick and method in ("set_cell_formatting", "set_cell_border") and (r + c) % 3:
                        continue
                    oracle_position(ctx, (nr, nc), r, c, method, style=(r + c + mi) % 4)
                    ctx.count("oracle-position")
                    ctx.nontrivial(("pos", nr, nc, r, c, method))
                    n_pos += 1
    big_positions = [(255, 2), (256, 2), (257, 2), (2, 255), (2, 256), (2, 257), (3, 998), (3, 999), (3, 1000), (3, 1001), (-1, 999), (5, -1),
                     (7, 1000), (9, 1001), (6, -1), (-2, 7)]   # one coordinate would grow the table, the other is refused
    if not ctx.quick:
        big_positions += [(999998, 0), (999999, 0), (1000000, 0), (1000001, 0)]
    else:
        big_positions += [(1000000, 0), (1000001, 1)]
    for (r, c) in big_positions:
        for method in ("cell", "write", "set_cell_style", "set_cell_border"):
            oracle_position(ctx, (4, 3), r, c, method, style=1)
            ctx.count("oracle-position")
            ctx.nontrivial(("pos", 4, 3, r, c, method))
    # lower-case A1 text is not a cell reference
    for text in ("a1", "b2", "aa10", "$c$3", "Ab1", "aB2"):
        for shape in ((4, 3), (2, 40)):
            d0, t0 = fresh(*shape)
            before = probe_state(t0)
            for method in METHODS:
                st = do_method(d0, t0, method, (text,), 555)
                ctx.count("oracle-position")
                if st != "!IndexError":
                    ctx.oracle_fail("lowercase-a1-accepted", {"a1": text, "method": method, "shape": list(shape)},
                                    f"{method}({text!r}) on {shape[0]}x{shape[1]} -> {st} (lower-case letters are not a cell reference)")
                elif probe_state(t0) != before:
                    ctx.oracle_fail("refused-call-changed-state", {"a1": text, "method": method, "shape": list(shape)},
                                    f"{method}({text!r}) raised but changed the table")
    for (nr, nc) in shapes:
        d, t = fresh(nr, nc)
        opts_r = [None, 0, 1, nr - 2, nr - 1, nr, -1, -2, nr + 3]
        opts_c = [None, 0, 1, nc - 2, nc - 1, nc, -1, -2, nc + 3]
        for a, b, c, dd in itertools.product(opts_r, opts_r, opts_c, opts_c):
            oracle_iter(ctx, t, nr, nc, "rows", a, b, c, dd)
            oracle_iter(ctx, t, nr, nc, "cols", c, dd, a, b)
            ctx.count("oracle-iter", 2)
            ctx.nontrivial(("iter", nr, nc, a, b, c, dd))
    ctx.dist("oracle_positions", n_pos)
    # histories on ONE table, every position read in both forms after every edit
    hs = [[["AR", 1, 1]], [["DC", 1, 0]], [["M", "B2:C3"]], [["DR", 1, 0], ["AC", 1, 0]], [["W", 5, 4, 1], ["DR", 1, None]],
          [["DR", 1, None], ["W", 4, 1, 5], ["B", 4, 1, 1], ["B", 4, 2, 0], ["B", 3, 0, 1]], [["DC", 1, None], ["W", 1, 4, 5], ["B", 1, 4, 0]]]
    hs += [gen_a1_history(rng) for _ in range(25 if ctx.quick else 300)]
    for h in hs:
        oracle_a1_history(ctx, h)
    ctx.dist("a1_histories", len(hs))
    return common.finish(ctx, search)


def search(ctx: Ctx, broken) -> list:
    sub = common.Ctx(ctx.prop, ctx.tier, ctx.seed + 1, LEVEL)
    for (nr, nc) in [(2, 2), (5, 4)]:
        rows, cols = positions_for(nr, nc, big=False)
        for r in rows:
            for c in cols:
                for method in METHODS:
                    oracle_position(sub, (nr, nc), r, c, method, style=(r + c) % 4)
        d, t = fresh(nr, nc)
        opts_r = [None, 0, 1, nr - 1, nr, -1]
        opts_c = [None, 0, 1, nc - 1, nc, -1]
        for a, b, c, dd in itertools.product(opts_r, opts_r, opts_c, opts_c):
            oracle_iter(sub, t, nr, nc, "rows", a, b, c, dd)
            oracle_iter(sub, t, nr, nc, "cols", c, dd, a, b)
    out = list(sub.oracle_failures)
    sub.cleanup()
    return out


def replay(path: str) -> int:
    d = json.loads(open(path).read())
    if d.get("kind") == "failing-input":
        case = d["case"]
        sub = common.Ctx("C11", "quick", 0, LEVEL)
        if "a1_history" in case:
            oracle_a1_history(sub, case["a1_history"])
        elif "iter" in case:
            nr, nc = case["shape"]
            _, t = fresh(nr, nc)
            oracle_iter(sub, t, nr, nc, case["iter"], *case["args"])
        elif "method" in case:
            oracle_position(sub, tuple(case["shape"]), case["pos"][0], case["pos"][1], case["method"], case.get("a1style", 0))
        fails = list(sub.oracle_failures)
        sub.cleanup()
        if fails:
            print(f"replay: still failing: {fails[0][2]}")
            print(f"VIOLATION property=C11 replay={path}")
            return 1
        print("replay: case passes on the current tree")
        return 0
    print("replay: no failing input was recorded; broken obligations/correspondences were:")
    print(json.dumps(d.get("broken"), indent=1)[:4000])
    return 1
