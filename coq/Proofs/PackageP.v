(* PackageP: the checker of Model/Package.v decides the specification (validate = [] <-> wf_package),
   and ObjectStore's identifier allocation hands out fresh, increasing identifiers below the high-water mark. *)
From Coq Require Import ZArith NArith List Bool Lia Sorted MSets.MSetPositive.
From NP Require Import Model.PyBase Model.CellRecord Model.TileCodec Model.Package.
Import ListNotations.
Open Scope N_scope.

(* ---------- generic list / bool facts ---------- *)
Lemma flat_map_nil {A B} (f : A -> list B) l : flat_map f l = [] <-> Forall (fun x => f x = []) l.
Proof.
  induction l as [|x l IH]; cbn [flat_map]; split; intros H; auto.
  - apply app_eq_nil in H as [H1 H2]. constructor; [assumption|now apply IH].
  - pose proof (Forall_inv H) as H1. pose proof (Forall_inv_tail H) as H2. apply IH in H2. now rewrite H1, H2.
Qed.

Lemma app_nil_iff {A} (a b : list A) : a ++ b = [] <-> a = [] /\ b = [].
Proof. split; [apply app_eq_nil|intros [-> ->]; reflexivity]. Qed.

Lemma when_nil b d : when b d = [] <-> b = true.
Proof. destruct b; cbn; split; auto; discriminate. Qed.

Lemma Forall_iff {A} (P Q : A -> Prop) l : (forall x, In x l -> (P x <-> Q x)) -> (Forall P l <-> Forall Q l).
Proof. intros H. rewrite !Forall_forall. split; intros G x Hx; apply (H x Hx), G, Hx. Qed.

Lemma str_eqb_iff : forall a b, str_eqb a b = true <-> a = b.
Proof.
  induction a as [|x a IH]; destruct b as [|y b]; cbn [str_eqb]; split; try discriminate; try reflexivity; intros H.
  - apply andb_true_iff in H as [H1 H2]. apply N.eqb_eq in H1. apply IH in H2. congruence.
  - injection H as -> ->. rewrite N.eqb_refl. cbn. now apply IH.
Qed.

Lemma name_in_iff n l : name_in n l = true <-> In n l.
Proof.
  unfold name_in. rewrite existsb_exists. split.
  - intros (x & Hx & E). apply str_eqb_iff in E. now subst.
  - intros H. exists n. split; [assumption|]. now apply str_eqb_iff.
Qed.

Lemma pair_in_iff a b D : pair_in a b D = true <-> In (a, b) D.
Proof.
  unfold pair_in. rewrite existsb_exists. split.
  - intros ([x y] & Hx & E). cbn in E. apply andb_true_iff in E as [E1 E2].
    apply N.eqb_eq in E1. apply N.eqb_eq in E2. now subst.
  - intros H. exists (a, b). split; [assumption|]. cbn. now rewrite !N.eqb_refl.
Qed.

(* ---------- identifier sets ---------- *)
Lemma key_inj a b : key a = key b -> a = b.
Proof. unfold key. intros H. apply (f_equal N.pos) in H. rewrite !N.succ_pos_spec in H. lia. Qed.

Lemma smem_empty x : smem x PositiveSet.empty = false.
Proof. reflexivity. Qed.

Lemma smem_sadd x y s : smem x (sadd y s) = true <-> x = y \/ smem x s = true.
Proof.
  unfold smem, sadd. rewrite !PositiveSet.mem_spec, PositiveSet.add_spec. split; intros [H|H]; auto.
  - left. now apply key_inj.
  - left. now subst.
Qed.

Lemma fold_sadd l : forall s x, smem x (fold_left (fun s x => sadd x s) l s) = true <-> In x l \/ smem x s = true.
Proof.
  induction l as [|y l IH]; intros s x; cbn [fold_left In].
  - split; [auto|intros [[]|H]; exact H].
  - rewrite IH, smem_sadd. split; intros H.
    + destruct H as [H|[H|H]]; auto.
    + destruct H as [[H|H]|H]; auto.
Qed.

Lemma set_of_spec l x : smem x (set_of l) = true <-> In x l.
Proof.
  unfold set_of. rewrite fold_sadd, smem_empty. split; [intros [H|H]; [exact H|discriminate]|auto].
Qed.

Lemma dups_acc_spec l : forall seen dup x,
  smem x (dups_acc l seen dup) = true <->
  smem x dup = true \/ (smem x seen = true /\ (1 <= count_occ N.eq_dec l x)%nat) \/ (2 <= count_occ N.eq_dec l x)%nat.
Proof.
  induction l as [|y l IH]; intros seen dup x; cbn [dups_acc count_occ].
  - split; [auto|]. intros [H|[[_ H]|H]]; [exact H|lia|lia].
  - destruct (smem y seen) eqn:Ey.
    + rewrite IH, smem_sadd. destruct (N.eq_dec y x) as [->|Hne].
      * split; intros _; [right; left; split; [exact Ey|lia]|left; left; reflexivity].
      * split; intros H.
        -- destruct H as [[H|H]|H]; [congruence|auto|auto].
        -- destruct H as [H|H]; auto.
    + rewrite IH, smem_sadd. destruct (N.eq_dec y x) as [->|Hne].
      * split; intros H.
        -- destruct H as [H|[[_ H]|H]]; [auto|right; right; lia|right; right; lia].
        -- destruct H as [H|[[H _]|H]]; [auto|congruence|].
           right. left. split; [left; reflexivity|lia].
      * split; intros H.
        -- destruct H as [H|[[[H|H] H']|H]]; [auto|congruence|auto|auto].
        -- destruct H as [H|[[H H']|H]]; auto.
Qed.

Lemma dups_spec l x : smem x (dups l) = true <-> (2 <= count_occ N.eq_dec l x)%nat.
Proof.
  unfold dups. rewrite dups_acc_spec, !smem_empty. split; [|auto].
  intros [H|[[H _]|H]]; [discriminate|discriminate|exact H].
Qed.

Lemma unique_iff l x : In x l -> (negb (smem x (dups l)) = true <-> count_occ N.eq_dec l x = 1%nat).
Proof.
  intros Hin. apply (count_occ_In N.eq_dec) in Hin.
  rewrite negb_true_iff. destruct (smem x (dups l)) eqn:E.
  - apply dups_spec in E. split; [discriminate|lia].
  - split; [intros _|reflexivity].
    assert (H : ~ (2 <= count_occ N.eq_dec l x)%nat) by (intros H; apply dups_spec in H; congruence). lia.
Qed.

(* ---------- object level ---------- *)
Lemma check_refs_nil (ok : N -> bool) (l : list N) D mk o rs :
  (forall r, ok r = true <-> In r l) ->
  (check_refs ok D mk o rs = [] <-> Forall (resolves_in l D o) rs).
Proof.
  intros Hok. unfold check_refs. rewrite flat_map_nil. apply Forall_iff. intros r _.
  rewrite when_nil, orb_true_iff, Hok, pair_in_iff. reflexivity.
Qed.

Lemma obj_refs_iff D Dd p o :
  obj_ref_defects (set_of (ids p)) (set_of (data_ids p)) D Dd o = [] <-> wf_obj_refs D Dd p o.
Proof.
  unfold obj_ref_defects, wf_obj_refs. destruct (o_touched o).
  - rewrite !app_nil_iff.
    rewrite !(check_refs_nil _ (ids p)) by (intros r; apply set_of_spec).
    rewrite !(check_refs_nil _ (data_ids p)) by (intros r; apply set_of_spec).
    split; [intros H _; exact H|intros H; exact (H eq_refl)].
  - split; [intros _ H; discriminate|reflexivity].
Qed.

Lemma obj_id_iff p o : In o (p_objects p) ->
  (obj_id_defects (dups (ids p)) (p_last p) o = [] <-> wf_obj_id p o).
Proof.
  intros Hin. unfold obj_id_defects, wf_obj_id. destruct (o_added o).
  - rewrite app_nil_iff, !when_nil, N.leb_le.
    rewrite unique_iff by (unfold ids; apply in_map; exact Hin).
    split; [intros H _; exact H|intros H; exact (H eq_refl)].
  - split; [intros _ H; discriminate|reflexivity].
Qed.

Lemma indexed_snd {A} (l : list A) : forall k, map snd (indexed k l) = l.
Proof. induction l as [|x l IH]; intros k; cbn; [reflexivity|now rewrite IH]. Qed.

Lemma archive_added_iff m : archive_added_b m = true <-> archive_added m.
Proof.
  unfold archive_added_b, archive_added. rewrite !andb_true_iff, negb_true_iff. split.
  - intros [[H1 H2] H3]. split; [exact H1|]. split; [exact H2|].
    intros E. apply str_eqb_iff in E. congruence.
  - intros (H1 & H2 & H3). split; [split; assumption|].
    destruct (str_eqb (m_name m) metadata_member) eqn:E; [|reflexivity].
    apply str_eqb_iff in E. contradiction.
Qed.

Lemma imp_bool (a b : bool) : negb a || b = true <-> (a = true -> b = true).
Proof. destruct a, b; cbn; split; auto; intros H; discriminate (H eq_refl). Qed.

Lemma members_iff p :
  flat_map (member_defects (map comp_file (p_components p))) (indexed 0 (p_members p)) = [] <->
  Forall (wf_member p) (p_members p).
Proof.
  rewrite flat_map_nil.
  rewrite <- (indexed_snd (p_members p) 0) at 2. rewrite Forall_map.
  apply Forall_iff. intros [i m] _. unfold member_defects, wf_member. cbn [fst snd].
  rewrite when_nil, imp_bool, archive_added_iff, name_in_iff, in_map_iff.
  split; intros H Ha; destruct (H Ha) as (c & H1 & H2); exists c; auto.
Qed.

Lemma has_root_iff p c :
  has_root (names p) (p_objects p) c = true <->
  exists o, In o (p_objects p) /\ o_id o = c_id c /\ file_of (names p) o = Some (comp_file c).
Proof.
  unfold has_root. rewrite existsb_exists. split; intros (o & Hin & H); exists o; (split; [exact Hin|]).
  - apply andb_true_iff in H as [H1 H2]. apply N.eqb_eq in H1. split; [exact H1|].
    destruct (file_of (names p) o) as [f|]; [|discriminate]. apply str_eqb_iff in H2. now subst.
  - destruct H as [H1 H2]. rewrite H2. apply andb_true_iff. split; [now apply N.eqb_eq|now apply str_eqb_iff].
Qed.

Lemma component_iff p c :
  component_defects (names p) (set_of (ids p)) (set_of (comp_ids p)) (p_objects p) c = [] <-> wf_component p c.
Proof.
  unfold component_defects, wf_component. rewrite !app_nil_iff, !flat_map_nil.
  assert (H1 : (if c_added c then when (name_in (comp_file c) (names p)) (DNoFile (c_id c)) ++
                                   when (has_root (names p) (p_objects p) c) (DNoRoot (c_id c)) else []) = [] <->
               (c_added c = true -> In (comp_file c) (names p) /\
                  exists o, In o (p_objects p) /\ o_id o = c_id c /\ file_of (names p) o = Some (comp_file c))).
  { destruct (c_added c).
    - rewrite app_nil_iff, !when_nil, name_in_iff, has_root_iff.
      split; [intros H _; exact H|intros H; exact (H eq_refl)].
    - split; [intros _ H; discriminate|reflexivity]. }
  rewrite H1.
  assert (H2 : Forall (fun x => (if x_added x then
                         when (smem (x_comp x) (set_of (comp_ids p))) (DExtComp (c_id c) (x_comp x)) ++
                         match x_obj x with Some y => when (smem y (set_of (ids p))) (DExtObj (c_id c) y) | None => [] end
                       else []) = []) (c_ext c) <->
               Forall (fun x => x_added x = true -> In (x_comp x) (comp_ids p) /\ forall y, x_obj x = Some y -> In y (ids p)) (c_ext c)).
  { apply Forall_iff. intros x _. destruct (x_added x).
    - rewrite app_nil_iff, when_nil, set_of_spec.
      destruct (x_obj x) as [y|].
      + rewrite when_nil, set_of_spec. split.
        * intros [G1 G2] _. split; [exact G1|]. intros y' E. injection E as <-. exact G2.
        * intros G. destruct (G eq_refl) as [G1 G2]. split; [exact G1|]. now apply G2.
      + split.
        * intros [G1 _] _. split; [exact G1|]. intros y' E. discriminate.
        * intros G. destruct (G eq_refl) as [G1 _]. split; [exact G1|reflexivity].
    - split; [intros _ H; discriminate|reflexivity]. }
  rewrite H2.
  assert (H3 : Forall (fun u : N * bool => (if snd u then when (smem (fst u) (set_of (ids p))) (DUuid (c_id c) (fst u)) else []) = []) (c_uuid c) <->
               Forall (fun u : N * bool => snd u = true -> In (fst u) (ids p)) (c_uuid c)).
  { apply Forall_iff. intros [u b] _. cbn [fst snd]. destruct b.
    - rewrite when_nil, set_of_spec. split; [intros H _; exact H|intros H; exact (H eq_refl)].
    - split; [intros _ H; discriminate|reflexivity]. }
  rewrite H3. reflexivity.
Qed.

Lemma data_iff p d : In d (p_datas p) ->
  (data_defects (names p) (dups (data_ids p)) d = [] <-> wf_data p d).
Proof.
  intros Hin. unfold data_defects, wf_data. destruct (d_added d).
  - rewrite app_nil_iff, !when_nil, name_in_iff.
    rewrite unique_iff by (unfold data_ids; apply in_map; exact Hin).
    split; [intros H _; exact H|intros H; exact (H eq_refl)].
  - split; [intros _ H; discriminate|reflexivity].
Qed.

Theorem validate_pkg_iff D Dd p :
  validate_pkg D Dd p = [] <->
  Forall (wf_obj_refs D Dd p) (p_objects p) /\ Forall (wf_obj_id p) (p_objects p) /\
  Forall (wf_member p) (p_members p) /\ Forall (wf_component p) (p_components p) /\ Forall (wf_data p) (p_datas p).
Proof.
  unfold validate_pkg. rewrite !app_nil_iff, members_iff, !flat_map_nil.
  pose proof (Forall_iff _ (wf_obj_refs D Dd p) (p_objects p) (fun o _ => obj_refs_iff D Dd p o)) as E1.
  pose proof (Forall_iff _ (wf_obj_id p) (p_objects p) (fun o Ho => obj_id_iff p o Ho)) as E2.
  pose proof (Forall_iff _ (wf_component p) (p_components p) (fun c _ => component_iff p c)) as E3.
  pose proof (Forall_iff _ (wf_data p) (p_datas p) (fun d Hd => data_iff p d Hd)) as E4.
  rewrite E1, E2, E3, E4.
  reflexivity.
Qed.

(* ---------- tables ---------- *)
Lemma forallb_iff {A} (f : A -> bool) l : forallb f l = true <-> Forall (fun x => f x = true) l.
Proof. rewrite forallb_forall, Forall_forall. reflexivity. Qed.

Lemma layout_sum_nonneg flags (l : list lent) :
  (0 <= fold_right (fun f acc => (if N.testbit flags (lbit f) then Z.of_nat (lwidth f) else 0) + acc) 0 l)%Z.
Proof. induction l as [|f l IH]; cbn [fold_right]; [lia|]. destruct (N.testbit flags (lbit f)); lia. Qed.

Lemma reclen_ge f : (12 <= reclen f)%Z.
Proof. unfold reclen. pose proof (layout_sum_nonneg f doc_layout). lia. Qed.

Lemma recs_ok_iff slen : forall l, recs_ok slen l = true <-> recs_wf slen l.
Proof.
  induction l as [|[o f] r IH]; cbn [recs_ok].
  - split; [intros _; split; constructor|reflexivity].
  - rewrite !andb_true_iff, IH, Z.eqb_eq, !Z.leb_le. unfold recs_wf. split.
    + intros [[[H1 H2] H3] [G1 G2]].
      assert (Hslen : (o + reclen f <= slen)%Z).
      { destruct r as [|[o' f'] r']; [exact H3|].
        pose proof (Forall_inv G1) as (_ & _ & B). cbn [fst snd] in B. pose proof (reclen_ge f'). lia. }
      split.
      * constructor; [cbn [fst snd]; auto|exact G1].
      * constructor; [|exact G2].
        destruct r as [|[o' f'] r']; [constructor|].
        constructor; [cbn [fst snd]; exact H3|].
        inversion G2 as [|a l' Ga Gl]; subst.
        eapply Forall_impl; [|exact Ga]. intros [o2 f2] Hb. cbn [fst snd] in *. pose proof (reclen_ge f'). lia.
    + intros [G1 G2]. pose proof (Forall_inv G1) as (B1 & B2 & B3). cbn [fst snd] in B1, B2, B3.
      inversion G2 as [|a l' Ga Gl]; subst.
      split; [split; [split|]|]; auto.
      * destruct r as [|[o' f'] r']; [exact B3|]. exact (Forall_inv Ga).
      * split; [exact (Forall_inv_tail G1)|exact Gl].
Qed.

Lemma increasing_iff : forall l, increasing l = true <-> StronglySorted N.lt l.
Proof.
  induction l as [|a r IH]; [split; [constructor|reflexivity]|].
  cbn [increasing]. destruct r as [|b r'].
  - split; [intros _; constructor; constructor|reflexivity].
  - rewrite andb_true_iff, N.ltb_lt, IH. split.
    + intros [H1 H2]. constructor; [exact H2|]. constructor; [exact H1|].
      apply StronglySorted_inv in H2 as [_ H2]. eapply Forall_impl; [|exact H2]. intros c Hc. cbn in Hc. lia.
    + intros H. apply StronglySorted_inv in H as [H1 H2]. split; [exact (Forall_inv H2)|exact H1].
Qed.

Lemma counts_from_iff : forall l k, counts_from k l = true <-> l = map N.of_nat (seq (N.to_nat k) (length l)).
Proof.
  induction l as [|x r IH]; intros k; cbn [counts_from length seq map]; [split; reflexivity|].
  rewrite andb_true_iff, N.eqb_eq, IH.
  replace (N.to_nat (k + 1)) with (S (N.to_nat k)) by lia. rewrite N2Nat.id. split.
  - intros [-> H]. f_equal. exact H.
  - intros H. injection H as H1 H2. split; assumption.
Qed.

Lemma cover_iff g n : counts_from 0 g && (N.of_nat (length g) =? n) = true <-> g = map N.of_nat (seq 0 (N.to_nat n)).
Proof.
  rewrite andb_true_iff, N.eqb_eq, counts_from_iff. change (N.to_nat 0) with 0%nat. split.
  - intros [H1 H2]. rewrite <- H2, Nat2N.id. exact H1.
  - intros H. assert (L : length g = N.to_nat n) by (rewrite H, map_length, seq_length; reflexivity).
    split; [rewrite L; exact H|rewrite L; apply N2Nat.id].
Qed.

Lemma row_iff t k ncols r : row_defects t k ncols r = [] <-> wf_row ncols r.
Proof.
  unfold row_defects, wf_row.
  rewrite !app_nil_iff, !when_nil, !N.eqb_eq, Nat.eqb_eq, recs_ok_iff, forallb_iff.
  assert (E : Forall (fun o => (-1 <=? o)%Z = true) (r_offs r) <-> Forall (fun o => (-1 <= o)%Z) (r_offs r)).
  { apply Forall_iff. intros o _. apply Z.leb_le. }
  rewrite E. reflexivity.
Qed.

Lemma tile_iff t ncols tl : tile_defects t ncols tl = [] <-> wf_tile ncols tl.
Proof.
  unfold tile_defects, wf_tile.
  rewrite !app_nil_iff, !when_nil, Nat.leb_le, N.eqb_eq, andb_true_iff, increasing_iff, forallb_iff, Forall_map, flat_map_nil.
  assert (E1 : Forall (fun r => (r_index r <? 256) = true) (t_rows tl) <-> Forall (fun r => r_index r < 256) (t_rows tl)).
  { apply Forall_iff. intros r _. apply N.ltb_lt. }
  pose proof (Forall_iff _ (wf_row ncols) (t_rows tl) (fun r _ => row_iff t (t_id tl) ncols r)) as E2.
  rewrite E1, E2. tauto.
Qed.

Theorem validate_tbl_iff t : validate_tbl t = [] <-> wf_table t.
Proof.
  unfold validate_tbl, wf_table.
  rewrite !app_nil_iff, !when_nil, N.eqb_eq, cover_iff, flat_map_nil.
  pose proof (Forall_iff _ (wf_tile (tb_ncols t)) (tb_tiles t) (fun tl _ => tile_iff (tb_id t) (tb_ncols t) tl)) as E.
  rewrite E. reflexivity.
Qed.

(* the checker decides the specification *)
Theorem validate_sound_complete_lemma D Dd p : validate D Dd p = [] <-> wf_package D Dd p.
Proof.
  unfold validate, wf_package. rewrite app_nil_iff, validate_pkg_iff, flat_map_nil.
  pose proof (Forall_iff _ wf_table (p_tables p) (fun t _ => validate_tbl_iff t)) as E. rewrite E. tauto.
Qed.

(* ---------- ObjectStore identifier allocation ---------- *)
Ltac Zify.zify_post_hook ::= Z.to_euclidean_division_equations.

Lemma ceil_million_ge m : m <= ceil_million m.
Proof. unfold ceil_million. lia. Qed.
Lemma ceil_million_lt m : ceil_million m < m + 1000000.
Proof. unfold ceil_million. lia. Qed.
Lemma ceil_million_round m : ceil_million m mod 1000000 = 0.
Proof. unfold ceil_million. apply N.mod_mul. discriminate. Qed.

Lemma list_max_ge l : Forall (fun k => k <= list_max l) l.
Proof.
  induction l as [|x l IH]; cbn [list_max fold_right]; constructor; [lia|].
  eapply Forall_impl; [|exact IH]. intros k Hk. cbn beta in Hk. fold (list_max l). lia.
Qed.

Lemma new_id_spec s i s' : new_message_id s = Ok (i, s') ->
  i = s_max s + 1 /\ s_max s' = i /\ s_last s' = i /\ s_keys s' = s_keys s.
Proof.
  unfold new_message_id. destruct (has_key PACKAGE_ID s); [|discriminate].
  intros H. injection H as <- <-. cbn. auto.
Qed.

Lemma create_spec s i s' : create_object s = Ok (i, s') ->
  i = s_max s + 1 /\ s_max s' = i /\ s_last s' = i /\ In i (s_keys s') /\ incl (s_keys s) (s_keys s').
Proof.
  unfold create_object. destruct (new_message_id s) as [[j s1]|e] eqn:E; cbn [bind]; [|discriminate].
  apply new_id_spec in E as (E1 & E2 & E3 & E4). intros H. injection H as <- <-. cbn [s_max s_last s_keys].
  repeat split; auto.
  - destruct (has_key j s1) eqn:K.
    + unfold has_key in K. apply existsb_exists in K as (x & Hx & Ex). apply N.eqb_eq in Ex. now subst.
    + apply in_or_app. right. left. reflexivity.
  - rewrite <- E4. destruct (has_key j s1); [apply incl_refl|apply incl_appl, incl_refl].
Qed.

Definition step_ok (s : store) (i : N) (s' : store) : Prop :=
  i = s_max s + 1 /\ s_max s' = i /\ s_last s' = i /\ incl (s_keys s) (s_keys s').

Lemma op_spec op s i s' :
  (match op with OpNewId => new_message_id s | OpCreate => create_object s end) = Ok (i, s') -> step_ok s i s'.
Proof.
  destruct op; intros H.
  - apply new_id_spec in H as (H1 & H2 & H3 & H4). unfold step_ok. rewrite H4. repeat split; auto. apply incl_refl.
  - apply create_spec in H as (H1 & H2 & H3 & _ & H5). unfold step_ok. auto.
Qed.

(* the identifiers handed out by any history are consecutive above _max_id, and last_object_identifier follows *)
Lemma run_ops_spec : forall ops s is s', run_ops ops s = Ok (is, s') ->
  is = map (fun k => s_max s + 1 + N.of_nat k) (seq 0 (length ops)) /\
  s_max s' = s_max s + N.of_nat (length ops) /\
  (ops <> [] -> s_last s' = s_max s') /\ (ops = [] -> s' = s) /\
  incl (s_keys s) (s_keys s').
Proof.
  induction ops as [|op r IH]; intros s is s' H; cbn [run_ops] in H.
  - injection H as <- <-. cbn [length seq map].
    split; [reflexivity|]. split; [cbn; lia|]. split; [intros C; now contradiction C|]. split; [reflexivity|apply incl_refl].
  - destruct (match op with OpNewId => new_message_id s | OpCreate => create_object s end) as [[i s1]|e] eqn:E;
      cbn [bind fst snd] in H; [|discriminate].
    destruct (run_ops r s1) as [[is1 s2]|e] eqn:E2; cbn [bind fst snd] in H; [|discriminate].
    injection H as <- <-.
    apply op_spec in E as (E1 & E3 & E4 & E5).
    destruct (IH _ _ _ E2) as (I1 & I2 & I3 & I4 & I5).
    cbn [length seq map]. repeat split.
    + f_equal; [lia|]. rewrite I1, <- seq_shift, map_map. apply map_ext. intros k. lia.
    + lia.
    + intros _. destruct r as [|op' r']; [rewrite (I4 eq_refl); lia|apply I3; discriminate].
    + discriminate.
    + eapply incl_tran; eassumption.
Qed.

Lemma seq_sorted (f : nat -> N) : (forall a b, (a < b)%nat -> f a < f b) ->
  forall n st, StronglySorted N.lt (map f (seq st n)).
Proof.
  intros Hf. induction n as [|n IH]; intros st; cbn [seq map]; constructor; [apply IH|].
  apply Forall_forall. intros x Hx. apply in_map_iff in Hx as (k & <- & Hk). apply in_seq in Hk. apply Hf. lia.
Qed.

Lemma sorted_lt_NoDup : forall l, StronglySorted N.lt l -> NoDup l.
Proof.
  induction l as [|x l IH]; intros H; constructor.
  - apply StronglySorted_inv in H as [_ H]. intros Hin.
    pose proof (proj1 (Forall_forall _ _) H x Hin) as Hlt. cbn in Hlt. lia.
  - apply IH. now apply StronglySorted_inv in H.
Qed.

Theorem fresh_ids_lemma keys last ops s0 is s :
  store_init keys last = Ok s0 -> run_ops ops s0 = Ok (is, s) ->
  NoDup is /\ StronglySorted N.lt is /\
  Forall (fun i => ~ In i keys /\ list_max keys < i /\ i <= s_max s) is /\
  (is <> [] -> s_last s = s_max s) /\ (is = [] -> s_last s = last) /\
  s_max s = ceil_million (list_max keys) + N.of_nat (length is) /\ incl keys (s_keys s).
Proof.
  intros H0 H. unfold store_init in H0.
  assert (Hs0 : s0 = {| s_keys := keys; s_max := ceil_million (list_max keys); s_last := last |})
    by (destruct keys; [discriminate|injection H0 as <-; reflexivity]).
  subst s0. clear H0.
  apply run_ops_spec in H as (I1 & I2 & I3 & I4 & I5). cbn [s_max s_keys s_last] in *.
  assert (Hs : StronglySorted N.lt is).
  { rewrite I1. apply seq_sorted. intros a b Hab. lia. }
  assert (Hlen : length is = length ops) by (rewrite I1, map_length, seq_length; reflexivity).
  split; [now apply sorted_lt_NoDup|]. split; [exact Hs|]. split.
  - rewrite I1. apply Forall_forall. intros i Hi. apply in_map_iff in Hi as (k & <- & Hk). apply in_seq in Hk.
    pose proof (ceil_million_ge (list_max keys)) as Hc.
    assert (Hgt : list_max keys < ceil_million (list_max keys) + 1 + N.of_nat k) by lia.
    split; [|split; [exact Hgt|lia]].
    intros Hin. pose proof (proj1 (Forall_forall _ _) (list_max_ge keys) _ Hin) as Hle. cbn beta in Hle. lia.
  - split; [|split; [|split; [rewrite Hlen; exact I2|exact I5]]].
    + intros Hne. apply I3. intros ->. apply Hne. rewrite I1. reflexivity.
    + intros He. assert (ops = []) as -> by (destruct ops; [reflexivity|rewrite He in Hlen; discriminate]).
      rewrite (I4 eq_refl). reflexivity.
Qed.

(* ---------- allowing more references (the source's unresolved ones, a known finding's) only weakens ---------- *)
Lemma resolves_weaken l D D' o r : incl D D' -> resolves_in l D o r -> resolves_in l D' o r.
Proof. intros Hi [H|H]; [left; exact H|right; apply Hi, H]. Qed.

Theorem wf_weaken_lemma D D' Dd Dd' p : incl D D' -> incl Dd Dd' -> wf_package D Dd p -> wf_package D' Dd' p.
Proof.
  intros H1 H2 (W1 & W). split; [|exact W].
  eapply Forall_impl; [|exact W1]. intros o Ho Ht. destruct (Ho Ht) as (A & B & C & E).
  repeat split; (eapply Forall_impl; [|eassumption]); intros r Hr; eapply resolves_weaken; eassumption.
Qed.
