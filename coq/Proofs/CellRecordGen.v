(* Translator tie: the flag chains read from the source AST on this run are the tables of the model. *)
From Coq Require Import NArith List.
From NP Require Import Gen.GenCellRecord Model.CellRecord.
Lemma gen_cell_chains :
  GenCellRecord.decode_chain = CellRecord.decode_chain_table /\
  GenCellRecord.encode_chain = CellRecord.encode_chain_table.
Proof. split; vm_compute; reflexivity. Qed.
