(* Translator tie for C14: the DATETIME_FIELD_MAP of the tree under check (keys in order, strftime strings,
   lambda sources, helper bodies) is the one Model/DateFormat.v mirrors, and the C-locale names CPython's
   strftime prints are the model's tables. *)
From Coq Require Import NArith List.
From NP Require Import Gen.GenC14 Model.DateFormat.
Lemma gen_c14_field_map : GenC14.field_map = DateFormat.modelled_field_map.
Proof. vm_compute. reflexivity. Qed.
Lemma gen_c14_helpers : GenC14.helpers = DateFormat.modelled_helpers.
Proof. vm_compute. reflexivity. Qed.
Lemma gen_c14_strftime_names :
  GenC14.cpython_day_names = DateFormat.day_names /\ GenC14.cpython_day_abbrs = DateFormat.day_abbrs /\
  GenC14.cpython_month_names = DateFormat.month_names /\ GenC14.cpython_month_abbrs = DateFormat.month_abbrs /\
  GenC14.cpython_ampm = DateFormat.ampm_names.
Proof. vm_compute. repeat split; reflexivity. Qed.
