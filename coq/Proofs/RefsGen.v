(* Tie between the regenerated tables (Gen/GenRefs.v, Gen/GenConsts.v) and Model/Refs.v. *)
From Coq Require Import ZArith NArith List.
From NP Require Import Gen.GenConsts Gen.GenRefs Model.PyBase Model.Refs.
Import ListNotations.

Lemma gen_refs_constants_lemma :
  GenRefs.sentinel_args = [MAX_ROW; MAX_ROW; MAX_COL; MAX_COL] /\
  GenRefs.open_tests = [MAX_ROW; MAX_ROW; MAX_COL; MAX_COL] /\
  map fst GenConsts.OPERATOR_PRECEDENCE = map (fun c => [c]) op_chars.
Proof. repeat split. Qed.
