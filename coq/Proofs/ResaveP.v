(* Re-saving: what the library reads from a record is what it writes back (C02, record level). *)
From Coq Require Import ZArith NArith List Bool Lia.
From NP Require Import Model.PyBase Model.CellRecord Proofs.CellRecordP.
Import ListNotations.
Open Scope N_scope.

(* the cell the library holds after reading a record: the reference ids come from the decoded view *)
Definition cell_from (k : ckind) (payload : list N) (sid : bool) (d : decoded) : cell :=
  {| c_kind := k; c_payload := payload; c_string_id_set := sid;
     c_rich := get_id d 4; c_cell_style := get_id d 5; c_text_style := get_id d 6;
     c_formula := get_id d 9; c_control := get_id d 10; c_suggest := get_id d 12;
     c_num_fmt := get_id d 13; c_cur_fmt := get_id d 14; c_date_fmt := get_id d 15;
     c_dur_fmt := get_id d 16; c_text_fmt := get_id d 17; c_bool_fmt := get_id d 18 |}.

Theorem resave_cell_fixpoint c d : wf_cell c = true -> decode (encode c) = Ok d ->
  cell_from (c_kind c) (c_payload c) (c_string_id_set c) d = c.
Proof.
  intros Hwf Hd. destruct (record_fields_lemma c d Hwf Hd) as
    (_ & _ & H4 & H5 & H6 & H9 & H10 & H12 & H13 & H14 & H15 & H16 & H17 & H18 & _).
  unfold cell_from. rewrite H4, H5, H6, H9, H10, H12, H13, H14, H15, H16, H17, H18.
  destruct c; reflexivity.
Qed.

(* a second save/open cycle changes nothing further: the re-encoded record is byte-identical *)
Theorem resave_bytes_stable c d : wf_cell c = true -> decode (encode c) = Ok d ->
  encode (cell_from (c_kind c) (c_payload c) (c_string_id_set c) d) = encode c.
Proof. intros Hwf Hd. now rewrite (resave_cell_fixpoint c d Hwf Hd). Qed.

(* the fields the encoder never re-emits are exactly the fields the decoder does not interpret *)
Definition uninterpreted_bits : list N := map lbit (filter (fun f => negb (lread f)) doc_layout).
Definition interpreted_bits : list N := map lbit (filter lread doc_layout).
Theorem uninterpreted_dropped_only_lemma :
  uninterpreted_bits = [7; 8; 11; 19; 20] /\
  interpreted_bits = [0; 1; 2; 3] ++ map N.log2 encode_chain_table.
Proof. split; vm_compute; reflexivity. Qed.
