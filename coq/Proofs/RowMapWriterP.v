(* C06 / C01 bridge: the tiles the library writes (TileCodec.encode_table: 256-row tiles, tileid = position,
   tile_row_index = row - 256 * tileid, a rowInfo for every row) declare the row indexes 0, 1, 2, ... in file order,
   so the repaired reader (rows placed by declared index) returns exactly the concatenation C01's round trip is
   stated on - for any number of rows. *)
From Coq Require Import ZArith NArith List Bool Lia.
From NP Require Import Model.PyBase Model.Assoc Model.TileCodec Model.RowMap Proofs.AssocP Proofs.RowMapP.
Import ListNotations.

Definition srow_of (ri : rowinfo) : srow :=
  {| s_index := N.of_nat (tile_row_index ri); s_wide := true; s_offsets := r_offsets ri; s_storage := r_storage ri |}.
Fixpoint tiles_from (i : nat) (ts : list (list rowinfo)) : list tile :=
  match ts with [] => [] | t :: r => {| t_id := N.of_nat i; t_rows := map srow_of t |} :: tiles_from (S i) r end.
Definition written_table (nr : N) (nc : nat) (h : list (list N)) (ts : list (list rowinfo)) : table :=
  {| nrows := nr; ncols := nc; tile_size := 256; hdrs := h; tiles := tiles_from 0 ts |}.

Definition TS : nat := N.to_nat 256.

(* declared indexes of tiles whose rowInfos are numbered 0.. *)
Fixpoint keys_from (i : nat) (shape : list nat) : list nat :=
  match shape with [] => [] | k :: r => seq (i * TS) k ++ keys_from (S i) r end.

Lemma encode_rows_idx : forall rows idx ris, encode_rows idx rows = Ok ris ->
  map tile_row_index ris = seq idx (length rows).
Proof.
  induction rows as [|cs r IH]; intros idx ris H; cbn [encode_rows] in H.
  - injection H as <-. reflexivity.
  - destruct (pack_row cs) as [p|]; cbn [bind] in H; [|discriminate].
    destruct (encode_rows (S idx) r) as [rest|] eqn:E; cbn [bind] in H; [|discriminate].
    injection H as <-. cbn [map tile_row_index length seq]. f_equal. now apply IH.
Qed.

Lemma encode_tiles_shape : forall ts out, encode_tiles ts = Ok out ->
  Forall2 (fun t o => map tile_row_index o = seq 0 (length t)) ts out.
Proof.
  induction ts as [|t r IH]; intros out H; cbn [encode_tiles] in H.
  - injection H as <-. constructor.
  - destruct (encode_rows 0 t) as [a|] eqn:Ea; cbn [bind] in H; [|discriminate].
    destruct (encode_tiles r) as [b|] eqn:Eb; cbn [bind] in H; [|discriminate].
    injection H as <-. constructor; [now apply encode_rows_idx|now apply IH].
Qed.

Lemma stored_keys_from : forall nr nc h (ts : list (list cells)) out i, Forall2 (fun t o => map tile_row_index o = seq 0 (length t)) ts out ->
  map fst (concat (map (fun tl => map (fun r => (declared (written_table nr nc h []) tl r, decode_srow nc r)) (t_rows tl)) (tiles_from i out))) =
  map N.of_nat (keys_from i (map (@length cells) ts)).
Proof.
  intros nr nc h ts out i H. revert i. induction H as [|t o ts' out' Ho _ IH]; intros i; [reflexivity|].
  cbn [tiles_from map concat keys_from]. rewrite !map_app, IH. f_equal.
  cbn [t_rows t_id]. rewrite !map_map. unfold declared. cbn [t_id fst s_index srow_of].
  change (eff_tile_size (written_table nr nc h [])) with 256%N.
  transitivity (map (fun x => (N.of_nat i * 256 + N.of_nat x)%N) (map tile_row_index o)); [now rewrite map_map|].
  rewrite Ho. clear. unfold TS. generalize (length t) as k. intros k.
  rewrite <- (Nat.add_0_r (i * N.to_nat 256)) at 1. generalize 0%nat as s. induction k as [|k IH]; intros s; [reflexivity|].
  cbn [seq map]. f_equal; [lia|]. rewrite IH. f_equal. f_equal. lia.
Qed.

Lemma chunks_nil_keys : forall f i, keys_from i (map (@length cells) (chunks f [])) = [].
Proof.
  induction f as [|f IH]; intros i; [reflexivity|].
  unfold chunks; fold chunks. rewrite firstn_nil, skipn_nil. cbn [map length keys_from seq app]. apply IH.
Qed.

Lemma chunks_keys : forall f (rows : list cells) i, (length rows < f * TS)%nat ->
  keys_from i (map (@length cells) (chunks f rows)) = seq (i * TS) (length rows).
Proof.
  induction f as [|f IH]; intros rows i Hlt; [lia|].
  unfold chunks; fold chunks. change 256%nat with TS in *. cbn [map keys_from].
  destruct (Nat.le_gt_cases TS (length rows)) as [Hge|Hsmall].
  - rewrite firstn_length_le by exact Hge. rewrite IH by (rewrite skipn_length; lia).
    rewrite skipn_length. replace (S i * TS)%nat with (i * TS + TS)%nat by lia.
    rewrite <- seq_app. f_equal. lia.
  - rewrite firstn_all2 by lia. rewrite skipn_all2 by lia. now rewrite chunks_nil_keys, app_nil_r.
Qed.

Lemma storage_buffers_written : forall nc out i,
  concat (map (fun tl => map (fun r => decode_srow nc r) (t_rows tl)) (tiles_from i out)) = decode_table nc out.
Proof.
  intros nc out. unfold decode_table. induction out as [|o r IH]; intros i; [reflexivity|].
  cbn [tiles_from map concat t_rows]. rewrite IH. f_equal. now rewrite map_map.
Qed.

Theorem written_tiles_sequential_lemma : forall rows ts nr nc h, encode_table rows = Ok ts ->
  map fst (stored_rows (written_table nr nc h ts)) = map N.of_nat (seq 0 (length rows)) /\
  storage_buffers (written_table nr nc h ts) = decode_table nc ts.
Proof.
  intros rows ts nr nc h H. unfold encode_table, tiles_of in H. pose proof (encode_tiles_shape _ _ H) as Hs. split.
  - unfold stored_rows. cbn [tiles written_table ncols].
    change (fun tl : tile => map (fun r : srow => (declared (written_table nr nc h ts) tl r, decode_srow nc r)) (t_rows tl))
      with (fun tl : tile => map (fun r : srow => (declared (written_table nr nc h []) tl r, decode_srow nc r)) (t_rows tl)).
    rewrite (stored_keys_from nr nc h _ _ 0 Hs). f_equal.
    rewrite chunks_keys; [reflexivity|]. change 256%nat with TS.
    pose proof (Nat.div_mod (length rows) TS ltac:(unfold TS; lia)) as Hd.
    pose proof (Nat.mod_upper_bound (length rows) TS ltac:(unfold TS; lia)). lia.
  - unfold storage_buffers, stored_rows. cbn [tiles written_table ncols].
    rewrite <- (storage_buffers_written nc ts 0). rewrite concat_map. f_equal. rewrite !map_map.
    apply map_ext. intros tl. now rewrite map_map.
Qed.

(* reading a written table by declared index = C01's positional reading, for every row and column *)
Theorem written_table_read_lemma : forall rows ts nc h, encode_table rows = Ok ts ->
  forall r col, (r < length rows)%nat ->
  storage_buffer (written_table (N.of_nat (length rows)) nc h ts) (N.of_nat r) col = Ok (cell_at (nth_error (decode_table nc ts) r) col).
Proof.
  intros rows ts nc h H r col Hr.
  destruct (written_tiles_sequential_lemma rows ts (N.of_nat (length rows)) nc h H) as [Hk Hb].
  rewrite (row_map_sequential_lemma _ _ Hk) by (cbn [nrows written_table]; lia). now rewrite Hb.
Qed.
