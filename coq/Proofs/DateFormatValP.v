(* The validator of Formatting.__post_init__ against the format scanner (Model/DateFormat.v):
   an accepted format never makes _decode_date_format reach an unsupported field. *)
From Coq Require Import ZArith NArith List Bool String Lia.
From NP Require Import Model.PyBase Model.A1 Model.DateFormat Proofs.A1P Proofs.DateFormatP.
Import ListNotations.
Open Scope Z_scope.

(* ------------------------------------------------------------------ *)
(* the validator: an accepted format never reaches an unsupported field *)
(* ------------------------------------------------------------------ *)
Fixpoint fields_of (l : list item) : list str :=
  match l with [] => [] | Field f :: r => f :: fields_of r | Out _ :: r => fields_of r end.

Lemma fields_of_app a b : fields_of (a ++ b) = fields_of a ++ fields_of b.
Proof. induction a as [|[c|f] a IH]; cbn [app fields_of]; now rewrite ?IH. Qed.

Definition cur_runs (cur : str) : list str := match cur with [] => [] | _ => [cur] end.

Lemma letter_runs_alpha c r cur : is_alpha c = true -> letter_runs (c :: r) cur = letter_runs r (cur ++ [c]).
Proof. intros H. cbn [letter_runs]. now rewrite H. Qed.

Lemma letter_runs_nonalpha c r cur : is_alpha c = false -> letter_runs (c :: r) cur = cur_runs cur ++ letter_runs r [].
Proof. intros H. cbn [letter_runs]. rewrite H. destruct cur; reflexivity. Qed.

Lemma letter_runs_nil cur : letter_runs [] cur = cur_runs cur.
Proof. destruct cur; reflexivity. Qed.

Lemma strip_quoted_nil f : strip_quoted f [] = [].
Proof. destruct f; reflexivity. Qed.

Lemma strip_quoted_cons f c r : strip_quoted (S f) (c :: r) =
  if (c =? c_quote)%N then
    match until_quote r with Some after => 32%N :: strip_quoted f after | None => c :: strip_quoted f r end
  else c :: strip_quoted f r.
Proof. reflexivity. Qed.

Lemma until_quote_length : forall r after, until_quote r = Some after -> (List.length after < List.length r)%nat.
Proof.
  induction r as [|c r IH]; intros after H; [discriminate|]. cbn [until_quote] in H.
  destruct (c =? c_quote)%N.
  - inversion H; subst. cbn. lia.
  - apply IH in H. cbn. lia.
Qed.

Lemma until_quote_none_scan : forall r, until_quote r = None -> fields_of (scan r true false []) = [].
Proof.
  induction r as [|c r IH]; intros H; [reflexivity|]. cbn [until_quote] in H.
  destruct (c =? c_quote)%N eqn:E; [discriminate|].
  rewrite scan_cons, E. cbn [fields_of]. now apply IH.
Qed.

Lemma until_quote_cons_nonquote c r : (c =? c_quote)%N = false -> until_quote (c :: r) = until_quote r.
Proof. intros H. cbn [until_quote]. now rewrite H. Qed.

Lemma quote_not_alpha : is_alpha c_quote = false. Proof. reflexivity. Qed.
Lemma space_not_alpha : is_alpha 32%N = false. Proof. reflexivity. Qed.

Lemma fields_flush inf fld : fields_of (flush inf fld) = if inf then [fld] else [].
Proof. destruct inf; reflexivity. Qed.

Lemma cur_runs_state (inf : bool) fld : (inf = true -> fld <> []) ->
  cur_runs (if inf then fld else []) = if inf then [fld] else [].
Proof. intros H. destruct inf; [|reflexivity]. destruct fld; [now specialize (H eq_refl)|reflexivity]. Qed.

Lemma validator_sim : forall n s, (List.length s <= n)%nat ->
  (forall fuel inf fld (P : str -> Prop), (List.length s <= fuel)%nat -> (inf = true -> fld <> []) ->
     Forall P (letter_runs (strip_quoted fuel s) (if inf then fld else [])) ->
     Forall P (fields_of (scan s false inf fld)))
  /\
  (forall fuel (P : str -> Prop), (List.length s < fuel)%nat ->
     Forall P (letter_runs (strip_quoted fuel (c_quote :: s)) []) ->
     Forall P (fields_of (scan s true false []))).
Proof.
  induction n as [|n IH]; intros s Hlen.
  - destruct s; [|cbn in Hlen; lia]. split.
    + intros fuel inf fld P _ Hst H. rewrite strip_quoted_nil, letter_runs_nil, cur_runs_state in H by assumption.
      rewrite scan_nil, fields_flush. exact H.
    + intros. constructor.
  - destruct s as [|c r].
    { split.
      + intros fuel inf fld P _ Hst H. rewrite strip_quoted_nil, letter_runs_nil, cur_runs_state in H by assumption.
        rewrite scan_nil, fields_flush. exact H.
      + intros. constructor. }
    cbn [List.length] in Hlen. assert (List.length r <= n)%nat as Hr by lia.
    destruct (IH r Hr) as [IHA IHB].
    split.
    + (* outside a string *)
      intros fuel inf fld P Hf Hst H. destruct fuel as [|f]; [cbn in Hf; lia|]. cbn [List.length] in Hf.
      rewrite strip_quoted_cons in H. rewrite scan_cons.
      destruct (c =? c_quote)%N eqn:Eq.
      * apply N.eqb_eq in Eq. subst c.
        destruct r as [|c2 r2].
        { (* trailing quote: break *)
          cbn [until_quote] in H. rewrite strip_quoted_nil in H.
          rewrite letter_runs_nonalpha in H by reflexivity. change (letter_runs [] []) with (@nil (list N)) in H.
          rewrite app_nil_r, cur_runs_state in H by assumption. rewrite fields_flush. exact H. }
        destruct (c2 =? c_quote)%N eqn:E2.
        { (* '' outside a string *)
          apply N.eqb_eq in E2. subst c2. cbn [until_quote] in H. rewrite N.eqb_refl in H.
          rewrite letter_runs_nonalpha, cur_runs_state in H by (try assumption; reflexivity).
          apply Forall_app in H as [H1 H2].
          rewrite fields_of_app, fields_flush. cbn [fields_of]. apply Forall_app. split; [exact H1|].
          assert (List.length r2 <= n)%nat as Hr2 by (cbn in Hr; lia).
          destruct (IH r2 Hr2) as [IHA2 _].
          apply (IHA2 f false [] P); [cbn in Hf; lia|discriminate|exact H2]. }
        (* opening quote *)
        rewrite fields_of_app, fields_flush. apply Forall_app.
        assert (Forall P (if inf then [fld] else []) /\ Forall P (letter_runs (strip_quoted (S f) (c_quote :: c2 :: r2)) [])) as [H1 H2].
        { rewrite strip_quoted_cons, N.eqb_refl.
          destruct (until_quote (c2 :: r2)) as [after|].
          - rewrite letter_runs_nonalpha, cur_runs_state in H by (try assumption; reflexivity).
            apply Forall_app in H as [H1 H2]. split; [exact H1|].
            rewrite letter_runs_nonalpha by reflexivity. exact H2.
          - rewrite letter_runs_nonalpha, cur_runs_state in H by (try assumption; reflexivity).
            apply Forall_app in H as [H1 H2]. split; [exact H1|].
            rewrite letter_runs_nonalpha by reflexivity. exact H2. }
        split; [exact H1|]. apply (IHB (S f) P); [lia|exact H2].
      * destruct (is_alpha c) eqn:Ea; cbn [negb].
        { (* a letter *)
          rewrite letter_runs_alpha in H by assumption.
          destruct inf.
          - apply (IHA f true (fld ++ [c]) P); [lia|intros _ E; now apply app_eq_nil in E as [_ E]|exact H].
          - apply (IHA f true [c] P); [lia|discriminate|exact H]. }
        (* other character *)
        rewrite letter_runs_nonalpha, cur_runs_state in H by assumption.
        apply Forall_app in H as [H1 H2].
        rewrite fields_of_app, fields_flush. cbn [fields_of]. apply Forall_app. split; [exact H1|].
        apply (IHA f false [] P); [lia|discriminate|exact H2].
    + (* inside a string *)
      intros fuel P Hf H. cbn [List.length] in Hf.
      destruct fuel as [|[|f]]; try lia.
      rewrite scan_cons.
      destruct (c =? c_quote)%N eqn:Eq.
      * apply N.eqb_eq in Eq. subst c.
        destruct r as [|c2 r2]; [constructor|].
        rewrite strip_quoted_cons, N.eqb_refl in H. cbn [until_quote] in H. rewrite N.eqb_refl in H.
        rewrite letter_runs_nonalpha in H by reflexivity. cbn [cur_runs app] in H.
        destruct (c2 =? c_quote)%N eqn:E2.
        { (* escaped quote inside the string *)
          apply N.eqb_eq in E2. subst c2. cbn [fields_of app flush].
          assert (List.length r2 <= n)%nat as Hr2 by (cbn in Hr; lia).
          destruct (IH r2 Hr2) as [_ IHB2].
          apply (IHB2 (S f) P); [cbn in Hf; lia|exact H]. }
        (* closing quote *)
        apply (IHA (S f) false [] P); [cbn in Hf |- *; lia|discriminate|exact H].
      * cbn [fields_of].
        destruct (until_quote r) as [after|] eqn:U.
        -- apply (IHB (S (S f)) P); [lia|].
           rewrite strip_quoted_cons, N.eqb_refl in H |- *.
           rewrite until_quote_cons_nonquote in H by assumption. rewrite U in H |- *. exact H.
        -- rewrite until_quote_none_scan by assumption. constructor.
Qed.

Definition known (f : str) : Prop := lookup f <> None.

Lemma unsupported_fields l : Forall known (fields_of l) -> unsupported l = [].
Proof.
  induction l as [|[c|f] l IH]; intros H; [reflexivity| |].
  - cbn [fields_of] in H. unfold unsupported in *. cbn [flat_map app]. now apply IH.
  - cbn [fields_of] in H. pose proof (Forall_inv H) as Hk. pose proof (Forall_inv_tail H) as Hl.
    unfold unsupported in *. cbn [flat_map]. unfold known in Hk. destruct (lookup f); [|contradiction].
    cbn [app]. now apply IH.
Qed.

Lemma validated_formats_render_lemma fmt : validate_format fmt = true ->
  unsupported (scan fmt false false []) = [].
Proof.
  unfold validate_format. intros H. apply unsupported_fields.
  destruct (validator_sim (List.length fmt) fmt (le_n _)) as [A _].
  apply (A (List.length fmt) false [] known (le_n _)); [discriminate|].
  rewrite forallb_forall in H. apply Forall_forall. intros f Hf. specialize (H f Hf).
  unfold known. destruct (lookup f); [discriminate|discriminate].
Qed.
