(* SciFracP: scientific notation and fraction formats (C13 scientific_display, fraction_display). *)
From Coq Require Import ZArith NArith List Bool Lia.
From NP Require Import Model.PyBase Model.Digits Model.C13Tables Model.NumFormat
  Proofs.DigitsP Proofs.B64P Proofs.NumFormatP.
Import ListNotations.
Open Scope Z_scope.
Ltac Zify.zify_post_hook ::= Z.to_euclidean_division_equations.

(* ---------- small reader lemmas ---------- *)
Lemma strip_minus_digit s : (match s with c :: _ => is_digit c = true | [] => False end) ->
  strip_minus s = (false, s).
Proof.
  destruct s as [|c r]; [tauto|]. intros H. cbn [strip_minus].
  destruct (N.eqb_spec c c_min) as [->|]; [discriminate H|reflexivity].
Qed.

Lemma strip_minus_minus s : strip_minus (c_min :: s) = (true, s).
Proof. reflexivity. Qed.

Lemma zstr_head n : match zstr n with c :: _ => is_digit c = true | [] => False end.
Proof.
  pose proof (zstr_digits n) as H. pose proof (zstr_nonempty n) as Hne.
  destruct (zstr n) as [|c r]; [congruence|]. exact (Forall_inv H).
Qed.

Lemma zeros_digits k : Forall (fun c => is_digit c = true) (zeros k).
Proof. unfold zeros. apply Forall_forall. intros c Hc. apply repeat_spec in Hc. subst. reflexivity. Qed.

Lemma zeros_val b k : bval b (zeros k) = 0.
Proof. apply repeat_zero_val. Qed.

Lemma zeros_len k : 0 <= k -> zlen (zeros k) = k.
Proof. intros. unfold zeros, zlen. rewrite repeat_length. lia. Qed.

(* exponent text: sign and digits *)
Lemma exp_str_shape x : exists sg ds, exp_str x = sg :: ds /\ sg = (if x <? 0 then c_min else c_plus) /\
  Forall (fun c => is_digit c = true) ds /\ bval 10 ds = Z.abs x.
Proof.
  unfold exp_str. eexists. eexists. split; [reflexivity|]. split; [reflexivity|].
  destruct (Z.abs x <? 10).
  - split; [constructor; [reflexivity|apply zstr_digits]|].
    change (48%N :: zstr (Z.abs x)) with ([48%N] ++ zstr (Z.abs x)). rewrite bval_app, zstr_val by lia. cbn. lia.
  - split; [apply zstr_digits|apply zstr_val; lia].
Qed.

Lemma exp_str_value x :
  (match exp_str x with
   | c :: xd => if (c =? c_min)%N then - bval 10 xd else if (c =? c_plus)%N then bval 10 xd else bval 10 (exp_str x)
   | [] => 0
   end) = x.
Proof.
  destruct (exp_str_shape x) as (sg & ds & E & Hsg & _ & Hv). rewrite E. subst sg.
  destruct (Z.ltb_spec x 0); cbn; lia.
Qed.

Lemma exp_str_noE x : Forall (fun c => (c =? c_E)%N = false) (exp_str x).
Proof.
  destruct (exp_str_shape x) as (sg & ds & E & Hsg & Hd & _). rewrite E. constructor.
  - subst sg. destruct (x <? 0); reflexivity.
  - apply Forall_digits_not; [reflexivity|assumption].
Qed.

(* the mantissa text q with p decimals *)
Definition mant_text (q p : Z) : list N :=
  zstr (q / 10 ^ p) ++ (if 0 <? p then c_dot :: digs (Z.to_nat p) q else []).

Lemma mant_text_noE q p : Forall (fun c => (c =? c_E)%N = false) (mant_text q p).
Proof.
  unfold mant_text. apply Forall_app; split.
  - apply Forall_digits_not; [reflexivity|apply zstr_digits].
  - destruct (0 <? p); [|constructor]. constructor; [reflexivity|].
    apply Forall_digits_not; [reflexivity|apply bdigs_digits].
Qed.

Lemma mant_text_read q p : 0 <= q -> 0 <= p ->
  (match split_on c_dot (mant_text q p) [] with
   | [ip] => Some (bval 10 ip, 0)
   | [ip; fp] => Some (bval 10 (ip ++ fp), zlen fp)
   | _ => None
   end) = Some (q, p).
Proof.
  intros Hq Hp. unfold mant_text. pose proof (zstr_digits (q / 10 ^ p)) as Hd.
  destruct (Z.ltb_spec 0 p).
  - rewrite split_on_one by (apply Forall_digits_not; [reflexivity|exact Hd]).
    rewrite split_on_none by (apply Forall_digits_not; [reflexivity|apply bdigs_digits]).
    cbn [rev app]. rewrite plain_digits_value by lia. unfold zlen. rewrite digs_length, Z2Nat.id by lia. reflexivity.
  - assert (p = 0) by lia. subst p. rewrite app_nil_r.
    rewrite split_on_none by (apply Forall_digits_not; [reflexivity|exact Hd]).
    cbn [rev app]. rewrite zstr_val by (apply Z.div_pos; [lia|apply pow_pos_b; lia]).
    rewrite Z.pow_0_r, Z.div_1_r. reflexivity.
Qed.

Lemma readback_sci_text (neg : bool) q p x : 0 <= q -> 0 <= p ->
  readback_scientific ((if neg then [c_min] else []) ++ mant_text q p ++ c_E :: exp_str x) = Some (neg, q, p, x).
Proof.
  intros Hq Hp. unfold readback_scientific.
  assert (Hs : strip_minus ((if neg then [c_min] else []) ++ mant_text q p ++ c_E :: exp_str x)
               = (neg, mant_text q p ++ c_E :: exp_str x)).
  { destruct neg; [reflexivity|]. cbn [app]. apply strip_minus_digit.
    unfold mant_text. pose proof (zstr_head (q / 10 ^ p)) as Hh.
    destruct (zstr (q / 10 ^ p)) as [|c r]; [tauto|]. exact Hh. }
  rewrite Hs. rewrite split_on_one by apply mant_text_noE.
  rewrite split_on_none by apply exp_str_noE. cbn [rev app].
  rewrite exp_str_value.
  pose proof (mant_text_read q p Hq Hp) as Hm.
  destruct (split_on c_dot (mant_text q p) []) as [|ip [|fp [|y r]]]; try discriminate; inversion Hm; subst; reflexivity.
Qed.

(* ---------- scientific ---------- *)
Lemma sci_str_zero vn vd p : vn <= 0 -> 0 <= p ->
  sci_str vn vd p = mant_text 0 p ++ c_E :: exp_str 0.
Proof.
  intros Hz Hp. unfold sci_str, mant_text. destruct (Z.leb_spec vn 0); [|lia].
  rewrite Z.div_0_l by (pose proof (pow_pos_b 10 p ltac:(lia) Hp); lia).
  change (zstr 0) with [48%N]. cbn [app]. f_equal. f_equal.
  destruct (0 <? p); [|reflexivity]. f_equal. unfold zeros. symmetry. apply digs_zero; [lia|apply Z.mod_0_l].
  pose proof (pow_pos_b 10 (Z.of_nat (Z.to_nat p)) ltac:(lia) ltac:(lia)). lia.
Qed.

Lemma scientific_display_lemma d p : 0 <= dmant d -> 0 <= p ->
  let m1 := fst (round_sig SIG (dmant d) (dexp d)) in
  let e1 := snd (round_sig SIG (dmant d) (dexp d)) in
  let vn := fst (value_rat false m1 e1) in
  let vd := snd (value_rat false m1 e1) in
  if vn <=? 0 then readback_scientific (format_scientific d p) = Some (dneg d, 0, p, 0)
  else exists q e,
    round_float 10 (p + 1) vn vd = (q, e) /\
    readback_scientific (format_scientific d p) = Some (dneg d, q, p, e + p) /\
    10 ^ p <= q < 10 ^ (p + 1) /\ nearest_scaled 10 vn vd q e.
Proof.
  intros Hm Hp. cbv zeta. unfold format_scientific.
  destruct (round_sig SIG (dmant d) (dexp d)) as [m1 e1]. cbn [fst snd].
  pose proof (value_rat_pos false m1 e1) as Hv.
  destruct (value_rat false m1 e1) as [vn vd]. cbn [fst snd]. destruct Hv as [Hvn Hvd].
  destruct (Z.leb_spec vn 0).
  - rewrite sci_str_zero by lia. apply readback_sci_text; lia.
  - pose proof (round_float_spec 10 (p + 1) vn vd ltac:(lia) ltac:(lia) ltac:(lia) Hvd) as Hs.
    unfold sci_str. destruct (Z.leb_spec vn 0); [lia|].
    destruct (round_float 10 (p + 1) vn vd) as [q e]. destruct Hs as [Hq Herr].
    replace (p + 1 - 1) with p in Hq by lia.
    exists q, e. split; [reflexivity|]. split; [|split; [exact Hq|exact Herr]].
    assert (0 <= q) by (pose proof (pow_pos_b 10 p ltac:(lia) Hp); lia).
    replace ((if dneg d then [c_min] else []) ++
             zstr (q / 10 ^ p) ++ (if 0 <? p then c_dot :: digs (Z.to_nat p) q else []) ++ c_E :: exp_str (e + p))
      with ((if dneg d then [c_min] else []) ++ mant_text q p ++ c_E :: exp_str (e + p))
      by (unfold mant_text; rewrite <- !app_assoc; reflexivity).
    apply readback_sci_text; lia.
Qed.

(* ---------- fractions: reading the text ---------- *)
Lemma sstr_nonneg n : 0 <= n -> sstr n = zstr n.
Proof. intros. unfold sstr. destruct (Z.ltb_spec n 0); [lia|reflexivity]. Qed.

Lemma digits_no c s : is_digit c = false -> Forall (fun x => is_digit x = true) s -> Forall (fun x => (x =? c)%N = false) s.
Proof. intros. apply Forall_digits_not; assumption. Qed.

Lemma readback_fraction_whole w : 0 <= w -> readback_fraction (zstr w) = Some (false, w, 0, 1).
Proof.
  intros Hw. unfold readback_fraction. rewrite strip_minus_digit by apply zstr_head.
  rewrite split_on_none by (apply digits_no; [reflexivity|apply zstr_digits]). cbn [rev app].
  rewrite split_on_none by (apply digits_no; [reflexivity|apply zstr_digits]). cbn [rev app].
  rewrite zstr_val by assumption. reflexivity.
Qed.

Lemma readback_fraction_frac a b : 0 <= a -> 0 <= b ->
  readback_fraction (zstr a ++ c_slash :: zstr b) = Some (false, 0, a, b).
Proof.
  intros Ha Hb. unfold readback_fraction.
  assert (Hh : match zstr a ++ c_slash :: zstr b with c :: _ => is_digit c = true | [] => False end).
  { pose proof (zstr_head a). destruct (zstr a); [tauto|assumption]. }
  rewrite strip_minus_digit by exact Hh.
  rewrite split_on_none.
  2:{ apply Forall_app; split; [apply digits_no; [reflexivity|apply zstr_digits]|].
      constructor; [reflexivity|apply digits_no; [reflexivity|apply zstr_digits]]. }
  cbn [rev app].
  rewrite split_on_one by (apply digits_no; [reflexivity|apply zstr_digits]).
  rewrite split_on_none by (apply digits_no; [reflexivity|apply zstr_digits]). cbn [rev app].
  rewrite !zstr_val by assumption. reflexivity.
Qed.

Lemma readback_fraction_mixed w a b : 0 <= w -> 0 <= a -> 0 <= b ->
  readback_fraction (zstr w ++ [c_sp] ++ zstr a ++ [c_slash] ++ zstr b) = Some (false, w, a, b).
Proof.
  intros Hw Ha Hb. unfold readback_fraction.
  assert (Hh : match zstr w ++ [c_sp] ++ zstr a ++ [c_slash] ++ zstr b with c :: _ => is_digit c = true | [] => False end).
  { pose proof (zstr_head w). destruct (zstr w); [tauto|assumption]. }
  rewrite strip_minus_digit by exact Hh. cbn [app].
  rewrite split_on_one by (apply digits_no; [reflexivity|apply zstr_digits]).
  rewrite split_on_none.
  2:{ apply Forall_app; split; [apply digits_no; [reflexivity|apply zstr_digits]|].
      constructor; [reflexivity|apply digits_no; [reflexivity|apply zstr_digits]]. }
  cbn [rev app].
  rewrite split_on_one by (apply digits_no; [reflexivity|apply zstr_digits]).
  rewrite split_on_none by (apply digits_no; [reflexivity|apply zstr_digits]). cbn [rev app].
  rewrite !zstr_val by assumption. reflexivity.
Qed.

(* _format_fraction_parts_to shows whole + num/den *)
Lemma frac_parts_read whole num den : 0 <= whole -> 0 <= num -> 0 < den ->
  exists w a b, readback_fraction (frac_parts whole num den) = Some (false, w, a, b) /\
    0 < b /\ (w * b + a) * den = (whole * den + num) * b /\ (a = 0 \/ b = den).
Proof.
  intros Hw Hn Hd. unfold frac_parts. rewrite !sstr_nonneg by lia.
  destruct (Z.ltb_spec 0 whole).
  - destruct (Z.eqb_spec num 0) as [->|].
    + exists whole, 0, 1. rewrite readback_fraction_whole by lia. repeat split; lia.
    + exists whole, num, den. rewrite readback_fraction_mixed by lia. repeat split; lia.
  - assert (whole = 0) by lia. subst whole.
    destruct (Z.eqb_spec num 0) as [->|].
    + exists 0, 0, 1. repeat split; lia.
    + destruct (Z.eqb_spec num den) as [->|].
      * exists 1, 0, 1. repeat split; lia.
      * exists 0, num, den. cbn [app]. rewrite readback_fraction_frac by lia. repeat split; lia.
Qed.

Lemma readback_fraction_neg s w a b : readback_fraction s = Some (false, w, a, b) ->
  (match s with c :: _ => is_digit c = true | [] => False end) ->
  readback_fraction (c_min :: s) = Some (true, w, a, b).
Proof.
  intros H Hh. unfold readback_fraction in *. rewrite strip_minus_minus.
  rewrite strip_minus_digit in H by exact Hh.
  destruct (split_on c_sp s []) as [|x [|y [|z r]]]; try discriminate.
  - destruct (split_on c_slash x []) as [|x1 [|y1 [|z1 r1]]]; try discriminate; inversion H; subst; reflexivity.
  - destruct (split_on c_slash y []) as [|x1 [|y1 [|z1 r1]]]; try discriminate; inversion H; subst; reflexivity.
Qed.

Lemma frac_parts_head whole num den : 0 <= whole -> 0 <= num -> 0 <= den ->
  match frac_parts whole num den with c :: _ => is_digit c = true | [] => False end.
Proof.
  intros. unfold frac_parts. rewrite !sstr_nonneg by lia.
  destruct (0 <? whole).
  - destruct (num =? 0); [apply zstr_head|]. pose proof (zstr_head whole). destruct (zstr whole); [tauto|assumption].
  - destruct (num =? 0); [reflexivity|]. destruct (num =? den); [reflexivity|].
    pose proof (zstr_head num). destruct (zstr num); [tauto|assumption].
Qed.

(* ---------- fixed denominators ---------- *)
Lemma fraction_numerator_nonneg acc vn vd : 0 <= vn -> 0 < vd -> 0 < acc -> 0 <= fraction_numerator acc vn vd.
Proof.
  intros Hn Hd Ha. unfold fraction_numerator.
  destruct (Z.leb_spec (vn - vn / vd * vd) 0); [lia|].
  pose proof (b64_rat_spec (acc * (vn - vn / vd * vd)) vd ltac:(nia) Hd) as Hs.
  destruct (rat_of_b64 (b64_of_rat (acc * (vn - vn / vd * vd)) vd)) as [pn pd]. destruct Hs as [H1 [H2 _]].
  apply rne_div_spec; lia.
Qed.

(* error of the displayed numerator: half a unit plus the binary64 rounding of the product *)
Lemma fraction_numerator_error acc vn vd : 0 <= vn -> 0 < vd -> 0 < acc ->
  let fN := vn - vn / vd * vd in
  let num := fraction_numerator acc vn vd in
  2 ^ 54 * Z.abs (num * vd - acc * fN) <= vd * (2 ^ 53 + 2 * num + 1).
Proof.
  intros Hn Hd Ha fN num. unfold num, fraction_numerator. fold fN.
  assert (HfN : 0 <= fN < vd).
  { unfold fN. pose proof (Z.mod_pos_bound vn vd Hd). pose proof (Z.div_mod vn vd ltac:(lia)). lia. }
  destruct (Z.leb_spec fN 0).
  - assert (fN = 0) by lia. replace (acc * fN) with 0 by lia. cbn. lia.
  - pose proof (b64_rat_spec (acc * fN) vd ltac:(nia) Hd) as Hs.
    destruct (rat_of_b64 (b64_of_rat (acc * fN) vd)) as [pn pd]. destruct Hs as [Hpn [Hpd Hrel]].
    pose proof (rne_div_spec pn pd ltac:(lia) Hpd) as [Hq0 Hq]. cbv zeta in Hq.
    set (q := rne_div pn pd) in *. set (X := acc * fN) in *.
    change (2 ^ 54) with (2 * 2 ^ 53). set (T := 2 ^ 53) in *. assert (0 < T) by (unfold T; lia).
    (* scale everything by pd > 0 *)
    apply (mul_cancel_le pd); [assumption|].
    assert (E1 : pd * (2 * T * Z.abs (q * vd - X)) = 2 * T * Z.abs (q * pd * vd - X * pd)).
    { rewrite <- (Z.abs_eq pd) at 1 by lia. rewrite (Z.mul_comm (Z.abs pd)), <- !Z.mul_assoc, <- Z.abs_mul.
      f_equal. f_equal. f_equal. ring. }
    rewrite E1.
    assert (Htri : Z.abs (q * pd * vd - X * pd) <= Z.abs (q * pd - pn) * vd + Z.abs (pn * vd - X * pd)).
    { replace (q * pd * vd - X * pd) with ((q * pd - pn) * vd + (pn * vd - X * pd)) by ring.
      eapply Z.le_trans; [apply Z.abs_triangle|]. rewrite Z.abs_mul, (Z.abs_eq vd) by lia. lia. }
    assert (H1 : 2 * Z.abs (q * pd - pn) <= pd) by lia.
    assert (H2 : 2 * pn <= 2 * (q * pd) + pd) by lia.
    assert (H3 : 2 * T * (Z.abs (q * pd - pn) * vd) <= T * pd * vd).
    { replace (2 * T * (Z.abs (q * pd - pn) * vd)) with (T * vd * (2 * Z.abs (q * pd - pn))) by ring.
      replace (T * pd * vd) with (T * vd * pd) by ring. apply Z.mul_le_mono_nonneg_l; [nia|assumption]. }
    assert (H4 : 2 * T * Z.abs (pn * vd - X * pd) <= 2 * (pn * vd)) by lia.
    assert (H5 : 2 * (pn * vd) <= (2 * (q * pd) + pd) * vd) by (replace (2 * (pn * vd)) with (2 * pn * vd) by ring; apply Z.mul_le_mono_nonneg_r; lia).
    replace (pd * (vd * (T + 2 * q + 1))) with (T * pd * vd + (2 * (q * pd) + pd) * vd) by ring.
    lia.
Qed.

Lemma fraction_fixed_lemma is_int d acc : 0 <= dmant d -> 0 < acc -> Z.land acc 4278190080 = 0 ->
  let vn := fst (value_rat is_int (dmant d) (dexp d)) in
  let vd := snd (value_rat is_int (dmant d) (dexp d)) in
  let whole := vn / vd in
  let num := fraction_numerator acc vn vd in
  exists s neg w a b,
    format_fraction is_int d acc = Ok s /\ readback_fraction s = Some (neg, w, a, b) /\
    0 < b /\ (w * b + a) * acc = (whole * acc + num) * b /\ (a = 0 \/ b = acc) /\
    neg = (is_neg d && negb (str_eqb (frac_parts whole num acc) [48%N])) /\
    (str_eqb (frac_parts whole num acc) [48%N] = true -> w = 0 /\ a = 0).
Proof.
  intros Hm Ha Hl. cbv zeta. unfold format_fraction, fraction_abs.
  pose proof (value_rat_pos is_int (dmant d) (dexp d)) as Hv.
  destruct (value_rat is_int (dmant d) (dexp d)) as [vn vd]. cbn [fst snd]. destruct Hv as [Hvn Hvd].
  rewrite Hl. cbn [Z.eqb negb bind].
  set (whole := vn / vd). set (num := fraction_numerator acc vn vd).
  assert (Hw : 0 <= whole) by (apply Z.div_pos; lia).
  assert (Hnum : 0 <= num) by (apply fraction_numerator_nonneg; lia).
  destruct (frac_parts_read whole num acc Hw Hnum Ha) as (w & a & b & Hr & Hb & Hval & Hden).
  pose proof (frac_parts_head whole num acc Hw Hnum ltac:(lia)) as Hh.
  set (body := frac_parts whole num acc) in *.
  assert (Hz : str_eqb body [48%N] = true -> w = 0 /\ a = 0).
  { intros Eb. apply str_eqb_true in Eb. rewrite Eb in Hr. cbn in Hr. inversion Hr. split; reflexivity. }
  destruct (is_neg d); cbn [andb].
  - destruct (str_eqb body [48%N]) eqn:Eb; cbn [negb].
    + exists body, false, w, a, b. repeat split; try assumption; try reflexivity; apply Hz; reflexivity.
    + exists (c_min :: body), true, w, a, b. repeat split; try assumption; try reflexivity; try discriminate.
      apply readback_fraction_neg; assumption.
  - exists body, false, w, a, b. repeat split; try assumption; try reflexivity; apply Hz; assumption.
Qed.
