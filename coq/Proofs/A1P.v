(* Proofs about Model/A1.v (stdlib + lia). *)
From Coq Require Import ZArith NArith List Bool Lia.
From NP Require Import Model.PyBase Model.A1.
Import ListNotations.
Open Scope N_scope.
Ltac Zify.zify_post_hook ::= Z.to_euclidean_division_equations.

(* ---------- fuel ---------- *)
Lemma pos_size_bound p : Npos p < 2 ^ N.of_nat (Pos.size_nat p).
Proof.
  induction p as [p IH|p IH|]; cbn [Pos.size_nat].
  - rewrite Nat2N.inj_succ, N.pow_succ_r'. lia.
  - rewrite Nat2N.inj_succ, N.pow_succ_r'. lia.
  - cbn. lia.
Qed.
Lemma bits_fuel_bound n : n < 2 ^ N.of_nat (bits_fuel n).
Proof. destruct n as [|p]; cbn [bits_fuel]. - cbn; lia. - apply pos_size_bound. Qed.

Lemma pow2_S f : 2 ^ N.of_nat (S f) = 2 * 2 ^ N.of_nat f.
Proof. now rewrite Nat2N.inj_succ, N.pow_succ_r'. Qed.

(* ---------- decimal ---------- *)
Fixpoint dec_val_rev (l : list N) : N :=
  match l with [] => 0 | c :: r => (c - 48) + 10 * dec_val_rev r end.

Lemma digits_to_N_app l c : digits_to_N (l ++ [c]) = digits_to_N l * 10 + (c - 48).
Proof. unfold digits_to_N. now rewrite fold_left_app. Qed.

Lemma digits_to_N_rev l : digits_to_N (rev l) = dec_val_rev l.
Proof.
  induction l as [|c r IH]; [reflexivity|].
  cbn [rev dec_val_rev]. rewrite digits_to_N_app, IH. lia.
Qed.

Lemma dec_rev_S f n : dec_rev (S f) n = if n =? 0 then [] else (48 + n mod 10) :: dec_rev f (n / 10).
Proof. reflexivity. Qed.

Lemma dec_rev_val f : forall n, n < 2 ^ N.of_nat f -> dec_val_rev (dec_rev f n) = n.
Proof.
  induction f as [|f IH]; intros n Hn.
  - cbn in Hn. assert (n = 0) by lia. subst. reflexivity.
  - rewrite dec_rev_S. destruct (N.eqb_spec n 0) as [->|Hz]; [reflexivity|].
    cbn [dec_val_rev]. rewrite pow2_S in Hn.
    rewrite IH.
    + lia.
    + assert (n / 10 <= n / 2).
      { apply N.div_le_compat_l; lia. }
      assert (n / 2 < 2 ^ N.of_nat f) by (apply N.div_lt_upper_bound; lia). lia.
Qed.

Lemma dec_rev_digits f : forall n, Forall (fun c => is_digit c = true) (dec_rev f n).
Proof.
  induction f as [|f IH]; intros n; [constructor|].
  rewrite dec_rev_S. destruct (n =? 0); constructor; [|apply IH].
  unfold is_digit. pose proof (N.mod_upper_bound n 10 ltac:(lia)).
  apply andb_true_intro; split; apply N.leb_le; lia.
Qed.

Lemma dec_rev_nonempty f n : n <> 0 -> n < 2 ^ N.of_nat f -> dec_rev f n <> [].
Proof.
  destruct f; intros Hz Hn.
  - cbn in Hn. lia.
  - rewrite dec_rev_S. destruct (N.eqb_spec n 0); [contradiction|discriminate].
Qed.

Lemma py_str_N_digits n : Forall (fun c => is_digit c = true) (py_str_N n).
Proof.
  unfold py_str_N. destruct (n =? 0).
  - constructor; [reflexivity|constructor].
  - apply Forall_rev, dec_rev_digits.
Qed.

Lemma py_str_N_nonempty n : py_str_N n <> [].
Proof.
  unfold py_str_N. destruct (N.eqb_spec n 0); [discriminate|].
  intros H. apply (f_equal (@rev N)) in H. rewrite rev_involutive in H. cbn in H.
  revert H. apply dec_rev_nonempty; [assumption|apply bits_fuel_bound].
Qed.

Theorem py_int_str n : py_int (py_str_N n) = n.
Proof.
  unfold py_int, py_str_N. destruct (N.eqb_spec n 0) as [->|Hz]; [reflexivity|].
  rewrite digits_to_N_rev. apply dec_rev_val, bits_fuel_bound.
Qed.

(* ---------- bijective base 26 ---------- *)
Definition letter (c : N) : Prop := 65 <= c <= 90.

Lemma name_rev_S f n : name_rev (S f) n =
  if n =? 0 then [] else
    (64 + (if n mod 26 =? 0 then 26 else n mod 26)) :: name_rev f ((n - 1) / 26).
Proof. reflexivity. Qed.

Lemma name_rev_letters f : forall n, Forall letter (name_rev f n).
Proof.
  induction f as [|f IH]; intros n; [constructor|].
  rewrite name_rev_S. destruct (n =? 0); constructor; [|apply IH].
  unfold letter. pose proof (N.mod_upper_bound n 26 ltac:(lia)).
  destruct (N.eqb_spec (n mod 26) 0); lia.
Qed.

Lemma step26 n : n <> 0 ->
  (Z.of_N (64 + (if n mod 26 =? 0 then 26 else n mod 26))%N - 64 + 26 * Z.of_N ((n - 1) / 26)%N)%Z = Z.of_N n.
Proof.
  intros Hn. destruct (N.eqb_spec (n mod 26) 0) as [E|E]; lia.
Qed.

Lemma name_rev_val f : forall n, n < 2 ^ N.of_nat f -> name_val_rev (name_rev f n) = Z.of_N n.
Proof.
  induction f as [|f IH]; intros n Hn.
  - cbn in Hn. assert (n = 0) by lia. subst. reflexivity.
  - rewrite name_rev_S. destruct (N.eqb_spec n 0) as [->|Hz]; [reflexivity|].
    cbn [name_val_rev]. rewrite pow2_S in Hn. rewrite IH.
    + apply step26; assumption.
    + assert ((n - 1) / 26 <= (n - 1) / 2) by (apply N.div_le_compat_l; lia).
      assert ((n - 1) / 2 < 2 ^ N.of_nat f) by (apply N.div_lt_upper_bound; lia). lia.
Qed.

Lemma name_rev_nonempty f n : n <> 0 -> n < 2 ^ N.of_nat f -> name_rev f n <> [].
Proof.
  destruct f; intros Hz Hn.
  - cbn in Hn. lia.
  - rewrite name_rev_S. destruct (N.eqb_spec n 0); [contradiction|discriminate].
Qed.

Lemma name_rev_len3 f n : n <= 18278 -> (length (name_rev f n) <= 3)%nat.
Proof.
  intros Hn.
  destruct f as [|f]; [cbn; lia|]. rewrite name_rev_S.
  destruct (N.eqb_spec n 0); [cbn; lia|]. cbn [length].
  assert (H1 : (n - 1) / 26 <= 702) by (apply N.lt_succ_r, N.div_lt_upper_bound; lia).
  destruct f as [|f]; [cbn; lia|]. rewrite name_rev_S.
  destruct (N.eqb_spec ((n - 1) / 26) 0); [cbn; lia|]. cbn [length].
  assert (H2 : ((n - 1) / 26 - 1) / 26 <= 26) by (apply N.lt_succ_r, N.div_lt_upper_bound; lia).
  destruct f as [|f]; [cbn; lia|]. rewrite name_rev_S.
  destruct (N.eqb_spec (((n - 1) / 26 - 1) / 26) 0); [cbn; lia|]. cbn [length].
  assert (H3 : (((n - 1) / 26 - 1) / 26 - 1) / 26 = 0) by (apply N.div_small; lia).
  rewrite H3. destruct f; cbn; lia.
Qed.

(* the inverse direction: digits back to the same digits *)
Lemma name_val_rev_pos l : Forall letter l -> l <> [] -> (0 < name_val_rev l)%Z.
Proof.
  induction 1 as [|c r Hc Hr IH]; [congruence|intros _].
  cbn [name_val_rev]. unfold letter in Hc.
  destruct r as [|d r']; [cbn; lia|].
  assert (0 < name_val_rev (d :: r'))%Z by (apply IH; discriminate). lia.
Qed.
Lemma name_val_rev_nonneg l : Forall letter l -> (0 <= name_val_rev l)%Z.
Proof.
  intros H. destruct l; [cbn; lia|].
  pose proof (name_val_rev_pos _ H ltac:(discriminate)). lia.
Qed.

Lemma name_rev_of_val f : forall l, Forall letter l ->
  Z.to_N (name_val_rev l) < 2 ^ N.of_nat f -> name_rev f (Z.to_N (name_val_rev l)) = l.
Proof.
  induction f as [|f IH]; intros l Hl Hb.
  - cbn in Hb. destruct l as [|c r]; [reflexivity|].
    pose proof (name_val_rev_pos _ Hl ltac:(discriminate)). lia.
  - destruct l as [|c r]; [reflexivity|].
    inversion Hl as [|? ? Hc Hr]; subst.
    pose proof (name_val_rev_nonneg _ Hr) as Hnn.
    rewrite name_rev_S. cbn [name_val_rev] in *. unfold letter in Hc.
    set (v := name_val_rev r) in *.
    set (n := Z.to_N (Z.of_N c - 64 + 26 * v)) in *.
    assert (En : n = (c - 64) + 26 * Z.to_N v) by lia.
    destruct (N.eqb_spec n 0) as [E0|E0]; [lia|].
    assert (Eq : (n - 1) / 26 = Z.to_N v).
    { symmetry. apply (N.div_unique (n - 1) 26 (Z.to_N v) (c - 65)); lia. }
    assert (Em : (if n mod 26 =? 0 then 26 else n mod 26) = c - 64).
    { destruct (N.eq_dec c 90) as [->|Hc90].
      - assert (n mod 26 = 0).
        { symmetry. apply (N.mod_unique n 26 (1 + Z.to_N v) 0); lia. }
        rewrite H. reflexivity.
      - assert (n mod 26 = c - 64).
        { symmetry. apply (N.mod_unique n 26 (Z.to_N v) (c - 64)); lia. }
        rewrite H. destruct (N.eqb_spec (c - 64) 0); lia. }
    rewrite Em, Eq. f_equal; [lia|].
    apply IH; [assumption|]. rewrite pow2_S in Hb. lia.
Qed.

(* ---------- scanners ---------- *)
Lemma letter_upper c : letter c -> is_upper c = true.
Proof. unfold letter, is_upper. intros. apply andb_true_intro; split; apply N.leb_le; lia. Qed.

Lemma take_upper_exact k : forall ls rest, Forall letter ls -> (length ls <= k)%nat ->
  match rest with [] => True | c :: _ => is_upper c = false end ->
  take_upper k (ls ++ rest) = (ls, rest).
Proof.
  induction k as [|k IH]; intros ls rest Hl Hlen Hr.
  - destruct ls; [|cbn in Hlen; lia]. cbn. destruct rest; reflexivity.
  - destruct ls as [|c ls'].
    + cbn [app take_upper]. destruct rest as [|c r]; [reflexivity|]. now rewrite Hr.
    + inversion Hl; subst. cbn [app take_upper]. rewrite letter_upper by assumption.
      rewrite IH; [reflexivity|assumption|cbn in Hlen; lia|assumption].
Qed.

Lemma take_digits_all ds : Forall (fun c => is_digit c = true) ds -> take_digits ds = (ds, []).
Proof.
  induction 1 as [|c r Hc Hr IH]; [reflexivity|].
  cbn [take_digits]. now rewrite Hc, IH.
Qed.

Lemma opt_dollar_dollar b rest :
  match rest with [] => True | c :: _ => c <> c_dollar end ->
  opt_dollar (dollar b ++ rest) = (b, rest).
Proof.
  intros H. destruct b; cbn.
  - reflexivity.
  - destruct rest as [|c r]; [reflexivity|]. cbn. destruct (N.eqb_spec c c_dollar); [contradiction|reflexivity].
Qed.

Lemma col_letters_props c :
  Forall letter (col_letters c) /\ col_letters c <> [] /\
  name_to_col (col_letters c) = Z.of_N c.
Proof.
  unfold col_letters, name_to_col. split; [|split].
  - apply Forall_rev, name_rev_letters.
  - intros H. apply (f_equal (@rev N)) in H. rewrite rev_involutive in H. cbn in H.
    revert H. apply name_rev_nonempty; [lia|apply bits_fuel_bound].
  - rewrite rev_involutive, name_rev_val by apply bits_fuel_bound. lia.
Qed.

Lemma col_letters_len3 c : c < 18278 -> (length (col_letters c) <= 3)%nat.
Proof. intros. unfold col_letters. rewrite rev_length. apply name_rev_len3. lia. Qed.

(* ---------- main lemmas ---------- *)
Lemma a1_roundtrip_lemma (r c : Z) (ra ca : bool) :
  (0 <= r)%Z -> (0 <= c < 18278)%Z ->
  bind (xl_rowcol_to_cell r c ra ca) xl_cell_to_rowcol = Ok (r, c).
Proof.
  intros Hr Hc. unfold xl_rowcol_to_cell, xl_col_to_name.
  destruct (Z.ltb_spec r 0); [lia|]. destruct (Z.ltb_spec c 0); [lia|].
  cbn [bind].
  destruct (col_letters_props (Z.to_N c)) as (HL & HN & HV).
  pose proof (col_letters_len3 (Z.to_N c) ltac:(lia)) as H3.
  set (ls := col_letters (Z.to_N c)) in *.
  set (ds := py_str_N (Z.to_N (r + 1))).
  pose proof (py_str_N_digits (Z.to_N (r + 1))) as HD.
  pose proof (py_str_N_nonempty (Z.to_N (r + 1))) as HDn.
  fold ds in HD, HDn.
  unfold xl_cell_to_rowcol.
  assert (Hne : (dollar ca ++ ls) ++ dollar ra ++ ds <> []).
  { destruct ls; [congruence|]. destruct ca; discriminate. }
  destruct ((dollar ca ++ ls) ++ dollar ra ++ ds) eqn:E; [congruence|]. rewrite <- E. clear E Hne.
  unfold match_cell. rewrite <- app_assoc.
  rewrite opt_dollar_dollar.
  2:{ destruct ls as [|x ?]; [congruence|]. pose proof (Forall_inv HL) as Hx. cbn. unfold letter, c_dollar in *. lia. }
  assert (Hhead : match dollar ra ++ ds with [] => True | x :: _ => is_upper x = false end).
  { destruct ra; cbn; [reflexivity|]. destruct ds as [|x ?]; [exact I|].
    pose proof (Forall_inv HD) as Hx. cbn beta in Hx. unfold is_digit, is_upper in *.
    apply andb_prop in Hx as [A B]. apply N.leb_le in A, B.
    apply andb_false_intro1. apply N.leb_gt. lia. }
  rewrite take_upper_exact by assumption.
  destruct ls as [|l0 ls'] eqn:Els; [congruence|]. rewrite <- Els in *.
  rewrite opt_dollar_dollar.
  2:{ destruct ds as [|x ?]; [exact I|]. pose proof (Forall_inv HD) as Hx. cbn beta in Hx.
      unfold is_digit, c_dollar in *. apply andb_prop in Hx as [A B]. apply N.leb_le in A. lia. }
  rewrite take_digits_all by assumption.
  destruct ds eqn:Eds; [congruence|]. rewrite <- Eds.
  unfold ds. rewrite py_int_str, HV. f_equal. f_equal; lia.
Qed.

Lemma negative_rejected_lemma (r c : Z) ra ca :
  (r < 0 \/ c < 0)%Z -> xl_rowcol_to_cell r c ra ca = Err IndexError.
Proof.
  intros H. unfold xl_rowcol_to_cell.
  destruct (Z.ltb_spec r 0); [reflexivity|]. destruct (Z.ltb_spec c 0); [reflexivity|lia].
Qed.

Lemma negative_col_rejected_lemma c ca : (c < 0)%Z -> xl_col_to_name c ca = Err IndexError.
Proof. intros. unfold xl_col_to_name. destruct (Z.ltb_spec c 0); [reflexivity|lia]. Qed.

Lemma col_name_left_inverse c : (0 <= c)%Z -> name_to_col (col_letters (Z.to_N c)) = c.
Proof. intros. destruct (col_letters_props (Z.to_N c)) as (_ & _ & ->). lia. Qed.

Lemma col_name_right_inverse s : Forall letter s -> s <> [] ->
  (0 <= name_to_col s)%Z /\ col_letters (Z.to_N (name_to_col s)) = s.
Proof.
  intros Hs Hne.
  assert (Hr : Forall letter (rev s)) by now apply Forall_rev.
  assert (Hrne : rev s <> []).
  { intros E. apply (f_equal (@rev N)) in E. rewrite rev_involutive in E. now cbn in E. }
  pose proof (name_val_rev_pos _ Hr Hrne) as Hp.
  unfold name_to_col, col_letters. split; [lia|].
  replace (Z.to_N (name_val_rev (rev s) - 1) + 1) with (Z.to_N (name_val_rev (rev s))) by lia.
  rewrite name_rev_of_val; [apply rev_involutive|assumption|apply bits_fuel_bound].
Qed.

Lemma col_to_index_agrees s : col_to_index s = name_to_col s.
Proof.
  reflexivity.
Qed.

(* ---------- order ---------- *)
Local Arguments Z.mul : simpl never.
Local Arguments Z.add : simpl never.
Local Arguments Z.sub : simpl never.
Local Arguments Z.of_N : simpl never.
(* big-endian Horner value over digit characters *)
Definition be_val (acc : Z) (X : str) : Z := fold_left (fun a c => a * 26 + (Z.of_N c - 64))%Z X acc.

Lemma be_val_rev X : name_val_rev (rev X) = be_val 0 X.
Proof.
  induction X as [|d Y IH] using rev_ind; [reflexivity|].
  rewrite rev_unit. cbn [name_val_rev]. rewrite IH.
  unfold be_val. rewrite fold_left_app. cbn [fold_left]. lia.
Qed.

Lemma be_val_cons acc d X : be_val acc (d :: X) = be_val (acc * 26 + (Z.of_N d - 64))%Z X.
Proof. reflexivity. Qed.

Lemma be_val_acc_lt : forall X X' acc acc', length X = length X' -> Forall letter X -> Forall letter X' ->
  (acc < acc')%Z -> (be_val acc X < be_val acc' X')%Z.
Proof.
  induction X as [|d r IH]; intros [|d' r'] acc acc' Hlen HX HX' Hacc; try discriminate; [exact Hacc|].
  pose proof (Forall_inv HX) as Hd. pose proof (Forall_inv_tail HX) as Hr.
  pose proof (Forall_inv HX') as Hd'. pose proof (Forall_inv_tail HX') as Hr'.
  rewrite !be_val_cons. apply IH; try assumption; [cbn in Hlen; lia|].
  unfold letter in *. lia.
Qed.

Lemma be_val_lex : forall X X' acc, length X = length X' -> Forall letter X -> Forall letter X' ->
  lex_lt X X' = true -> (be_val acc X < be_val acc X')%Z.
Proof.
  induction X as [|d r IH]; intros [|d' r'] acc Hlen HX HX' Hlex; try discriminate.
  pose proof (Forall_inv HX) as Hd. pose proof (Forall_inv_tail HX) as Hr.
  pose proof (Forall_inv HX') as Hd'. pose proof (Forall_inv_tail HX') as Hr'.
  rewrite !be_val_cons. cbn [lex_lt] in Hlex.
  apply orb_prop in Hlex as [Hlt|Heq].
  - apply N.ltb_lt in Hlt. apply be_val_acc_lt; try assumption; [cbn in Hlen; lia|lia].
  - apply andb_prop in Heq as [He Hl]. apply N.eqb_eq in He. subst d'.
    apply IH; try assumption. cbn in Hlen; lia.
Qed.

Lemma be_val_ge : forall X acc, Forall letter X -> (0 <= acc)%Z -> (acc <= be_val acc X)%Z.
Proof.
  induction X as [|d r IH]; intros acc HX Hacc; [cbn; lia|].
  pose proof (Forall_inv HX) as Hd. pose proof (Forall_inv_tail HX) as Hr.
  rewrite be_val_cons. unfold letter in Hd.
  assert (Hacc' : (0 <= acc * 26 + (Z.of_N d - 64))%Z) by lia.
  specialize (IH _ Hr Hacc'). lia.
Qed.

Lemma be_val_app acc X Y : be_val acc (X ++ Y) = be_val (be_val acc X) Y.
Proof. unfold be_val. apply fold_left_app. Qed.

Lemma be_val_shorter X X' : Forall letter X -> Forall letter X' ->
  (length X < length X')%nat -> (be_val 0 X < be_val 0 X')%Z.
Proof.
  intros HX HX' Hlen.
  set (k := (length X' - length X)%nat).
  rewrite <- (firstn_skipn k X'). rewrite be_val_app.
  assert (HPS : Forall letter (firstn k X' ++ skipn k X')) by now rewrite firstn_skipn.
  apply Forall_app in HPS as [HP HS].
  apply be_val_acc_lt; try assumption.
  - rewrite skipn_length. lia.
  - destruct (firstn k X') as [|p ps] eqn:E.
    + apply (f_equal (@length N)) in E. rewrite firstn_length in E. cbn in E. lia.
    + pose proof (Forall_inv HP) as Hp. pose proof (Forall_inv_tail HP) as Hps.
      rewrite be_val_cons. unfold letter in Hp.
      assert (Hacc' : (0 <= 0 * 26 + (Z.of_N p - 64))%Z) by lia.
      pose proof (be_val_ge ps _ Hps Hacc'). lia.
Qed.

Lemma lex_trichotomy : forall X Y, length X = length Y ->
  lex_lt X Y = true \/ X = Y \/ lex_lt Y X = true.
Proof.
  induction X as [|x X IH]; intros [|y Y] Hlen; try discriminate; [auto|].
  cbn [lex_lt]. destruct (N.lt_trichotomy x y) as [H|[H|H]].
  - left. apply orb_true_intro. left. now apply N.ltb_lt.
  - subst y. destruct (IH Y ltac:(cbn in Hlen; lia)) as [H|[H|H]].
    + left. rewrite N.eqb_refl, H. apply orb_true_r.
    + right. left. now subst.
    + right. right. rewrite N.eqb_refl, H. apply orb_true_r.
  - right. right. apply orb_true_intro. left. now apply N.ltb_lt.
Qed.

Lemma shortlex_trichotomy X Y :
  shortlex_lt X Y = true \/ X = Y \/ shortlex_lt Y X = true.
Proof.
  unfold shortlex_lt.
  destruct (Nat.lt_trichotomy (length X) (length Y)) as [H|[H|H]].
  - left. apply orb_true_intro. left. now apply Nat.ltb_lt.
  - destruct (lex_trichotomy X Y H) as [L|[L|L]].
    + left. rewrite L, (proj2 (Nat.eqb_eq _ _) H). apply orb_true_r.
    + right. now left.
    + right. right. rewrite L, (proj2 (Nat.eqb_eq _ _) (eq_sym H)). apply orb_true_r.
  - right. right. apply orb_true_intro. left. now apply Nat.ltb_lt.
Qed.

Lemma shortlex_val X Y : Forall letter X -> Forall letter Y ->
  shortlex_lt X Y = true -> (be_val 0 X < be_val 0 Y)%Z.
Proof.
  intros HX HY H. unfold shortlex_lt in H. apply orb_prop in H as [H|H].
  - apply Nat.ltb_lt in H. now apply be_val_shorter.
  - apply andb_prop in H as [H1 H2]. apply Nat.eqb_eq in H1. now apply be_val_lex.
Qed.

Lemma be_val_col_letters c : be_val 0 (col_letters c) = (Z.of_N c + 1)%Z.
Proof.
  destruct (col_letters_props c) as (_ & _ & HV). unfold name_to_col in HV.
  rewrite be_val_rev in HV. lia.
Qed.

Lemma col_name_order_lemma a b : a < b -> shortlex_lt (col_letters a) (col_letters b) = true.
Proof.
  intros Hab.
  destruct (col_letters_props a) as (HA & _ & _). destruct (col_letters_props b) as (HB & _ & _).
  destruct (shortlex_trichotomy (col_letters a) (col_letters b)) as [H|[H|H]]; [assumption| |].
  - apply (f_equal (be_val 0)) in H. rewrite !be_val_col_letters in H. lia.
  - apply shortlex_val in H; try assumption. rewrite !be_val_col_letters in H. lia.
Qed.

(* ---------- ranges ---------- *)
Lemma str_eqb_eq : forall a b, str_eqb a b = true <-> a = b.
Proof.
  induction a as [|x a IH]; intros [|y b]; cbn; split; intros H; try congruence; try discriminate.
  - apply andb_prop in H as [H1 H2]. apply N.eqb_eq in H1. apply IH in H2. congruence.
  - inversion H; subst. rewrite N.eqb_refl. cbn. now apply IH.
Qed.

Definition has_colon (s : list N) : bool := existsb (fun c => c =? c_colon) s.

Lemma has_colon_app a b : has_colon (a ++ b) = has_colon a || has_colon b.
Proof. apply existsb_app. Qed.

Lemma no_colon_letters l : Forall letter l -> has_colon l = false.
Proof.
  induction 1 as [|c r Hc Hr IH]; [reflexivity|]. unfold has_colon in *. cbn [existsb]. rewrite IH.
  unfold letter, c_colon in *. destruct (N.eqb_spec c 58); [lia|reflexivity].
Qed.
Lemma no_colon_digits l : Forall (fun c => is_digit c = true) l -> has_colon l = false.
Proof.
  induction 1 as [|c r Hc Hr IH]; [reflexivity|]. unfold has_colon in *. cbn [existsb]. rewrite IH.
  unfold is_digit, c_colon in *. apply andb_prop in Hc as [A B]. apply N.leb_le in B.
  destruct (N.eqb_spec c 58); [lia|reflexivity].
Qed.

Lemma cell_no_colon r c s : xl_rowcol_to_cell r c false false = Ok s -> has_colon s = false.
Proof.
  unfold xl_rowcol_to_cell, xl_col_to_name.
  destruct (r <? 0)%Z; [discriminate|]. destruct (c <? 0)%Z; [discriminate|].
  cbn [bind dollar app]. intros H. inversion H; subst.
  rewrite has_colon_app. destruct (col_letters_props (Z.to_N c)) as (HL & _ & _).
  rewrite no_colon_letters by assumption. rewrite no_colon_digits by apply py_str_N_digits. reflexivity.
Qed.

Lemma cell_ok r c ra ca : (0 <= r)%Z -> (0 <= c)%Z -> exists s, xl_rowcol_to_cell r c ra ca = Ok s.
Proof.
  intros Hr Hc. unfold xl_rowcol_to_cell, xl_col_to_name.
  destruct (Z.ltb_spec r 0); [lia|]. destruct (Z.ltb_spec c 0); [lia|]. cbn [bind]. eauto.
Qed.

Lemma range_collapse_lemma r1 c1 r2 c2 :
  (0 <= r1)%Z -> (0 <= r2)%Z -> (0 <= c1 < 18278)%Z -> (0 <= c2 < 18278)%Z ->
  exists s, xl_range r1 c1 r2 c2 = Ok s /\ (has_colon s = false <-> (r1, c1) = (r2, c2)).
Proof.
  intros Hr1 Hr2 Hc1 Hc2.
  destruct (cell_ok r1 c1 false false Hr1 ltac:(lia)) as [a Ea].
  destruct (cell_ok r2 c2 false false Hr2 ltac:(lia)) as [b Eb].
  pose proof (a1_roundtrip_lemma r1 c1 false false Hr1 Hc1) as Ra.
  pose proof (a1_roundtrip_lemma r2 c2 false false Hr2 Hc2) as Rb.
  rewrite Ea in Ra. rewrite Eb in Rb. cbn [bind] in Ra, Rb.
  unfold xl_range. rewrite Ea, Eb. cbn [bind].
  destruct (str_eqb a b) eqn:E.
  - exists a. split; [reflexivity|]. apply str_eqb_eq in E. subst b.
    split; [intros _; congruence|intros _; eapply cell_no_colon; eauto].
  - exists (a ++ [c_colon] ++ b). split; [reflexivity|].
    split.
    + rewrite !has_colon_app. cbn. rewrite orb_true_r. discriminate.
    + intros H. inversion H; subst. rewrite Ea in Eb. inversion Eb; subst.
      assert (str_eqb b b = true) by now apply str_eqb_eq. congruence.
Qed.

(* a negative coordinate in any of the four positions of xl_range is rejected (the first corner is converted first;
   when it is legal the second corner is reached and refused) *)
Lemma range_negative_rejected_lemma (r1 c1 r2 c2 : Z) :
  (r1 < 0 \/ c1 < 0 \/ r2 < 0 \/ c2 < 0)%Z -> xl_range r1 c1 r2 c2 = Err IndexError.
Proof.
  intros H. unfold xl_range.
  destruct (Z.ltb_spec r1 0) as [Hr1|Hr1].
  { rewrite (negative_rejected_lemma r1 c1 false false) by lia. reflexivity. }
  destruct (Z.ltb_spec c1 0) as [Hc1|Hc1].
  { rewrite (negative_rejected_lemma r1 c1 false false) by lia. reflexivity. }
  destruct (cell_ok r1 c1 false false Hr1 Hc1) as [a Ea]. rewrite Ea. cbn [bind].
  rewrite (negative_rejected_lemma r2 c2 false false) by lia. reflexivity.
Qed.

(* the two ends of a printed range are the two corners, in the order given *)
Lemma range_corners_lemma r1 c1 r2 c2 :
  (0 <= r1)%Z -> (0 <= r2)%Z -> (0 <= c1 < 18278)%Z -> (0 <= c2 < 18278)%Z -> (r1, c1) <> (r2, c2) ->
  exists a b, xl_range r1 c1 r2 c2 = Ok (a ++ [c_colon] ++ b) /\
              xl_cell_to_rowcol a = Ok (r1, c1) /\ xl_cell_to_rowcol b = Ok (r2, c2).
Proof.
  intros Hr1 Hr2 Hc1 Hc2 Hne.
  destruct (cell_ok r1 c1 false false Hr1 ltac:(lia)) as [a Ea].
  destruct (cell_ok r2 c2 false false Hr2 ltac:(lia)) as [b Eb].
  pose proof (a1_roundtrip_lemma r1 c1 false false Hr1 Hc1) as Ra.
  pose proof (a1_roundtrip_lemma r2 c2 false false Hr2 Hc2) as Rb.
  rewrite Ea in Ra. rewrite Eb in Rb. cbn [bind] in Ra, Rb.
  exists a, b. unfold xl_range. rewrite Ea, Eb. cbn [bind].
  destruct (str_eqb a b) eqn:E.
  - apply str_eqb_eq in E. subst b. rewrite Ra in Rb. congruence.
  - auto.
Qed.
