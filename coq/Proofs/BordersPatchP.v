(* C15, part A: add_stroke's run patching keeps each layer consistent with "what the last stroke
   filed under this layer left at each position" - without the runs being disjoint. *)
From Coq Require Import ZArith List Bool Lia.
From NP Require Import Model.PyBase Model.Borders.
Import ListNotations.
Local Open Scope Z_scope.

Definition covers (r : run) (p : Z) : Prop := r_origin r <= p < r_origin r + r_length r.

(* per position of one layer: stamp and attributes of the last stroke filed there *)
Definition gline := Z -> option (Z * attrs).

Definition layer_ok (M : Z) (rs : list run) (g : gline) : Prop :=
  (forall r, In r rs -> r_order r <= M) /\
  forall p,
    match g p with
    | None => forall r, In r rs -> ~ covers r p
    | Some (k, a) =>
        (exists r, In r rs /\ covers r p /\ r_order r = k /\ r_attrs r = a) /\
        (forall r, In r rs -> covers r p -> r_order r < k \/ (r_order r = k /\ r_attrs r = a))
    end.

Definition in_new (newr : run) (p : Z) : Prop := covers newr p.

(* x is (a piece of) the old run r *)
Definition piece_of (r x : run) : Prop :=
  r_order x = r_order r /\ r_attrs x = r_attrs r /\ forall p, covers x p -> covers r p.

Lemma piece_refl : forall r, piece_of r r.
Proof. intros r. split; [reflexivity|split; [reflexivity|auto]]. Qed.

(* ---------- one pass ---------- *)
Lemma patch_pass_props : forall newr rs m a p,
  1 <= r_length newr ->
  patch_pass newr rs = (m, a, p) ->
  (forall x, In x (m ++ a) -> x = newr \/ exists r, In r rs /\ piece_of r x) /\
  (forall r q, In r rs -> covers r q -> ~ in_new newr q ->
               exists x, In x (m ++ a) /\ covers x q /\ r_order x = r_order r /\ r_attrs x = r_attrs r) /\
  (p = true -> In newr m) /\
  (forall x, In x a -> r_origin x = r_origin newr + r_length newr /\ 0 < r_length x).
Proof.
  intros newr rs. induction rs as [|r rest IH]; intros m a p HL H.
  - simpl in H. inversion H; subst. repeat split; try (intros; simpl in *; tauto). discriminate.
  - simpl in H. destruct (patch_pass newr rest) as [[m0 a0] p0] eqn:E.
    specialize (IH m0 a0 p0 HL eq_refl). destruct IH as (I1 & I2 & I3 & I4).
    assert (Lift1 : forall x, In x (m0 ++ a0) -> x = newr \/ exists r0, In r0 (r :: rest) /\ piece_of r0 x).
    { intros x Hx. destruct (I1 x Hx) as [->|(r0 & Hr0 & Hp)]; [left; reflexivity|right; exists r0; split; [right; exact Hr0|exact Hp]]. }
    assert (Lift2 : forall (m1 a1 : list run),
               (forall x, In x (m0 ++ a0) -> In x (m1 ++ a1)) ->
               forall r0 q, In r0 rest -> covers r0 q -> ~ in_new newr q ->
               exists x, In x (m1 ++ a1) /\ covers x q /\ r_order x = r_order r0 /\ r_attrs x = r_attrs r0).
    { intros m1 a1 Hsub r0 q Hr0 Hc Hn. destruct (I2 r0 q Hr0 Hc Hn) as (x & Hx & Hrest).
      exists x. split; [apply Hsub; exact Hx|exact Hrest]. }
    assert (Sub1 : forall y x, In x (m0 ++ a0) -> In x ((y :: m0) ++ a0)).
    { intros y x Hx. simpl. right. exact Hx. }
    unfold in_new, covers in *.
    destruct ((r_origin newr <=? r_origin r) && (r_origin r + r_length r <=? r_origin newr + r_length newr)) eqn:C1.
    { (* whole run overwritten *)
      inversion H; subst. apply andb_true_iff in C1. destruct C1 as (C1a & C1b).
      apply Z.leb_le in C1a, C1b.
      split; [|split; [|split]].
      - intros x Hx. simpl in Hx. destruct Hx as [<-|Hx]; [left; reflexivity|apply Lift1; exact Hx].
      - intros r0 q Hr0 Hc Hn. destruct Hr0 as [<-|Hr0].
        + exfalso. apply Hn. lia.
        + apply (Lift2 _ _ (Sub1 newr) r0 q Hr0 Hc Hn).
      - intros _. simpl. left; reflexivity.
      - exact I4. }
    destruct ((r_origin newr =? r_origin r) && (r_length newr <? r_length r)) eqn:C2.
    { inversion H; subst. apply andb_true_iff in C2. destruct C2 as (C2a & C2b).
      apply Z.eqb_eq in C2a. apply Z.ltb_lt in C2b.
      split; [|split; [|split]].
      - intros x Hx. simpl in Hx. destruct Hx as [<-|Hx]; [|apply Lift1; exact Hx].
        right. exists r. split; [left; reflexivity|]. split; [reflexivity|split; [reflexivity|]].
        intros q Hq. unfold covers in *. simpl in Hq. lia.
      - intros r0 q Hr0 Hc Hn. destruct Hr0 as [<-|Hr0].
        + eexists. split; [simpl; left; reflexivity|]. simpl. repeat split; lia.
        + apply (Lift2 _ _ (Sub1 _) r0 q Hr0 Hc Hn).
      - intros Hp. simpl. right. apply I3, Hp.
      - exact I4. }
    destruct (in_range (r_origin newr) (r_origin r) (r_origin r + r_length r) &&
              (r_origin newr + r_length newr =? r_origin r + r_length r)) eqn:C3.
    { inversion H; subst. apply andb_true_iff in C3. destruct C3 as (C3a & C3b).
      unfold in_range in C3a. apply andb_true_iff in C3a. destruct C3a as (C3a1 & C3a2).
      apply Z.leb_le in C3a1. apply Z.ltb_lt in C3a2. apply Z.eqb_eq in C3b.
      split; [|split; [|split]].
      - intros x Hx. simpl in Hx. destruct Hx as [<-|Hx]; [|apply Lift1; exact Hx].
        right. exists r. split; [left; reflexivity|]. split; [reflexivity|split; [reflexivity|]].
        intros q Hq. unfold covers in *. simpl in Hq. lia.
      - intros r0 q Hr0 Hc Hn. destruct Hr0 as [<-|Hr0].
        + eexists. split; [simpl; left; reflexivity|]. simpl. repeat split; lia.
        + apply (Lift2 _ _ (Sub1 _) r0 q Hr0 Hc Hn).
      - intros Hp. simpl. right. apply I3, Hp.
      - exact I4. }
    destruct (in_range (r_origin newr) (r_origin r) (r_origin r + r_length r) &&
              in_range (r_origin newr + r_length newr) (r_origin r) (r_origin r + r_length r)) eqn:C4.
    { inversion H; subst. apply andb_true_iff in C4. destruct C4 as (C4a & C4b).
      unfold in_range in C4a, C4b. apply andb_true_iff in C4a, C4b.
      destruct C4a as (C4a1 & C4a2). destruct C4b as (C4b1 & C4b2).
      apply Z.leb_le in C4a1, C4b1. apply Z.ltb_lt in C4a2, C4b2.
      split; [|split; [|split]].
      - intros x Hx. simpl in Hx. destruct Hx as [<-|Hx].
        + right. exists r. split; [left; reflexivity|]. split; [reflexivity|split; [reflexivity|]].
          intros q Hq. unfold covers in *. simpl in Hq. lia.
        + apply in_app_or in Hx. destruct Hx as [Hx|[<-|Hx]].
          * apply Lift1. apply in_or_app. left; exact Hx.
          * right. exists r. split; [left; reflexivity|]. split; [reflexivity|split; [reflexivity|]].
            intros q Hq. unfold covers in *. simpl in Hq. lia.
          * apply Lift1. apply in_or_app. right; exact Hx.
      - intros r0 q Hr0 Hc Hn. destruct Hr0 as [<-|Hr0].
        + destruct (Z_lt_le_dec q (r_origin newr)) as [Hlt|Hge].
          * eexists. split; [simpl; left; reflexivity|]. simpl. repeat split; lia.
          * eexists. split; [simpl; right; apply in_or_app; right; left; reflexivity|].
            simpl. repeat split; lia.
        + apply (fun S => Lift2 _ _ S r0 q Hr0 Hc Hn).
          intros x Hx. simpl. right. apply in_app_or in Hx. apply in_or_app.
          destruct Hx as [Hx|Hx]; [left; exact Hx|right; right; exact Hx].
      - intros Hp. simpl. right. apply I3, Hp.
      - intros x Hx. destruct Hx as [<-|Hx]; [|apply I4; exact Hx]. simpl. lia. }
    (* untouched (including the unhandled partial overlaps) *)
    inversion H; subst.
    split; [|split; [|split]].
    + intros x Hx. simpl in Hx. destruct Hx as [<-|Hx]; [|apply Lift1; exact Hx].
      right. exists r. split; [left; reflexivity|apply piece_refl].
    + intros r0 q Hr0 Hc Hn. destruct Hr0 as [<-|Hr0].
      * exists r. split; [simpl; left; reflexivity|auto].
      * apply (Lift2 _ _ (Sub1 _) r0 q Hr0 Hc Hn).
    + intros Hp. simpl. right. apply I3, Hp.
    + exact I4.
Qed.

(* the runs appended by a pass are tails starting where the new stroke ends: a second pass leaves them alone *)
Lemma patch_pass_tails : forall newr a,
  1 <= r_length newr ->
  (forall x, In x a -> r_origin x = r_origin newr + r_length newr /\ 0 < r_length x) ->
  patch_pass newr a = (a, [], false).
Proof.
  intros newr a HL. induction a as [|x rest IH]; intros H; [reflexivity|].
  simpl. rewrite IH by (intros y Hy; apply H; right; exact Hy).
  destruct (H x (or_introl eq_refl)) as (Ho & Hlen).
  replace ((r_origin newr <=? r_origin x) && (r_origin x + r_length x <=? r_origin newr + r_length newr)) with false
    by (symmetry; apply andb_false_iff; right; apply Z.leb_gt; lia).
  replace ((r_origin newr =? r_origin x) && (r_length newr <? r_length x)) with false
    by (symmetry; apply andb_false_iff; left; apply Z.eqb_neq; lia).
  unfold in_range.
  replace ((r_origin x <=? r_origin newr) && (r_origin newr <? r_origin x + r_length x)) with false
    by (symmetry; apply andb_false_iff; left; apply Z.leb_gt; lia).
  reflexivity.
Qed.

Lemma patch_loop_eq : forall newr rs m a p,
  1 <= r_length newr -> patch_pass newr rs = (m, a, p) ->
  exists m', patch_loop 2 newr rs = (m', p) /\ forall x, In x m' <-> In x (m ++ a).
Proof.
  intros newr rs m a p HL H.
  destruct (patch_pass_props newr rs m a p HL H) as (_ & _ & _ & P4).
  unfold patch_loop. rewrite H. destruct a as [|x a'].
  - exists m. split; [reflexivity|]. intros y. rewrite app_nil_r. tauto.
  - fold patch_loop. rewrite (patch_pass_tails newr (x :: a') HL P4).
    exists (m ++ x :: a'). split; [rewrite orb_false_r; reflexivity|]. tauto.
Qed.

(* ---------- the sort ---------- *)
Lemma insert_run_in : forall r rs x, In x (insert_run r rs) <-> x = r \/ In x rs.
Proof.
  intros r rs. induction rs as [|y rest IH]; intros x; simpl.
  - split; [intros [<-|[]]; left; reflexivity|intros [->|[]]; left; reflexivity].
  - destruct (r_origin r <=? r_origin y); simpl.
    + split; [intros [<-|H]; [left; reflexivity|right; exact H]|intros [->|H]; [left; reflexivity|right; exact H]].
    + rewrite IH. split; [intros [H|[H|H]]; auto|intros [H|[H|H]]; auto].
Qed.

Lemma sort_runs_in : forall rs x, In x (stable_sort rs) <-> In x rs.
Proof.
  unfold stable_sort. induction rs as [|r rest IH]; intros x; simpl; [tauto|].
  rewrite insert_run_in, IH. split; [intros [->|H]; auto|intros [<-|H]; auto].
Qed.

Fixpoint sorted_by_origin (rs : list run) : Prop :=
  match rs with
  | [] => True
  | x :: rest => (forall y, In y rest -> r_origin x <= r_origin y) /\ sorted_by_origin rest
  end.

Lemma insert_run_sorted : forall r rs, sorted_by_origin rs -> sorted_by_origin (insert_run r rs).
Proof.
  intros r rs. induction rs as [|y rest IH]; intros H; simpl.
  - split; [intros ? []|exact I].
  - destruct H as (Hy & Hrest). destruct (r_origin r <=? r_origin y) eqn:E.
    + apply Z.leb_le in E. split; [|split; assumption].
      intros z [<-|Hz]; [exact E|specialize (Hy z Hz); lia].
    + apply Z.leb_gt in E. split; [|apply IH; exact Hrest].
      intros z Hz. apply insert_run_in in Hz. destruct Hz as [->|Hz]; [lia|apply Hy; exact Hz].
Qed.

Lemma sort_runs_sorted : forall rs, sorted_by_origin (stable_sort rs).
Proof.
  unfold stable_sort. induction rs as [|r rest IH]; simpl; [exact I|apply insert_run_sorted; exact IH].
Qed.

(* ---------- the whole patch ---------- *)
Lemma patch_layer_props : forall newr rs,
  1 <= r_length newr ->
  (forall x, In x (patch_layer newr rs) -> x = newr \/ exists r, In r rs /\ piece_of r x) /\
  (forall r q, In r rs -> covers r q -> ~ in_new newr q ->
               exists x, In x (patch_layer newr rs) /\ covers x q /\ r_order x = r_order r /\ r_attrs x = r_attrs r) /\
  In newr (patch_layer newr rs).
Proof.
  intros newr rs HL. unfold patch_layer.
  destruct (patch_pass newr rs) as [[m a] p] eqn:E.
  destruct (patch_pass_props newr rs m a p HL E) as (P1 & P2 & P3 & _).
  destruct (patch_loop_eq newr rs m a p HL E) as (m' & -> & Hin).
  split; [|split].
  - intros x Hx. apply (proj1 (sort_runs_in _ _)) in Hx. destruct p.
    + apply P1. apply (proj1 (Hin x)). exact Hx.
    + apply in_app_or in Hx. destruct Hx as [Hx|[<-|[]]]; [|left; reflexivity].
      apply P1. apply (proj1 (Hin x)). exact Hx.
  - intros r q Hr Hc Hn. destruct (P2 r q Hr Hc Hn) as (x & Hx & Hrest). exists x.
    split; [|exact Hrest]. apply (proj2 (sort_runs_in _ _)).
    destruct p; [apply (proj2 (Hin x)); exact Hx|apply in_or_app; left; apply (proj2 (Hin x)); exact Hx].
  - apply (proj2 (sort_runs_in _ _)). destruct p.
    + apply (proj2 (Hin newr)). apply in_or_app. left. apply P3. reflexivity.
    + apply in_or_app. right. left. reflexivity.
Qed.

Definition g_update (g : gline) (newr : run) : gline :=
  fun p => if (r_origin newr <=? p) && (p <? r_origin newr + r_length newr)
           then Some (r_order newr, r_attrs newr) else g p.

Lemma layer_ok_mono : forall M M' rs g, M <= M' -> layer_ok M rs g -> layer_ok M' rs g.
Proof.
  intros M M' rs g HM (H1 & H2). split; [|exact H2]. intros r Hr. specialize (H1 r Hr). lia.
Qed.

Lemma layer_ok_nil_none : forall M g, layer_ok M [] g -> forall p, g p = None.
Proof.
  intros M g (_ & H) p. specialize (H p). destruct (g p) as [[k a]|]; [|reflexivity].
  destruct H as ((r & [] & _) & _).
Qed.

Lemma layer_ok_nil : forall M, layer_ok M [] (fun _ => None).
Proof. intros M. split; [intros ? []|intros p r []]. Qed.

(* patch_inv: a stroke stamped above every order in the layer leaves the layer consistent *)
Theorem patch_layer_ok : forall M rs g newr,
  layer_ok M rs g -> 1 <= r_length newr -> r_order newr = M + 1 ->
  layer_ok (M + 1) (patch_layer newr rs) (g_update g newr).
Proof.
  intros M rs g newr (HB & HG) HL HO.
  destruct (patch_layer_props newr rs HL) as (Q1 & Q2 & Q3).
  split.
  - intros x Hx. destruct (Q1 x Hx) as [->|(r & Hr & (Ho & _))]; [lia|]. rewrite Ho. specialize (HB r Hr). lia.
  - intros p. unfold g_update.
    destruct ((r_origin newr <=? p) && (p <? r_origin newr + r_length newr)) eqn:E.
    + apply andb_true_iff in E. destruct E as (E1 & E2). apply Z.leb_le in E1. apply Z.ltb_lt in E2.
      split.
      * exists newr. split; [exact Q3|]. split; [unfold covers; lia|]. split; reflexivity.
      * intros x Hx Hc. destruct (Q1 x Hx) as [->|(r & Hr & (Ho & _))]; [right; split; reflexivity|].
        left. rewrite Ho. specialize (HB r Hr). lia.
    + assert (Hn : ~ in_new newr p).
      { unfold in_new, covers. intros (A & B). apply andb_false_iff in E.
        destruct E as [E|E]; [apply Z.leb_gt in E|apply Z.ltb_ge in E]; lia. }
      specialize (HG p). destruct (g p) as [[k a]|].
      * destruct HG as ((r & Hr & Hc & Ho & Ha) & Hall). split.
        -- destruct (Q2 r p Hr Hc Hn) as (x & Hx & Hcx & Hox & Hax). exists x. split; [exact Hx|split; [exact Hcx|split; congruence]].
        -- intros x Hx Hcx. destruct (Q1 x Hx) as [->|(r0 & Hr0 & (Ho0 & Ha0 & Hp0))]; [contradiction|].
           rewrite Ho0, Ha0. apply Hall; [exact Hr0|apply Hp0; exact Hcx].
      * intros x Hx Hcx. destruct (Q1 x Hx) as [->|(r0 & Hr0 & (_ & _ & Hp0))]; [contradiction|].
        apply (HG r0 Hr0). apply Hp0. exact Hcx.
Qed.

Theorem patch_layer_sorted : forall newr rs, sorted_by_origin (patch_layer newr rs).
Proof.
  intros newr rs. unfold patch_layer. destruct (patch_loop 2 newr rs) as [m p]. apply sort_runs_sorted.
Qed.

(* a first layer for an index: the single new run *)
Lemma single_layer_ok : forall M g newr,
  (forall p, g p = None) -> 1 <= r_length newr -> r_order newr = M + 1 ->
  layer_ok (M + 1) [newr] (g_update g newr).
Proof.
  intros M g newr Hg HL HO. split.
  - intros r [<-|[]]. lia.
  - intros p. unfold g_update.
    destruct ((r_origin newr <=? p) && (p <? r_origin newr + r_length newr)) eqn:E.
    + apply andb_true_iff in E. destruct E as (E1 & E2). apply Z.leb_le in E1. apply Z.ltb_lt in E2.
      split.
      * exists newr. split; [left; reflexivity|]. split; [unfold covers; lia|]. split; reflexivity.
      * intros r [<-|[]] _. right; split; reflexivity.
    + rewrite Hg. intros r [<-|[]] (A & B). apply andb_false_iff in E.
      destruct E as [E|E]; [apply Z.leb_gt in E|apply Z.ltb_ge in E]; lia.
Qed.
