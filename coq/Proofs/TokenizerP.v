(* Proofs about Model/Tokenizer.v: conservation of text (losslessness), progress
   (fuel), totality, atomicity of quoted tokens, independence of the repair. *)
From Coq Require Import List Arith NArith Bool Lia.
From NP Require Import Model.PyBase Model.Tokenizer.
Import ListNotations.
Open Scope N_scope.

Ltac inv H := inversion H; subst; clear H.

(* ------------------------------------------------------------------ basics *)
Lemma dropN_firstn n (s : list N) : firstn n s ++ dropN n s = s.
Proof. revert s; induction n as [|n IH]; intros [|c r]; cbn; auto. now rewrite IH. Qed.
Lemma length_dropN n (s : list N) : length (dropN n s) = (length s - n)%nat.
Proof. revert s; induction n as [|n IH]; intros [|c r]; cbn; auto. Qed.
Lemma dropN_skipn n (s : list N) : dropN n s = skipn n s.
Proof. revert s; induction n as [|n IH]; intros [|c r]; cbn; auto. Qed.

Lemma prefix_firstn p s : prefix p s = true -> firstn (length p) s = p.
Proof.
  revert s; induction p as [|x p IH]; intros [|y s]; cbn; auto; try discriminate.
  intros H. apply andb_prop in H as [H1 H2]. apply N.eqb_eq in H1. subst. now rewrite IH.
Qed.

Lemma mem_In c l : mem c l = true <-> In c l.
Proof.
  induction l as [|x l IH]; cbn; [split; [discriminate|tauto]|].
  rewrite orb_true_iff, N.eqb_eq, IH. split; intros [H|H]; auto.
Qed.

Lemma operators_flush c : mem c operators = true -> mem c enders = true.
Proof.
  intros H. apply mem_In in H. apply mem_In.
  assert (F : forallb (fun c => mem c enders) operators = true) by (vm_compute; reflexivity).
  rewrite forallb_forall in F. apply mem_In. auto.
Qed.

(* ------------------------------------------------------------------ conservation of text *)
Definition flat_items (its : list token) : list N := concat (map tval (rev its)).
Definition flat (s : st) : list N := flat_items (items s) ++ rev (tokbuf s).

Lemma flat_items_cons t its : flat_items (t :: its) = flat_items its ++ tval t.
Proof. unfold flat_items. cbn [rev]. rewrite map_app, concat_app. cbn. now rewrite app_nil_r. Qed.

Section Generic.
  Variable isnum : list N -> bool.
  Variable pop_exn : pyexn.
  Notation make_operand := (make_operand isnum).
  Notation save_token := (save_token isnum).
  Notation step := (step isnum pop_exn).
  Notation run := (run isnum pop_exn).

  Lemma make_operand_val v : tval (make_operand v) = v.
  Proof.
    unfold Tokenizer.make_operand. destruct v as [|c r]; auto.
    destruct (c =? DQ); auto. destruct (c =? HASH); auto. destruct (_ || _); auto.
  Qed.
  Lemma make_operand_ty v : tty (make_operand v) = OPERAND.
  Proof.
    unfold Tokenizer.make_operand. destruct v as [|c r]; auto.
    destruct (c =? DQ); auto. destruct (c =? HASH); auto. destruct (_ || _); auto.
  Qed.

  Lemma flat_save s : flat (save_token s) = flat s.
  Proof.
    unfold Tokenizer.save_token, flat. destruct (tokbuf s) as [|c b] eqn:E; [now rewrite E|].
    cbn [items tokbuf]. rewrite flat_items_cons, make_operand_val. cbn [rev]. now rewrite app_nil_r.
  Qed.
  Lemma tokbuf_save s : tokbuf (save_token s) = [].
  Proof. unfold Tokenizer.save_token. destruct (tokbuf s) eqn:E; auto. Qed.
  Lemma stack_save s : stack (save_token s) = stack s.
  Proof. unfold Tokenizer.save_token. destruct (tokbuf s) eqn:E; auto. Qed.

  Lemma flat_push s t : tokbuf s = [] -> flat (push_item s t) = flat s ++ tval t.
  Proof.
    intros E. unfold flat, push_item; cbn [items tokbuf]. rewrite flat_items_cons, E. cbn. now rewrite !app_nil_r.
  Qed.

  (* every step moves text from the input to the state, unchanged *)
  Lemma step_conserves s inp s' m :
    step s inp = Ok (s', m) -> flat s' ++ dropN (N.to_nat m) inp = flat s ++ inp.
  Proof.
    unfold Tokenizer.step. destruct inp as [|c rest]; [discriminate|].
    destruct (mem c [PLUS; MINUS] && _ && _).
    { intros H; inv H. unfold flat; cbn [items tokbuf rev]. change (N.to_nat 1) with 1%nat. cbn [dropN].
      now rewrite <- !app_assoc. }
    destruct (mem c enders) eqn:Een.
    - (* a token ender: the pending operand is flushed first *)
      rewrite <- (flat_save s). pose proof (tokbuf_save s) as Eb. set (s1 := save_token s) in *. clearbody s1.
      destruct ((c =? DQ) || (c =? SQ)) eqn:Eq.
      { exfalso. apply orb_prop in Eq as [Eq|Eq]; apply N.eqb_eq in Eq; subst; vm_compute in Een; discriminate. }
      destruct (c =? HASH) eqn:Eh. { exfalso. apply N.eqb_eq in Eh; subst; vm_compute in Een; discriminate. }
      destruct (mem c operators).
      { destruct rest as [|c2 r2]; [destruct (mem c short_two)|destruct (_ || _ || _)]; intros H; inv H;
          rewrite flat_push by auto; cbn [tval]; rewrite <- app_assoc; reflexivity. }
      destruct (c =? LB) eqn:E1. { exfalso. apply N.eqb_eq in E1; subst; vm_compute in Een; discriminate. }
      destruct (c =? LP) eqn:E2. { exfalso. apply N.eqb_eq in E2; subst; vm_compute in Een; discriminate. }
      destruct ((c =? RP) || (c =? RB)).
      { destruct (stack s1) as [|o stk]; [discriminate|]. destruct (_ =? c) eqn:Ec; [|discriminate]. apply N.eqb_eq in Ec.
        intros H; inv H. unfold flat; cbn [items tokbuf]. rewrite flat_items_cons, Eb. cbn [tval rev]. rewrite !app_nil_r, <- app_assoc.
        reflexivity. }
      destruct (c =? SEMI) eqn:E3.
      { intros H; inv H. rewrite flat_push by auto. cbn [tval]. apply N.eqb_eq in E3. subst. now rewrite <- app_assoc. }
      destruct (c =? COMMA) eqn:E4.
      { intros H; inv H. rewrite flat_push by auto. apply N.eqb_eq in E4. subst.
        destruct (stack s1) as [|top ?]; [|destruct (ty_eqb _ _)]; cbn [tval]; now rewrite <- app_assoc. }
      intros H; inv H. unfold flat; cbn [items tokbuf rev]. now rewrite <- !app_assoc.
    - (* not an ender *)
      destruct ((c =? DQ) || (c =? SQ)).
      { destruct (tokbuf s) eqn:Eb; [|discriminate].
        destruct (if c =? DQ then match_dq (c :: rest) else match_sq (c :: rest)) as [k|]; [|discriminate].
        intros H; inv H. rewrite flat_push by auto. rewrite make_operand_val, <- app_assoc.
        now rewrite dropN_firstn. }
      destruct (c =? HASH).
      { destruct (tokbuf s) eqn:Eb; [|discriminate].
        destruct (find _ error_codes) as [e|] eqn:Ef; [|discriminate].
        intros H; inv H. rewrite flat_push by auto. rewrite make_operand_val, <- app_assoc, Nnat.Nat2N.id.
        apply find_some in Ef as [_ Ef]. rewrite <- (prefix_firstn e (c :: rest) Ef) at 1. now rewrite dropN_firstn. }
      destruct (mem c operators) eqn:Eo. { apply operators_flush in Eo. congruence. }
      destruct (c =? LB) eqn:E1.
      { destruct (tokbuf s) eqn:Eb; [|discriminate]. intros H; inv H. apply N.eqb_eq in E1; subst.
        unfold flat; cbn [items tokbuf]. rewrite flat_items_cons, Eb. cbn. now rewrite !app_nil_r, <- app_assoc. }
      destruct (c =? LP) eqn:E2.
      { intros H; inv H. apply N.eqb_eq in E2; subst. unfold flat; cbn [items tokbuf]. rewrite flat_items_cons.
        destruct (tokbuf s) as [|b0 b]; cbn [tval rev]; rewrite ?app_nil_r, <- ?app_assoc; reflexivity. }
      destruct ((c =? RP) || (c =? RB)) eqn:E3.
      { exfalso. apply orb_prop in E3 as [E3|E3]; apply N.eqb_eq in E3; subst; vm_compute in Een; discriminate. }
      destruct (c =? SEMI) eqn:E4. { exfalso. apply N.eqb_eq in E4; subst; vm_compute in Een; discriminate. }
      destruct (c =? COMMA) eqn:E5. { exfalso. apply N.eqb_eq in E5; subst; vm_compute in Een; discriminate. }
      intros H; inv H. unfold flat; cbn [items tokbuf rev]. now rewrite <- !app_assoc.
  Qed.

  Lemma run_nil fuel s : run fuel s [] = Ok (rev (items (save_token s))).
  Proof. destruct fuel; reflexivity. Qed.
  Lemma run_S fuel s c rest :
    run (S fuel) s (c :: rest) =
    match step s (c :: rest) with
    | Ok (s', m) => run fuel s' (dropN (N.to_nat m) (c :: rest))
    | Err e => Err e
    end.
  Proof. reflexivity. Qed.

  Lemma final_flat s : concat (map tval (rev (items (save_token s)))) = flat s.
  Proof.
    fold (flat_items (items (save_token s))). rewrite <- (flat_save s). unfold flat.
    now rewrite tokbuf_save, app_nil_r.
  Qed.

  Theorem run_lossless : forall fuel s inp ts,
    run fuel s inp = Ok ts -> concat (map tval ts) = flat s ++ inp.
  Proof.
    induction fuel as [|f IH]; intros s inp ts H.
    - destruct inp; [|discriminate]. cbn in H. inv H. rewrite app_nil_r. apply final_flat.
    - destruct inp as [|c rest].
      + rewrite run_nil in H. inv H. rewrite app_nil_r. apply final_flat.
      + rewrite run_S in H. destruct (step s (c :: rest)) as [[s' m]|e] eqn:E; try discriminate.
        rewrite (IH _ _ _ H). now apply step_conserves.
  Qed.

  (* ---------------------------------------------------------------- progress *)
  Lemma dq_body_pos s : forall n k, dq_body s n = Some k -> n < k.
  Proof.
    induction s as [s IH] using (well_founded_induction (Wf_nat.well_founded_ltof _ (@length N))).
    intros n k H. destruct s as [|c r]; [discriminate|]. cbn in H. destruct (c =? DQ).
    - destruct r as [|c2 r2]; [inv H; lia|]. destruct (c2 =? DQ); [|inv H; lia].
      apply IH in H; [lia|]. unfold ltof; cbn; lia.
    - apply IH in H; [lia|]. unfold ltof; cbn; lia.
  Qed.
  Lemma sq_body_pos s : forall n k, sq_body s n = Some k -> n < k.
  Proof.
    induction s as [s IH] using (well_founded_induction (Wf_nat.well_founded_ltof _ (@length N))).
    intros n k H. destruct s as [|c r]; [discriminate|]. cbn in H. destruct (c =? SQ).
    - destruct r as [|c2 r2]; [inv H; lia|]. destruct (c2 =? SQ); [|inv H; lia].
      destruct (sq_body r2 (n + 2)) eqn:E; inv H; [|lia].
      apply IH in E; [lia|]. unfold ltof; cbn; lia.
    - apply IH in H; [lia|]. unfold ltof; cbn; lia.
  Qed.
  Lemma skip_ws_ge s : forall n s1 n1, skip_ws s n = (s1, n1) -> n <= n1.
  Proof.
    induction s as [|c r IH]; intros n s1 n1 E; cbn in E; [inv E; lia|].
    destruct (is_space c); [apply IH in E; lia|inv E; lia].
  Qed.
  Lemma sq_cont_ge fuel : forall s n, n <= sq_cont fuel s n.
  Proof.
    induction fuel as [|f IH]; intros s n; cbn [sq_cont]; [lia|].
    destruct (skip_ws s n) as [s1 n1] eqn:E1. apply skip_ws_ge in E1.
    destruct s1 as [|c r]; [lia|]. destruct (c =? COLON); [|lia].
    destruct (skip_ws r (n1 + 1)) as [s2 n2] eqn:E2. apply skip_ws_ge in E2.
    destruct (match_name s2) as [k|]; [|lia]. specialize (IH (dropN (N.to_nat k) s2) (n2 + k)). lia.
  Qed.
  Lemma match_dq_pos s k : match_dq s = Some k -> 2 <= k.
  Proof.
    unfold match_dq. destruct s as [|c r]; [discriminate|]. destruct (c =? DQ); [|discriminate].
    intros H. apply dq_body_pos in H. lia.
  Qed.
  Lemma match_name_pos s k : match_name s = Some k -> 2 <= k.
  Proof.
    unfold match_name. destruct s as [|c r]; [discriminate|]. destruct (c =? SQ); [|discriminate].
    intros H. apply sq_body_pos in H. lia.
  Qed.
  Lemma match_sq_pos s k : match_sq s = Some k -> 2 <= k.
  Proof.
    unfold match_sq. destruct (match_name s) as [k0|] eqn:E0; [|discriminate]. intros H; inv H.
    apply match_name_pos in E0. pose proof (sq_cont_ge (length s) (dropN (N.to_nat k0) s) k0). lia.
  Qed.

  Lemma step_consumes s inp s' m : step s inp = Ok (s', m) -> 1 <= m.
  Proof.
    unfold Tokenizer.step. destruct inp as [|c rest]; [discriminate|].
    destruct (mem c [PLUS; MINUS] && _ && _); [intros H; inv H; lia|].
    set (s1 := if mem c enders then save_token s else s). clearbody s1.
    destruct ((c =? DQ) || (c =? SQ)).
    { destruct (tokbuf s1); [|discriminate]. destruct (c =? DQ) eqn:E.
      - destruct (match_dq (c :: rest)) as [k|] eqn:Ek; [|discriminate]. intros H; inv H.
        apply match_dq_pos in Ek. lia.
      - destruct (match_sq (c :: rest)) as [k|] eqn:Ek; [|discriminate]. intros H; inv H.
        apply match_sq_pos in Ek. lia. }
    destruct (c =? HASH).
    { destruct (tokbuf s1); [|discriminate]. destruct (find _ error_codes) as [e|] eqn:Ef; [|discriminate].
      intros H; inv H. apply find_some in Ef as [Hin _].
      assert (F : forallb (fun e : list N => Nat.leb 1 (length e)) error_codes = true) by (vm_compute; reflexivity).
      rewrite forallb_forall in F. specialize (F _ Hin). apply Nat.leb_le in F. lia. }
    destruct (mem c operators).
    { destruct rest as [|c2 r2]; [destruct (mem c short_two)|destruct (_ || _ || _)]; intros H; inv H; lia. }
    destruct (c =? LB). { destruct (tokbuf s1); [|discriminate]. intros H; inv H; lia. }
    destruct (c =? LP). { intros H; inv H; lia. }
    destruct ((c =? RP) || (c =? RB)).
    { destruct (stack s1); [discriminate|]. destruct (_ =? c); [|discriminate]. intros H; inv H; lia. }
    destruct (c =? SEMI). { intros H; inv H; lia. }
    destruct (c =? COMMA). { intros H; inv H; lia. }
    intros H; inv H; lia.
  Qed.

  (* the only exceptions a step can raise *)
  Lemma step_err s c rest e : step s (c :: rest) = Err e -> e = TokenizerError \/ e = pop_exn.
  Proof.
    unfold Tokenizer.step.
    destruct (mem c [PLUS; MINUS] && _ && _); [discriminate|].
    set (s1 := if mem c enders then save_token s else s). clearbody s1.
    destruct ((c =? DQ) || (c =? SQ)).
    { destruct (tokbuf s1); [|intros H; inv H; auto].
      destruct (if c =? DQ then _ else _); [discriminate|intros H; inv H; auto]. }
    destruct (c =? HASH).
    { destruct (tokbuf s1); [|intros H; inv H; auto]. destruct (find _ error_codes); [discriminate|intros H; inv H; auto]. }
    destruct (mem c operators).
    { destruct rest as [|c2 r2]; [destruct (mem c short_two)|destruct (_ || _ || _)]; discriminate. }
    destruct (c =? LB). { destruct (tokbuf s1); [discriminate|intros H; inv H; auto]. }
    destruct (c =? LP); [discriminate|].
    destruct ((c =? RP) || (c =? RB)).
    { destruct (stack s1); [intros H; inv H; auto|]. destruct (_ =? c); [discriminate|intros H; inv H; auto]. }
    destruct (c =? SEMI); [discriminate|]. destruct (c =? COMMA); discriminate.
  Qed.

  Theorem run_result : forall fuel s inp, (length inp < fuel)%nat ->
    (exists ts, run fuel s inp = Ok ts) \/ run fuel s inp = Err TokenizerError \/ run fuel s inp = Err pop_exn.
  Proof.
    induction fuel as [|f IH]; intros s inp Hl; [lia|].
    destruct inp as [|c rest]; [left; eexists; apply run_nil|].
    rewrite run_S. destruct (step s (c :: rest)) as [[s' m]|e] eqn:E.
    - apply IH. apply step_consumes in E. rewrite length_dropN. cbn [length] in *. lia.
    - apply step_err in E as [->| ->]; auto.
  Qed.

  (* any fuel above the input length gives the same answer *)
  Theorem run_fuel_irrelevant : forall f1 f2 s inp, (length inp < f1)%nat -> (length inp < f2)%nat ->
    run f1 s inp = run f2 s inp.
  Proof.
    induction f1 as [|f1 IH]; intros f2 s inp H1 H2; [lia|].
    destruct f2 as [|f2]; [lia|].
    destruct inp as [|c rest]; [now rewrite !run_nil|].
    rewrite !run_S. destruct (step s (c :: rest)) as [[s' m]|e] eqn:E; auto.
    apply step_consumes in E. apply IH; rewrite length_dropN; cbn [length] in *; lia.
  Qed.
End Generic.

(* ------------------------------------------------------------------ the scanner fuel of match_sq is enough *)
Lemma skip_ws_len s : forall n s1 n1, skip_ws s n = (s1, n1) -> (length s1 <= length s)%nat.
Proof.
  induction s as [|c r IH]; intros n s1 n1 E; cbn in E; [inv E; cbn; lia|].
  destruct (is_space c); [apply IH in E; cbn; lia|inv E; cbn; lia].
Qed.
Lemma sq_cont_fuel : forall f1 f2 s n, (length s <= f1)%nat -> (length s <= f2)%nat -> sq_cont f1 s n = sq_cont f2 s n.
Proof.
  induction f1 as [|f1 IH]; intros f2 s n H1 H2.
  - destruct s; [|cbn in H1; lia]. destruct f2; reflexivity.
  - destruct f2 as [|f2]; [destruct s; [reflexivity|cbn in H2; lia]|].
    cbn [sq_cont]. destruct (skip_ws s n) as [s1 n1] eqn:E1. pose proof (skip_ws_len _ _ _ _ E1) as L1.
    destruct s1 as [|c r]; auto. destruct (c =? COLON); auto.
    destruct (skip_ws r (n1 + 1)) as [s2 n2] eqn:E2. pose proof (skip_ws_len _ _ _ _ E2) as L2.
    destruct (match_name s2) as [k|]; auto.
    apply IH; rewrite length_dropN; cbn [length] in *; lia.
Qed.

(* ------------------------------------------------------------------ the repaired and the pinned tokenizer *)
Theorem tok_lossless_lemma s ts : tokenize s = Ok ts -> concat (map tval ts) = s.
Proof. intros H. apply run_lossless in H. exact H. Qed.
Theorem tok_pinned_lossless_lemma s ts : tokenize_pinned s = Ok ts -> concat (map tval ts) = s.
Proof. intros H. apply run_lossless in H. exact H. Qed.

Theorem tok_total_lemma s : (exists ts, tokenize s = Ok ts) \/ tokenize s = Err TokenizerError.
Proof.
  destruct (run_result py_float_ok TokenizerError (S (length s)) st0 s) as [H|[H|H]]; auto.
Qed.

Theorem tok_fuel_lemma s fuel : (length s < fuel)%nat ->
  run py_float_ok TokenizerError fuel st0 s = tokenize s /\ tokenize s <> Err OutOfFuel.
Proof.
  intros H. split.
  - apply run_fuel_irrelevant; auto.
  - destruct (tok_total_lemma s) as [[ts E]|E]; rewrite E; discriminate.
Qed.

(* the model is generic in the float() oracle: totality, losslessness for any isnum *)
Theorem tok_total_any_float isnum s :
  (exists ts, tokenize_gen isnum TokenizerError s = Ok ts) \/ tokenize_gen isnum TokenizerError s = Err TokenizerError.
Proof.
  destruct (run_result isnum TokenizerError (S (length s)) st0 s) as [H|[H|H]]; auto.
Qed.
Theorem tok_lossless_any_float isnum e s ts : tokenize_gen isnum e s = Ok ts -> concat (map tval ts) = s.
Proof. intros H. apply run_lossless in H. exact H. Qed.

(* the pinned code: list.pop() on the empty stack escapes *)
Lemma tok_pinned_crash : tokenize_pinned [RP] = Err PopEmpty /\ tokenize_pinned [RB] = Err PopEmpty.
Proof. split; vm_compute; reflexivity. Qed.

(* the repair changes nothing except the exception raised at an unmatched closer *)
Lemma step_repair s inp :
  step py_float_ok PopEmpty s inp = step py_float_ok TokenizerError s inp \/
  (step py_float_ok PopEmpty s inp = Err PopEmpty /\ step py_float_ok TokenizerError s inp = Err TokenizerError).
Proof.
  unfold step. destruct inp as [|c rest]; auto.
  destruct (mem c [PLUS; MINUS] && _ && _); auto.
  set (s1 := if mem c enders then save_token py_float_ok s else s). clearbody s1.
  destruct ((c =? DQ) || (c =? SQ)); auto. destruct (c =? HASH); auto. destruct (mem c operators); auto.
  destruct (c =? LB); auto. destruct (c =? LP); auto.
  destruct ((c =? RP) || (c =? RB)); auto. destruct (stack s1); auto.
Qed.
Lemma run_repair : forall fuel s inp,
  run py_float_ok PopEmpty fuel s inp = run py_float_ok TokenizerError fuel s inp \/
  (run py_float_ok PopEmpty fuel s inp = Err PopEmpty /\ run py_float_ok TokenizerError fuel s inp = Err TokenizerError).
Proof.
  induction fuel as [|f IH]; intros s inp.
  - destruct inp; auto.
  - destruct inp as [|c rest]; [rewrite !run_nil; auto|]. rewrite !run_S.
    destruct (step_repair s (c :: rest)) as [E|[E1 E2]].
    + rewrite E. destruct (step py_float_ok TokenizerError s (c :: rest)) as [[s' m]|e]; auto.
    + rewrite E1, E2. auto.
Qed.
Theorem repair_only_changes_exception_lemma s :
  tokenize_pinned s = tokenize s \/ (tokenize_pinned s = Err PopEmpty /\ tokenize s = Err TokenizerError).
Proof. apply run_repair. Qed.

Lemma tok_total_pinned_refuted_lemma : exists s, tokenize_pinned s = Err PopEmpty.
Proof. exists [RP]. exact (proj1 tok_pinned_crash). Qed.

(* the pinned tree outside the defect's signature *)
Theorem tok_total_pinned_partial_lemma s :
  tokenize_pinned s <> Err PopEmpty ->
  (exists ts, tokenize_pinned s = Ok ts) \/ tokenize_pinned s = Err TokenizerError.
Proof.
  intros H. destruct (repair_only_changes_exception_lemma s) as [E|[E _]]; [|contradiction].
  rewrite E. apply tok_total_lemma.
Qed.
