(* Seconds <-> binary64, Flocq.  Dates and durations are stored as a binary64 number of seconds:
     write:  float(td.total_seconds())      - one correctly rounded division of the microsecond count by 10^6
     read:   timedelta(seconds=f)           - exact split into whole seconds and fraction, fraction * 10^6
                                              in binary64, round-half-even to microseconds
   Depends on the standard library's real-number axioms and classical logic through Flocq/Reals. *)
From Coq Require Import ZArith Reals Lra Lia Psatz.
From Flocq Require Import Core.
Open Scope R_scope.

Definition fexp := FLT_exp (-1074) 53.
Definition RN := round radix2 fexp ZnearestE.
Notation ulp := (ulp radix2 fexp).
Local Instance prec_gt_0_53 : Prec_gt_0 53. Proof. reflexivity. Qed.
Local Instance fexp_valid : Valid_exp fexp := FLT_exp_valid (-1074) 53.
Local Instance fexp_mono : Monotone_exp fexp := FLT_exp_monotone (-1074) 53.

Lemma int_format (q:Z) : (Z.abs q < 2^53)%Z -> generic_format radix2 fexp (IZR q).
Proof.
  intros H. apply generic_format_FLT. exists (Float radix2 q 0).
  - unfold F2R; simpl. ring.
  - simpl. exact H.
  - simpl. lia.
Qed.

(* whole seconds (all datetimes of years 1..9999 and all durations at second resolution) are exact *)
Theorem seconds_roundtrip_lemma (n : Z) : (Z.abs n < 2^53)%Z -> RN (IZR n) = IZR n /\ Zfloor (RN (IZR n)) = n.
Proof.
  intros H. assert (E : RN (IZR n) = IZR n).
  { unfold RN. apply round_generic; auto with typeclass_instances. now apply int_format. }
  split; [exact E|]. rewrite E. apply Zfloor_IZR.
Qed.

Lemma half_ulp_le (x:R) (e:Z) : Rabs x <= bpow radix2 e -> /2 * ulp x <= /2 * bpow radix2 (fexp (e+1)).
Proof.
  intros H. apply Rmult_le_compat_l; [lra|].
  rewrite <- ulp_bpow. apply ulp_le; auto with typeclass_instances.
  rewrite (Rabs_pos_eq (bpow radix2 e)); [exact H|apply bpow_ge_0].
Qed.

(* u microseconds, 0 <= u < 2^32 * 10^6 (136 years): written as seconds, read back as CPython's timedelta(seconds=float) does *)
Theorem micros_roundtrip_nonneg_lemma (u:Z) : (0 <= u < 2^32 * 10^6)%Z ->
  let f := RN (IZR u / 1000000) in
  let q := Zfloor f in
  let g := RN ((f - IZR q) * 1000000) in
  (q * 10^6 + ZnearestE g)%Z = u.
Proof.
  intros Hu f q g.
  set (Q := (u / 10^6)%Z). set (r := (u mod 10^6)%Z).
  assert (Hqr : u = (Q * 10^6 + r)%Z) by (unfold Q, r; rewrite Z.mul_comm; apply Z.div_mod; lia).
  assert (Hr : (0 <= r < 10^6)%Z) by (unfold r; apply Z.mod_pos_bound; lia).
  assert (HQ : (0 <= Q < 2^32)%Z).
  { unfold Q. split; [apply Z.div_pos; lia|]. apply Z.div_lt_upper_bound; lia. }
  assert (Hx : IZR u / 1000000 = IZR Q + IZR r / 1000000).
  { rewrite Hqr at 1. rewrite plus_IZR, mult_IZR. change (IZR (10^6)) with 1000000. field. }
  assert (HrR : 0 <= IZR r <= 999999).
  { split; [apply IZR_le; lia|]. apply IZR_le. lia. }
  assert (HQR : 0 <= IZR Q <= 4294967295).
  { split; [apply IZR_le; lia|]. apply IZR_le. lia. }
  assert (He1 : Rabs (f - IZR u / 1000000) <= /2 * bpow radix2 (-20)).
  { unfold f, RN. eapply Rle_trans; [apply error_le_half_ulp; auto with typeclass_instances|].
    change (-20)%Z with (fexp (32+1)). apply half_ulp_le.
    rewrite Hx. rewrite Rabs_pos_eq by lra. change (bpow radix2 32) with 4294967296. lra. }
  change (bpow radix2 (-20)) with (/ 1048576) in He1.
  apply Rabs_le_inv in He1.
  assert (Hge : IZR Q <= f).
  { unfold f, RN. apply round_ge_generic; auto with typeclass_instances.
    - apply int_format. lia.
    - rewrite Hx. lra. }
  assert (Hq : q = Q).
  { unfold q. apply Zfloor_imp. rewrite plus_IZR. split; [exact Hge|]. rewrite Hx in He1. lra. }
  set (y := (f - IZR q) * 1000000).
  assert (Hy : Rabs (y - IZR r) <= 48/100).
  { unfold y. rewrite Hq. rewrite Hx in He1. apply Rabs_le. lra. }
  assert (Hyb : Rabs y <= bpow radix2 20).
  { change (bpow radix2 20) with 1048576. apply Rabs_le_inv in Hy. apply Rabs_le. lra. }
  assert (He2 : Rabs (g - y) <= /2 * bpow radix2 (-32)).
  { unfold g, RN. fold y. eapply Rle_trans; [apply error_le_half_ulp; auto with typeclass_instances|].
    change (-32)%Z with (fexp (20+1)). apply half_ulp_le. exact Hyb. }
  change (bpow radix2 (-32)) with (/ 4294967296) in He2.
  assert (Hg : ZnearestE g = r).
  { apply Znearest_imp. apply Rabs_le_inv in Hy. apply Rabs_le_inv in He2. apply Rabs_lt. lra. }
  rewrite Hg, Hq. lia.
Qed.

(* ---------- both signs: timedelta(seconds=f) splits with modf (truncation towards zero) ---------- *)
Lemma RN_opp x : RN (- x) = - RN x.
Proof. unfold RN. apply round_NE_opp. Qed.

Lemma ZnearestE_opp x : ZnearestE (- x) = (- ZnearestE x)%Z.
Proof.
  rewrite Znearest_opp. f_equal. unfold Znearest.
  case Rcompare; trivial.
  apply (f_equal (fun (b : bool) => if b then Zceil x else Zfloor x)).
  rewrite Bool.negb_involutive, Z.even_opp, Z.even_add. now rewrite eqb_sym.
Qed.

Theorem micros_roundtrip_lemma (u : Z) : (Z.abs u < 2^32 * 10^6)%Z ->
  let f := RN (IZR u / 1000000) in
  let q := Ztrunc f in
  let g := RN ((f - IZR q) * 1000000) in
  (q * 10^6 + ZnearestE g)%Z = u.
Proof.
  intros Hu.
  destruct (Z_le_gt_dec 0 u) as [Hpos|Hneg].
  - intros f q g.
    assert (Hf0 : 0 <= f).
    { unfold f, RN. apply round_ge_generic; auto with typeclass_instances.
      - apply generic_format_0.
      - apply Rmult_le_pos; [apply IZR_le; lia|lra]. }
    assert (Hq : q = Zfloor f) by (unfold q; now apply Ztrunc_floor).
    pose proof (micros_roundtrip_nonneg_lemma u ltac:(lia)) as H. cbv zeta in H.
    unfold g. rewrite Hq. exact H.
  - intros f q g.
    set (v := (- u)%Z).
    pose proof (micros_roundtrip_nonneg_lemma v ltac:(unfold v; lia)) as H. cbv zeta in H.
    set (fv := RN (IZR v / 1000000)) in *.
    assert (Hfv0 : 0 <= fv).
    { unfold fv, RN. apply round_ge_generic; auto with typeclass_instances.
      - apply generic_format_0.
      - apply Rmult_le_pos; [apply IZR_le; unfold v; lia|lra]. }
    assert (Ef : f = - fv).
    { unfold f, fv. rewrite <- RN_opp. f_equal. unfold v. rewrite opp_IZR. field. }
    assert (Eq : q = (- Zfloor fv)%Z).
    { unfold q. rewrite Ef, Ztrunc_opp, Ztrunc_floor by assumption. reflexivity. }
    set (gv := RN ((fv - IZR (Zfloor fv)) * 1000000)) in *.
    assert (Eg : g = - gv).
    { unfold g, gv. rewrite <- RN_opp. f_equal. rewrite Ef, Eq, opp_IZR. ring. }
    rewrite Eg, ZnearestE_opp, Eq. unfold v in H. lia.
Qed.
