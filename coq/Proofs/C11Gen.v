(* C11 - tie between the regenerated translation of Table._validate_cell_coords (Gen/GenC11.v, rewritten from
   /repo's source on every run by tools/gen_c11.py) and the hand-written model Model/Grid.validate. *)
From Coq Require Import ZArith NArith List Bool Lia.
From NP Require Import Gen.GenConsts Gen.GenC11 Model.PyBase Model.Grid.
Import ListNotations.
Open Scope Z_scope.

(* number of iterations of Python's  for _ in range(start, stop)  *)
Definition range_len (p : Z * Z) : nat := Z.to_nat (snd p - fst p).

(* the model's validation IS the source's: same guards (as translated, for all integers), and on acceptance growth by
   exactly the iteration counts of the two source loops, rows first *)
Lemma gen_validate_is_model : forall t r c,
  validate t r c =
    if validate_rejects r c then Err IndexError
    else Ok (grow_cols (range_len (grow1_range (nrows t) (ncols t) r c))
              (grow_rows (range_len (grow0_range (nrows t) (ncols t) r c)) t)).
Proof.
  intros t r c. unfold validate, validate_rejects, range_len, grow0_range, grow1_range. cbn [fst snd].
  rewrite !Z.geb_leb.
  change GenConsts.MAX_ROW_COUNT with Grid.MAX_ROW_COUNT. change GenConsts.MAX_COL_COUNT with Grid.MAX_COL_COUNT.
  destruct (r <? 0), (c <? 0), (MAX_ROW_COUNT <=? r), (MAX_COL_COUNT <=? c); reflexivity.
Qed.

Lemma gen_validate_rejects_spec : forall r c,
  validate_rejects r c = true <-> (r < 0 \/ c < 0 \/ Grid.MAX_ROW_COUNT <= r \/ Grid.MAX_COL_COUNT <= c).
Proof.
  intros r c. unfold validate_rejects.
  change GenConsts.MAX_ROW_COUNT with Grid.MAX_ROW_COUNT. change GenConsts.MAX_COL_COUNT with Grid.MAX_COL_COUNT.
  rewrite !Z.geb_leb, !orb_true_iff, !Z.ltb_lt, !Z.leb_le. tauto.
Qed.

Definition s_write : str := [119;114;105;116;101]%N.
Definition s_set_cell_style : str := [115;101;116;95;99;101;108;108;95;115;116;121;108;101]%N.
Definition s_set_cell_border : str := [115;101;116;95;99;101;108;108;95;98;111;114;100;101;114]%N.
Definition s_set_cell_formatting : str := [115;101;116;95;99;101;108;108;95;102;111;114;109;97;116;116;105;110;103]%N.
Definition s_add_row : str := [97;100;100;95;114;111;119]%N.
Definition s_add_column : str := [97;100;100;95;99;111;108;117;109;110]%N.

Definition str_eqb (a b : str) : bool := if list_eq_dec N.eq_dec a b then true else false.

(* every guard raises IndexError; the loops call add_row then add_column; every *args method of Table other than cell()
   begins with the validation call, and the four position-taking writers are among them *)
Lemma gen_validate_shape :
  forallb (fun e => str_eqb e (exn_name IndexError)) guard_exceptions = true /\ guard_exceptions <> [] /\
  grow_calls = [s_add_row; s_add_column] /\
  forallb snd position_methods = true /\
  forallb (fun n => existsb (fun m => str_eqb (fst m) n) position_methods)
          [s_write; s_set_cell_style; s_set_cell_border; s_set_cell_formatting] = true.
Proof. repeat split; try (vm_compute; reflexivity). vm_compute. discriminate. Qed.
