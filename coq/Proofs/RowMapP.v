(* C06: every stored row is reported at the row index its own storage record declares
   (tileid * tile_size + tile_row_index); header records play no role; rows that store no cell, the order of
   tiles and of rowInfos are irrelevant.  The pinned mapping (header records counted) is refuted by the shape of
   tests/data/issue-66-collab.numbers: an empty row with a header record and no rowInfo. *)
From Coq Require Import ZArith NArith List Bool Lia Permutation.
From NP Require Import Model.PyBase Model.Assoc Model.TileCodec Model.RowMap Proofs.AssocP.
Import ListNotations.
Open Scope N_scope.

Lemma Neqb_spec' : forall a b : N, (a =? b) = true <-> a = b.
Proof. intros. apply N.eqb_eq. Qed.

Lemma number_from_keys : forall ks s, map fst (number_from s ks) = ks.
Proof. induction ks as [|k r IH]; intros s; cbn; [reflexivity|]. now rewrite IH. Qed.

Lemma number_from_nth : forall ks s p k, nth_error ks p = Some k -> In (k, s + N.of_nat p) (number_from s ks).
Proof.
  induction ks as [|k0 r IH]; intros s p k H; [destruct p; discriminate|].
  destruct p as [|p]; cbn [nth_error] in H; cbn [number_from].
  - injection H as ->. left. f_equal. lia.
  - right. replace (s + N.of_nat (S p)) with ((s + 1) + N.of_nat p) by lia. now apply IH.
Qed.

(* the two-step lookup (row -> running number -> storage buffer) lands on the row's own buffer *)
Lemma numbered_lookup : forall (rows : list (N * cells)) row cs, NoDup (map fst rows) -> In (row, cs) rows ->
  exists idx, aget N.eqb row (of_items (number_from 0 (map fst rows))) = Some idx /\
              nth_error (map snd rows) (N.to_nat idx) = Some cs.
Proof.
  intros rows row cs Hnd Hin. destruct (In_nth_error _ _ Hin) as [p Hp].
  exists (0 + N.of_nat p). split.
  - apply of_items_finds; [exact Neqb_spec'|now rewrite number_from_keys|].
    apply number_from_nth. now rewrite (map_nth_error fst p rows Hp).
  - replace (N.to_nat (0 + N.of_nat p)) with p by lia. now rewrite (map_nth_error snd p rows Hp).
Qed.

Lemma unnumbered_lookup : forall (rows : list (N * cells)) row, ~ In row (map fst rows) ->
  aget N.eqb row (of_items (number_from 0 (map fst rows))) = None.
Proof.
  intros rows row Hn. apply aget_none; [exact Neqb_spec'|]. unfold of_items. rewrite map_rev, number_from_keys.
  intros H. apply Hn. now apply in_rev.
Qed.

(* storage_buffer computes exactly what the storage records declare *)
Theorem storage_buffer_spec : forall t row col, NoDup (map fst (stored_rows t)) ->
  storage_buffer t row col =
  match aget N.eqb row (stored_rows t) with
  | Some cs => Ok (cell_at (Some cs) col)
  | None => if row <? nrows t then Ok None else Err KeyError
  end.
Proof.
  intros t row col Hnd. unfold storage_buffer, storage_buffer_with, row_storage_map, storage_buffers.
  destruct (aget N.eqb row (stored_rows t)) as [cs|] eqn:E.
  - apply aget_in in E; [|exact Neqb_spec']. destruct (numbered_lookup _ _ _ Hnd E) as (idx & H1 & H2).
    rewrite H1, H2. cbn [cell_at]. now destruct (nth_error cs col).
  - rewrite unnumbered_lookup; [reflexivity|]. intros Hin.
    destruct (aget_some_key N cells N.eqb Neqb_spec' _ _ Hin) as [v Hv]. rewrite Hv in E. discriminate.
Qed.

Lemma in_stored_rows : forall t tl r, In tl (tiles t) -> In r (t_rows tl) ->
  In (declared t tl r, decode_srow (ncols t) r) (stored_rows t).
Proof.
  intros t tl r Ht Hr. unfold stored_rows. apply in_concat.
  exists (map (fun r => (declared t tl r, decode_srow (ncols t) r)) (t_rows tl)). split.
  - apply in_map_iff. now exists tl.
  - apply in_map_iff. now exists r.
Qed.

Theorem row_map_by_declared_index_lemma : forall t tl r col, NoDup (map fst (stored_rows t)) ->
  In tl (tiles t) -> In r (t_rows tl) ->
  storage_buffer t (t_id tl * eff_tile_size t + s_index r) col = Ok (cell_at (Some (decode_srow (ncols t) r)) col).
Proof.
  intros t tl r col Hnd Ht Hr. rewrite storage_buffer_spec by exact Hnd.
  pose proof (in_stored_rows t tl r Ht Hr) as Hin. fold (declared t tl r).
  now rewrite (in_aget N cells N.eqb Neqb_spec' _ _ _ Hnd Hin).
Qed.

Theorem unstored_row_empty_lemma : forall t row col, ~ In row (map fst (stored_rows t)) -> row < nrows t ->
  storage_buffer t row col = Ok None.
Proof.
  intros t row col Hn Hlt. unfold storage_buffer, storage_buffer_with, row_storage_map.
  rewrite unnumbered_lookup by exact Hn. destruct (N.ltb_spec row (nrows t)); [reflexivity|lia].
Qed.

(* header records are not read at all *)
Theorem headers_irrelevant_lemma : forall t h row col, storage_buffer (with_hdrs t h) row col = storage_buffer t row col.
Proof. reflexivity. Qed.

(* ---- rows that store no cell, tile order, rowInfo order ---- *)
Lemma cell_at_blank : forall cs col, blank cs = true -> cell_at (Some cs) col = None.
Proof.
  induction cs as [|c r IH]; intros col H; [now destruct col|].
  cbn [blank forallb] in H. apply andb_true_iff in H as [Hc Hr]. destruct col as [|col]; cbn [cell_at nth_error].
  - destruct c; [discriminate|reflexivity].
  - exact (IH col Hr).
Qed.

Definition nonblank (e : N * cells) : bool := negb (blank (snd e)).

Lemma nodup_filter_keys : forall (l : list (N * cells)) f, NoDup (map fst l) -> NoDup (map fst (filter f l)).
Proof.
  induction l as [|e r IH]; intros f H; cbn [filter map]; [constructor|].
  cbn [map] in H. apply NoDup_cons_iff in H as [Hn Hr]. destruct (f e); [|now apply IH].
  cbn [map]. constructor; [|now apply IH]. intros Hin. apply Hn.
  apply in_map_iff in Hin as (x & Hx & Hin). apply filter_In in Hin as [Hin _]. rewrite <- Hx. now apply in_map.
Qed.

Lemma cell_at_filter : forall (l : list (N * cells)) row col, NoDup (map fst l) ->
  cell_at (aget N.eqb row (filter nonblank l)) col = cell_at (aget N.eqb row l) col.
Proof.
  induction l as [|[k cs] r IH]; intros row col Hnd; [reflexivity|].
  cbn [map fst] in Hnd. apply NoDup_cons_iff in Hnd as [Hn Hr]. cbn [filter aget].
  unfold nonblank at 1. cbn [snd]. destruct (blank cs) eqn:Eb; cbn [negb].
  - destruct (N.eqb_spec row k) as [->|Hne]; [|now apply IH].
    rewrite cell_at_blank by exact Eb. rewrite aget_none; [reflexivity|exact Neqb_spec'|].
    intros Hin. apply Hn. apply in_map_iff in Hin as (x & Hx & Hin). apply filter_In in Hin as [Hin _].
    rewrite <- Hx. now apply in_map.
  - cbn [aget]. destruct (N.eqb_spec row k); [reflexivity|now apply IH].
Qed.

Theorem storage_buffer_cell_at : forall t row col, NoDup (map fst (stored_rows t)) -> row < nrows t ->
  storage_buffer t row col = Ok (cell_at (aget N.eqb row (filter nonblank (stored_rows t))) col).
Proof.
  intros t row col Hnd Hlt. rewrite storage_buffer_spec by exact Hnd. rewrite cell_at_filter by exact Hnd.
  destruct (aget N.eqb row (stored_rows t)); [reflexivity|]. destruct (N.ltb_spec row (nrows t)); [reflexivity|lia].
Qed.

(* two layouts whose cell-carrying rows are the same up to order read the same: tiles may be reordered or
   re-split, rowInfos reordered, rowInfos without cells added or dropped, header records changed at will *)
Theorem stored_rows_layout_irrelevant_lemma : forall t1 t2,
  nrows t1 = nrows t2 ->
  NoDup (map fst (stored_rows t1)) -> NoDup (map fst (stored_rows t2)) ->
  Permutation (filter nonblank (stored_rows t1)) (filter nonblank (stored_rows t2)) ->
  forall row col, row < nrows t1 -> storage_buffer t1 row col = storage_buffer t2 row col.
Proof.
  intros t1 t2 Hn Hd1 Hd2 Hp row col Hlt.
  rewrite (storage_buffer_cell_at t1) by assumption. rewrite (storage_buffer_cell_at t2) by (try assumption; lia).
  now rewrite (aget_perm N cells N.eqb Neqb_spec' _ _ Hp (nodup_filter_keys _ _ Hd1) row).
Qed.

(* ---- the pinned mapping ---- *)
Theorem row_map_pinned_agrees_lemma : forall t, concat (hdrs t) = map fst (stored_rows t) ->
  forall row col, storage_buffer_pinned t row col = storage_buffer t row col.
Proof.
  intros t H row col. unfold storage_buffer_pinned, storage_buffer, row_storage_map_pinned, row_storage_map. now rewrite H.
Qed.

(* 3 rows, row 1 empty with a header record: the pinned reader shows row 2's record at row 1 and nothing at row 2 *)
Definition collab_shape : table :=
  {| nrows := 3; ncols := 1%nat; tile_size := 256; hdrs := [[0; 1; 2]];
     tiles := [ {| t_id := 0; t_rows := [ {| s_index := 0; s_wide := false; s_offsets := [0%Z]; s_storage := [1; 2; 3; 4] |};
                                            {| s_index := 2; s_wide := false; s_offsets := [0%Z]; s_storage := [5; 6; 7; 8] |} ] |} ] |}.

Lemma row_map_pinned_refuted_lemma :
  exists t tl r col, NoDup (map fst (stored_rows t)) /\ In tl (tiles t) /\ In r (t_rows tl) /\
    storage_buffer_pinned t (t_id tl * eff_tile_size t + s_index r) col <> Ok (cell_at (Some (decode_srow (ncols t) r)) col) /\
    storage_buffer_pinned t 1 0%nat = Ok (Some [5; 6; 7; 8]) /\ storage_buffer_pinned t 2 0%nat = Ok None.
Proof.
  exists collab_shape, {| t_id := 0; t_rows := t_rows (hd {| t_id := 0; t_rows := [] |} (tiles collab_shape)) |},
         {| s_index := 2; s_wide := false; s_offsets := [0%Z]; s_storage := [5; 6; 7; 8] |}, 0%nat.
  split; [vm_compute; repeat constructor; cbn; intuition discriminate|].
  split; [now left|]. split; [right; now left|].
  split; [vm_compute; discriminate|]. split; reflexivity.
Qed.

(* ---- array("h") ---- *)
Lemma h_decode_length : forall b l, h_decode b = Ok l -> length b = (2 * length l)%nat.
Proof.
  fix IH 1. intros [|lo [|hi r]] l H; cbn [h_decode] in H.
  - injection H as <-. reflexivity.
  - discriminate.
  - destruct (h_decode r) as [rest|] eqn:E; cbn [bind] in H; [|discriminate].
    injection H as <-. cbn [length]. rewrite (IH r rest E). lia.
Qed.

(* ---- the layout the library itself writes: rowInfos in row order, one per row ---- *)
(* when the declared indexes are 0, 1, 2, ... in file order, reading by declared index is reading by position: the
   storage round trip of C01 (table_storage_roundtrip, stated on the concatenation of the tiles) is what the repaired
   reader returns *)
Theorem row_map_sequential_lemma : forall t n, map fst (stored_rows t) = map N.of_nat (seq 0 n) ->
  forall r col, N.of_nat r < nrows t ->
  storage_buffer t (N.of_nat r) col = Ok (cell_at (nth_error (storage_buffers t) r) col).
Proof.
  intros t n Hk r col Hlt.
  assert (Hnd : NoDup (map fst (stored_rows t))).
  { rewrite Hk. apply FinFun.Injective_map_NoDup; [intros a b H; lia|apply seq_NoDup]. }
  rewrite storage_buffer_spec by exact Hnd. unfold storage_buffers.
  destruct (nth_error (stored_rows t) r) as [[k cs]|] eqn:E.
  - assert (Hkr : k = N.of_nat r).
    { pose proof (map_nth_error fst r (stored_rows t) E) as H. rewrite Hk in H. cbn [fst] in H.
      assert (Hr : (r < n)%nat).
      { destruct (Nat.lt_ge_cases r n) as [Hl|Hg]; [exact Hl|]. exfalso.
        assert (Hnone : nth_error (map N.of_nat (seq 0 n)) r = None) by (apply nth_error_None; rewrite map_length, seq_length; exact Hg).
        rewrite Hnone in H. discriminate. }
      assert (Hs : nth_error (seq 0 n) r = Some r).
      { rewrite (nth_error_nth' (seq 0 n) 0%nat) by (rewrite seq_length; exact Hr). now rewrite seq_nth. }
      rewrite (map_nth_error N.of_nat r (seq 0 n) Hs) in H. injection H as <-. reflexivity. }
    subst k. rewrite (in_aget N cells N.eqb Neqb_spec' _ _ _ Hnd (nth_error_In _ _ E)).
    now rewrite (map_nth_error snd r (stored_rows t) E).
  - assert (Hlen : (length (stored_rows t) <= r)%nat) by (now apply nth_error_None).
    assert (Hn : (n <= r)%nat).
    { rewrite <- (map_length fst), Hk, map_length, seq_length in Hlen. exact Hlen. }
    rewrite aget_none; [|exact Neqb_spec'|].
    + destruct (N.ltb_spec (N.of_nat r) (nrows t)); [|lia].
      assert (Hnone : nth_error (map snd (stored_rows t)) r = None) by (apply nth_error_None; now rewrite map_length).
      now rewrite Hnone.
    + rewrite Hk. intros Hin. apply in_map_iff in Hin as (x & Hx & Hin). apply in_seq in Hin. lia.
Qed.
