From Coq Require Import ZArith NArith List Bool Lia Permutation.
From NP Require Import Model.PyBase Model.DataList.
Import ListNotations.

Section DLP.
  Variable V : Type.
  Variable veqb : V -> V -> bool.
  Hypothesis veqb_spec : forall a b, veqb a b = true <-> a = b.

  Notation zget := (zget V).
  Notation vget := (vget V veqb).
  Notation dl := (dl V).

  (* invariant tying the two dictionaries *)
  Definition dl_inv (d : dl) : Prop :=
    (forall v k, vget v (by_value d) = Some k -> zget k (by_key d) = Some v) /\
    (forall k v, zget k (by_key d) = Some v -> (k < next_key d)%Z).

  Lemma veqb_refl a : veqb a a = true.
  Proof. now apply veqb_spec. Qed.

  Lemma init_inv d : dl_inv (init V d).
  Proof. split; cbn; intros; discriminate. Qed.

  Theorem lookup_key_inv d v : dl_inv d -> dl_inv (snd (lookup_key V veqb d v)).
  Proof.
    intros [H1 H2]. unfold lookup_key. destruct (vget v (by_value d)) as [k|] eqn:E; cbn [snd]; [now split|].
    split; cbn [by_value by_key next_key].
    - intros v' k' H. cbn [DataList.vget] in H. destruct (veqb v' v) eqn:Ev.
      + injection H as <-. apply veqb_spec in Ev. subst v'. cbn [DataList.zget]. now rewrite Z.eqb_refl.
      + cbn [DataList.zget]. pose proof (H1 _ _ H) as Hz. pose proof (H2 _ _ Hz) as Hlt.
        destruct (Z.eqb_spec k' (next_key d)); [lia|exact Hz].
    - intros k' v' H. cbn [DataList.zget] in H. destruct (Z.eqb_spec k' (next_key d)); [lia|].
      specialize (H2 _ _ H). lia.
  Qed.

  (* the key returned for a value reads back that value (text_roundtrip) *)
  Theorem lookup_key_value d v : dl_inv d ->
    let '(k, d') := lookup_key V veqb d v in lookup_value V d' k = Ok v.
  Proof.
    intros [H1 H2]. unfold lookup_key, lookup_value.
    destruct (vget v (by_value d)) as [k|] eqn:E.
    - now rewrite (H1 _ _ E).
    - cbn [by_key DataList.zget]. now rewrite Z.eqb_refl.
  Qed.

  (* keys handed out earlier keep their value when more values are added (re-keying preserves text) *)
  Theorem lookup_key_stable d v k0 v0 : dl_inv d ->
    lookup_value V d k0 = Ok v0 -> lookup_value V (snd (lookup_key V veqb d v)) k0 = Ok v0.
  Proof.
    intros [H1 H2] H. unfold lookup_key. destruct (vget v (by_value d)); cbn [snd]; [exact H|].
    unfold lookup_value in *. cbn [by_key DataList.zget].
    destruct (zget k0 (by_key d)) as [w|] eqn:E; [|discriminate].
    specialize (H2 _ _ E). destruct (Z.eqb_spec k0 (next_key d)); [lia|exact H].
  Qed.

  (* any sequence of insertions: every value inserted is readable at the key it was given *)
  Fixpoint insert_all (d : dl) (vs : list V) : list Z * dl :=
    match vs with
    | [] => ([], d)
    | v :: r => let '(k, d1) := lookup_key V veqb d v in let '(ks, d2) := insert_all d1 r in (k :: ks, d2)
    end.

  Lemma insert_all_stable : forall vs d k0 v0, dl_inv d -> lookup_value V d k0 = Ok v0 ->
    lookup_value V (snd (insert_all d vs)) k0 = Ok v0 /\ dl_inv (snd (insert_all d vs)).
  Proof.
    induction vs as [|v r IH]; intros d k0 v0 Hi Hl; cbn [insert_all]; [now split|].
    destruct (lookup_key V veqb d v) as [k d1] eqn:E1.
    destruct (insert_all d1 r) as [ks d2] eqn:E2. cbn [snd].
    assert (Hi1 : dl_inv d1) by (pose proof (lookup_key_inv d v Hi) as H; now rewrite E1 in H).
    assert (Hl1 : lookup_value V d1 k0 = Ok v0) by (pose proof (lookup_key_stable d v k0 v0 Hi Hl) as H; now rewrite E1 in H).
    specialize (IH d1 k0 v0 Hi1 Hl1). now rewrite E2 in IH.
  Qed.

  Theorem rekey_preserves_text : forall vs d, dl_inv d ->
    let '(ks, d') := insert_all d vs in
    Forall2 (fun k v => lookup_value V d' k = Ok v) ks vs.
  Proof.
    induction vs as [|v r IH]; intros d Hi; cbn [insert_all]; [constructor|].
    destruct (lookup_key V veqb d v) as [k d1] eqn:E1.
    destruct (insert_all d1 r) as [ks d2] eqn:E2.
    assert (Hi1 : dl_inv d1) by (pose proof (lookup_key_inv d v Hi) as H; now rewrite E1 in H).
    assert (Hl1 : lookup_value V d1 k = Ok v) by (pose proof (lookup_key_value d v Hi) as H; now rewrite E1 in H).
    constructor.
    - pose proof (insert_all_stable r d1 k v Hi1 Hl1) as [H _]. now rewrite E2 in H.
    - specialize (IH d1 Hi1). now rewrite E2 in IH.
  Qed.
End DLP.
