(* Proofs about Model/Sizes.v (C16). stdlib + lia. *)
From Coq Require Import ZArith QArith Qround List Bool Lia.
From NP Require Import Model.PyBase Model.Sizes.
Import ListNotations.
Local Open Scope Q_scope.

(* ---------- what a reported size depends on ---------- *)
(* two lines report alike when they agree on the stored size and on the borders *)
Definition same_view (a b : line) : Prop :=
  stored a = stored b /\ b_lo a = b_lo b /\ b_hi a = b_hi b.

(* the cache holds nothing but the value that would be computed *)
Definition memo_ok (d : Q) (l : line) : Prop :=
  match memo l with None => True | Some m => m = compute d l end.

Definition sim (d : Q) (a b : line) : Prop := same_view a b /\ memo_ok d a /\ memo_ok d b.

Lemma compute_view : forall d a b, same_view a b -> compute d a = compute d b.
Proof.
  intros d a b (Hs & Hl & Hh). unfold compute, base. rewrite Hs, Hl, Hh. reflexivity.
Qed.

Lemma same_view_refl : forall a, same_view a a.
Proof. intros; repeat split. Qed.
Lemma same_view_sym : forall a b, same_view a b -> same_view b a.
Proof. intros a b (H1 & H2 & H3); repeat split; congruence. Qed.
Lemma same_view_trans : forall a b c, same_view a b -> same_view b c -> same_view a c.
Proof. intros a b c (H1 & H2 & H3) (K1 & K2 & K3); repeat split; congruence. Qed.

Lemma observe_value : forall d l, memo_ok d l -> fst (observe d l) = compute d l.
Proof.
  intros d l H. unfold observe, memo_ok in *. destruct (memo l); simpl; auto.
Qed.

Lemma observe_view : forall d l, same_view (snd (observe d l)) l.
Proof.
  intros d l. unfold observe. destruct (memo l); simpl; repeat split.
Qed.

Lemma observe_memo_ok : forall d l, memo_ok d l -> memo_ok d (snd (observe d l)).
Proof.
  intros d l H. unfold observe. destruct (memo l) eqn:E; simpl; auto.
  unfold memo_ok; simpl. apply compute_view. repeat split.
Qed.

Lemma observe_sim : forall d a b, sim d a b ->
  fst (observe d a) = fst (observe d b) /\ sim d (snd (observe d a)) (snd (observe d b)).
Proof.
  intros d a b (V & Ma & Mb). split.
  - rewrite !observe_value by assumption. apply compute_view; assumption.
  - split; [|split; apply observe_memo_ok; assumption].
    eapply same_view_trans; [apply observe_view|].
    eapply same_view_trans; [exact V|]. apply same_view_sym, observe_view.
Qed.

(* ---------- save and reopen leave the view alone ---------- *)
Lemma stored_save : forall l, stored (save l) = stored l.
Proof.
  intros l. unfold stored at 1. simpl. destruct (explicit l) eqn:E; [|reflexivity].
  unfold stored. rewrite E. reflexivity.
Qed.

Lemma stored_reopen_save : forall l, stored (reopen (save l)) = stored l.
Proof. intros l. reflexivity. Qed.

Lemma save_view : forall l, same_view (save l) l.
Proof. intros l; repeat split. apply stored_save. Qed.

Lemma cycle_view : forall l, same_view (cycle l) l.
Proof. intros l; repeat split. Qed.

Lemma save_memo_ok : forall d l, memo_ok d l -> memo_ok d (save l).
Proof.
  intros d l H. unfold memo_ok in *. simpl. destruct (memo l); auto.
  rewrite H. symmetry. apply compute_view, save_view.
Qed.

Lemma cycle_memo_ok : forall d l, memo_ok d (cycle l).
Proof. intros; exact I. Qed.

Lemma set_size_sim : forall d h a b, sim d a b -> sim d (set_size h a) (set_size h b).
Proof.
  intros d h a b ((_ & Hl & Hh) & _ & _). repeat split; simpl; auto.
Qed.

Lemma set_borders_sim : forall d lo hi a b, sim d a b -> sim d (set_borders lo hi a) (set_borders lo hi b).
Proof.
  intros d lo hi a b ((Hs & _ & _) & _ & _). repeat split; simpl; auto.
Qed.

Lemma save_sim_l : forall d a b, sim d a b -> sim d (save a) b.
Proof.
  intros d a b (V & Ma & Mb). split.
  { eapply same_view_trans; [apply save_view|exact V]. }
  split; [apply save_memo_ok; exact Ma|exact Mb].
Qed.

Lemma cycle_sim_l : forall d a b, sim d a b -> sim d (cycle a) b.
Proof.
  intros d a b (V & Ma & Mb). split.
  { eapply same_view_trans; [apply cycle_view|exact V]. }
  split; [apply cycle_memo_ok|exact Mb].
Qed.

(* ---------- histories: saves and reopens are invisible ---------- *)
Lemma run_erase_sim : forall d ops a b, sim d a b ->
  fst (run d ops a) = fst (run d (erase ops) b) /\
  sim d (snd (run d ops a)) (snd (run d (erase ops) b)).
Proof.
  intros d ops. induction ops as [|o r IH]; intros a b S.
  - simpl. auto.
  - destruct o as [h| |lo hi| |]; simpl.
    + apply IH, set_size_sim, S.
    + destruct (observe_sim d a b S) as (Hv & S1).
      destruct (observe d a) as [va a1] eqn:Ea. destruct (observe d b) as [vb b1] eqn:Eb.
      simpl in Hv, S1. specialize (IH a1 b1 S1).
      destruct (run d r a1) as [vsa a2]. destruct (run d (erase r) b1) as [vsb b2].
      simpl in *. destruct IH as (IH1 & IH2). split; [congruence|assumption].
    + apply IH, set_borders_sim, S.
    + apply IH, save_sim_l, S.
    + apply IH, cycle_sim_l, S.
Qed.

Lemma sim_refl : forall d l, memo_ok d l -> sim d l l.
Proof. intros d l H. split; [apply same_view_refl|split; assumption]. Qed.

Theorem cycles_invisible_lemma : forall d ops l, memo_ok d l ->
  fst (run d ops l) = fst (run d (erase ops) l) /\
  stored (snd (run d ops l)) = stored (snd (run d (erase ops) l)).
Proof.
  intros d ops l H. destruct (run_erase_sim d ops l l (sim_refl d l H)) as (H1 & (H2 & _) & _).
  split; [exact H1|exact H2].
Qed.

(* a freshly opened document has an empty cache *)
Lemma fresh_memo_ok : forall d l, memo l = None -> memo_ok d l.
Proof. intros d l H. unfold memo_ok. rewrite H. exact I. Qed.

(* the cache invariant holds along every history *)
Lemma run_memo_ok : forall d ops l, memo_ok d l -> memo_ok d (snd (run d ops l)).
Proof.
  intros d ops l H. destruct (run_erase_sim d ops l l (sim_refl d l H)) as (_ & _ & H2 & _). exact H2.
Qed.

(* ---------- iterated cycles ---------- *)
Lemma iter_cycle_view : forall n l, same_view (iter n cycle l) l.
Proof.
  induction n as [|n IH]; intros l; simpl.
  - apply same_view_refl.
  - eapply same_view_trans; [apply IH|apply cycle_view].
Qed.

Lemma iter_cycle_memo_ok : forall d n l, memo_ok d l -> memo_ok d (iter n cycle l).
Proof.
  intros d n. induction n as [|n IH]; intros l H; simpl; auto. apply IH, cycle_memo_ok.
Qed.

Theorem size_cycle_fixpoint_lemma : forall d n l, memo_ok d l ->
  fst (observe d (iter n cycle l)) = fst (observe d l) /\
  fst (observe d (iter n cycle (snd (observe d l)))) = fst (observe d l).
Proof.
  intros d n l H. split.
  - rewrite !observe_value by auto using iter_cycle_memo_ok.
    apply compute_view, iter_cycle_view.
  - rewrite !observe_value by auto using iter_cycle_memo_ok, observe_memo_ok.
    apply compute_view. eapply same_view_trans; [apply iter_cycle_view|apply observe_view].
Qed.

Theorem borders_do_not_accumulate_lemma : forall n l,
  stored (save l) = stored l /\ stored (iter n cycle l) = stored l /\
  bucket (save l) = Some (stored l) /\ (forall k, bucket (iter (S k) cycle l) = Some (stored l)).
Proof.
  intros n l. split; [apply stored_save|]. split; [apply iter_cycle_view|]. split; [reflexivity|].
  intros k. revert l. induction k as [|k IH]; intros l.
  - reflexivity.
  - change (iter (S (S k)) cycle l) with (iter (S k) cycle (cycle l)). rewrite IH. reflexivity.
Qed.

(* ---------- numerics ---------- *)
Lemma py_round_Z : forall z : Z, py_round (inject_Z z) = z.
Proof.
  intros z. unfold py_round. rewrite Qfloor_Z.
  assert (E : (inject_Z z - inject_Z z ?= 1 # 2) = Lt).
  { apply (proj1 (Qlt_alt _ _)). setoid_replace (inject_Z z - inject_Z z) with 0 by ring. reflexivity. }
  rewrite E. reflexivity.
Qed.

Lemma is_zero_inject : forall z : Z, is_zero (inject_Z z) = (z =? 0)%Z.
Proof. intros; reflexivity. Qed.

Lemma floor_plus_small : forall (z : Z) (e : Q), 0 <= e -> e < 1 -> Qfloor (inject_Z z + e) = z.
Proof.
  intros z e H0 H1.
  assert (L : (z <= Qfloor (inject_Z z + e))%Z).
  { pose proof (Qfloor_resp_le (inject_Z z) (inject_Z z + e)) as K. rewrite Qfloor_Z in K. apply K.
    apply Qle_trans with (inject_Z z + 0).
    - rewrite Qplus_0_r. apply Qle_refl.
    - apply (proj2 (Qplus_le_r _ _ _)). exact H0. }
  assert (U : (Qfloor (inject_Z z + e) < z + 1)%Z).
  { rewrite Zlt_Qlt.
    apply Qle_lt_trans with (inject_Z z + e); [apply Qfloor_le|].
    rewrite inject_Z_plus. apply (proj2 (Qplus_lt_r _ _ _)). exact H1. }
  lia.
Qed.

(* a size set through the API on a line whose borders add up to less than 2pt is reported as set,
   now and after any number of cycles *)
Theorem set_then_cycle_lemma : forall d n h l,
  h <> 0%Z -> 0 <= b_lo l / 2 + b_hi l / 2 -> b_lo l / 2 + b_hi l / 2 < 1 ->
  fst (observe d (set_size h l)) = h /\ fst (observe d (iter n cycle (set_size h l))) = h.
Proof.
  intros d n h l Hh H0 H1.
  assert (B : base d (set_size h l) = h).
  { unfold base. change (stored (set_size h l)) with (inject_Z h). rewrite is_zero_inject.
    destruct (h =? 0)%Z eqn:E; [apply Z.eqb_eq in E; contradiction|]. apply py_round_Z. }
  assert (C : compute d (set_size h l) = h).
  { unfold compute. rewrite B.
    change (b_lo (set_size h l)) with (b_lo l). change (b_hi (set_size h l)) with (b_hi l).
    transitivity (Qfloor (inject_Z h + (b_lo l / 2 + b_hi l / 2))).
    - apply Qfloor_comp. ring.
    - apply floor_plus_small; assumption. }
  split.
  - rewrite observe_value by exact I. exact C.
  - rewrite observe_value by (apply iter_cycle_memo_ok; exact I).
    rewrite (compute_view d _ (set_size h l)) by apply iter_cycle_view. exact C.
Qed.

(* in general a set size is reported with the borders of the line added, identically before and after *)
Theorem set_then_cycle_general_lemma : forall d n h l,
  fst (observe d (iter n cycle (set_size h l))) = fst (observe d (set_size h l)).
Proof.
  intros d n h l. apply (proj1 (size_cycle_fixpoint_lemma d n (set_size h l) I)).
Qed.

(* ---------- table extent ---------- *)
Lemma observe_all_values : forall d ls, Forall (memo_ok d) ls ->
  fst (observe_all d ls) = map (compute d) ls.
Proof.
  intros d ls H. induction H as [|l r Hl Hr IH]; simpl; auto.
  pose proof (observe_value d l Hl) as E.
  destruct (observe d l) as [v l1]. destruct (observe_all d r) as [vs r1]. simpl in *. congruence.
Qed.

Theorem extent_cycle_lemma : forall d n ls, Forall (memo_ok d) ls ->
  table_extent d (map (iter n cycle) ls) = table_extent d ls.
Proof.
  intros d n ls H. unfold table_extent. rewrite !observe_all_values; auto.
  - f_equal. rewrite map_map. apply map_ext. intros l. apply compute_view, iter_cycle_view.
  - rewrite Forall_forall in *. intros x Hx. apply in_map_iff in Hx. destruct Hx as (y & <- & Hy).
    apply iter_cycle_memo_ok, H, Hy.
Qed.

(* ---------- labels ---------- *)
Theorem labels_cycle_lemma : forall n b, observe_labels (iter n cycle_labels b) = observe_labels b.
Proof.
  induction n as [|n IH]; intros b; [reflexivity|exact (IH (cycle_labels b))].
Qed.

(* ---------- the pinned tree ---------- *)
(* a row stored at 100 (default 20), never queried: one cycle resets it *)
Definition pinned_row_witness : line :=
  {| bucket := Some (100 # 1); explicit := None; memo := None; b_lo := 0; b_hi := 0 |}.
Lemma pinned_rows_reset :
  fst (Pinned.observe (20 # 1) pinned_row_witness) = 100%Z /\
  fst (Pinned.observe (20 # 1) (Pinned.cycle_row pinned_row_witness)) = 20%Z.
Proof. vm_compute. split; reflexivity. Qed.

(* a default-width column (98) with an 8pt border on its left: +4 per cycle *)
Definition pinned_col_witness : line :=
  {| bucket := None; explicit := None; memo := None; b_lo := 8 # 1; b_hi := 0 |}.
Lemma pinned_cols_drift :
  fst (Pinned.observe (98 # 1) pinned_col_witness) = 102%Z /\
  fst (Pinned.observe (98 # 1) (Pinned.cycle_col (98 # 1) pinned_col_witness)) = 106%Z /\
  fst (Pinned.observe (98 # 1) (Pinned.cycle_col (98 # 1) (Pinned.cycle_col (98 # 1) pinned_col_witness))) = 110%Z.
Proof. vm_compute. repeat split; reflexivity. Qed.

(* the repaired code on the same two lines *)
Lemma repaired_witnesses :
  fst (observe (20 # 1) (cycle pinned_row_witness)) = 100%Z /\
  fst (observe (98 # 1) (cycle (cycle pinned_col_witness))) = 102%Z.
Proof. vm_compute. split; reflexivity. Qed.
