From Coq Require Import ZArith NArith List Bool Lia ZifyNat ZifyN ZifyBool.
From NP Require Import Model.PyBase Model.TileCodec.
Import ListNotations.
Ltac Zify.zify_post_hook ::= Z.to_euclidean_division_equations.

Definition is_some_cell (c : option (list N)) : bool := match c with Some _ => true | None => false end.
Definition aligned (cs : cells) : Prop := Forall (fun c => match c with Some b => Nat.modulo (length b) 4 = 0%nat | None => True end) cs.

(* byte offsets (the spike's formulation) *)
(* absent cells carry a negative marker: -1 for byte offsets, -4 once wide offsets are scaled *)
Fixpoint byte_offsets_m (mk : Z) (cur : nat) (cs : cells) : list Z :=
  match cs with
  | [] => []
  | Some b :: r => Z.of_nat cur :: byte_offsets_m mk (cur + length b) r
  | None :: r => mk :: byte_offsets_m mk cur r
  end.
Notation byte_offsets := (byte_offsets_m (-4)%Z).

Lemma wide_offsets : forall cs cur, aligned cs -> Nat.modulo cur 4 = 0%nat ->
  map (fun o => (o * 4)%Z) (row_offsets cur cs) = byte_offsets cur cs.
Proof.
  induction cs as [|[b|] r IH]; intros cur Ha Hc; cbn [row_offsets byte_offsets_m map]; [reflexivity| |].
  - pose proof (Forall_inv Ha) as Hb. pose proof (Forall_inv_tail Ha) as Hr. cbn beta iota in Hb.
    f_equal.
    + pose proof (Nat.div_mod cur 4 ltac:(lia)). lia.
    + apply IH; [assumption|]. rewrite Nat.add_mod by lia. rewrite Hc, Hb. reflexivity.
  - f_equal. apply IH; [exact (Forall_inv_tail Ha)|assumption].
Qed.

Lemma next_nonneg_offsets cur cs :
  next_nonneg (byte_offsets cur cs) = if existsb is_some_cell cs then Some (Z.of_nat cur) else None.
Proof.
  revert cur. induction cs as [|[b|] r IH]; intros cur; cbn [byte_offsets_m next_nonneg existsb is_some_cell orb]; auto.
  - destruct (Z.leb_spec 0 (Z.of_nat cur)); [reflexivity|lia].
  - change (0 <=? -4)%Z with false. cbv iota. apply IH.
Qed.

Lemma storage_nil cs : existsb is_some_cell cs = false -> row_storage cs = [].
Proof. induction cs as [|[b|] r IH]; cbn; auto; discriminate. Qed.

Theorem split_from_roundtrip : forall cs pre,
  split_from (pre ++ row_storage cs) (byte_offsets (length pre) cs) (length cs) = cs.
Proof.
  induction cs as [|[b|] r IH]; intros pre; cbn [byte_offsets_m row_storage split_from length]; auto.
  - destruct (Z.ltb_spec (Z.of_nat (length pre)) 0); [lia|].
    rewrite next_nonneg_offsets, Nat2Z.id.
    assert (Hs : slice (pre ++ b ++ row_storage r) (length pre)
                   (match (if existsb is_some_cell r then Some (Z.of_nat (length pre + length b)) else None)
                    with Some e => Z.to_nat e | None => length (pre ++ b ++ row_storage r) end) = b).
    { unfold slice. rewrite skipn_app, skipn_all, Nat.sub_diag. cbn [skipn app].
      destruct (existsb is_some_cell r) eqn:E.
      - rewrite Nat2Z.id. replace (length pre + length b - length pre)%nat with (length b) by lia.
        rewrite firstn_app, firstn_all, Nat.sub_diag. cbn. apply app_nil_r.
      - rewrite (storage_nil r E), app_nil_r, app_length.
        replace (length pre + length b - length pre)%nat with (length b) by lia. apply firstn_all. }
    rewrite Hs. f_equal.
    specialize (IH (pre ++ b)). rewrite app_length, <- app_assoc in IH. exact IH.
  - change (-4 <? 0)%Z with true. cbv iota. f_equal. apply IH.
Qed.

(* a row written by recalculate_row_info is read back by get_storage_buffers_for_row *)
Theorem row_roundtrip_lemma cs offs st : aligned cs ->
  pack_row cs = Ok (offs, st) -> split_row true st offs (length cs) = cs.
Proof.
  intros Ha. unfold pack_row. destruct (forallb h_ok (row_offsets 0 cs)); [|discriminate].
  intros H. injection H as <- <-. unfold split_row.
  rewrite wide_offsets by (try assumption; reflexivity).
  exact (split_from_roundtrip cs []).
Qed.

(* the offsets fit '<h' whenever the row's storage stays below 2^17 bytes *)
Lemma row_offsets_bound : forall cs cur, Forall (fun o => (-1 <= o <= Z.of_nat ((cur + length (row_storage cs)) / 4))%Z) (row_offsets cur cs).
Proof.
  induction cs as [|[b|] r IH]; intros cur; cbn [row_offsets row_storage]; constructor.
  - rewrite app_length. split; [lia|]. apply inj_le. apply Nat.div_le_mono; lia.
  - specialize (IH (cur + length b)%nat). rewrite app_length.
    replace (cur + (length b + length (row_storage r)))%nat with (cur + length b + length (row_storage r))%nat by lia.
    exact IH.
  - lia.
  - apply IH.
Qed.

Theorem pack_row_ok cs : (length (row_storage cs) < N.to_nat 131072)%nat -> exists offs, pack_row cs = Ok (offs, row_storage cs).
Proof.
  intros Hlen. unfold pack_row.
  assert (H : forallb h_ok (row_offsets 0 cs) = true).
  { apply forallb_forall. intros o Ho.
    pose proof (proj1 (Forall_forall _ _) (row_offsets_bound cs 0) o Ho) as Hb. cbn beta in Hb.
    rewrite Nat.add_0_l in Hb. destruct Hb as [H1 H2].
    assert (H3 : (Z.of_nat (length (row_storage cs) / 4) <= 32767)%Z) by lia.
    unfold h_ok. apply andb_true_intro. split; apply Z.leb_le; lia. }
  rewrite H. eauto.
Qed.

(* ---- tiles ---- *)
Lemma chunks_concat : forall fuel (rows : list cells), (length rows <= 256 * fuel)%nat -> concat (chunks fuel rows) = rows.
Proof.
  induction fuel as [|f IH]; intros rows H; [destruct rows; [reflexivity|cbn in H; lia]|].
  cbn [chunks concat]. rewrite IH; [apply firstn_skipn|]. rewrite skipn_length. lia.
Qed.

Lemma tiles_concat rows : concat (tiles_of rows) = rows.
Proof.
  unfold tiles_of. apply chunks_concat.
  pose proof (Nat.div_mod (length rows) 256 ltac:(lia)).
  pose proof (Nat.mod_upper_bound (length rows) 256 ltac:(lia)). lia.
Qed.

Lemma chunks_sizes : forall fuel (rows : list cells), Forall (fun t => (length t <= 256)%nat) (chunks fuel rows).
Proof.
  induction fuel; intros; cbn [chunks]; constructor; [apply firstn_le_length|apply IHfuel].
Qed.

Definition rect (ncols : nat) (rows : list cells) : Prop := Forall (fun cs => length cs = ncols /\ aligned cs) rows.

Lemma encode_rows_decode ncols : forall rows idx ris, rect ncols rows -> encode_rows idx rows = Ok ris ->
  map (fun ri => split_row true (r_storage ri) (r_offsets ri) ncols) ris = rows.
Proof.
  induction rows as [|cs r IH]; intros idx ris Hr H; cbn [encode_rows] in H.
  - injection H as <-. reflexivity.
  - destruct (pack_row cs) as [[offs st]|e] eqn:Ep; cbn [bind] in H; [|discriminate].
    destruct (encode_rows (S idx) r) as [rest|e] eqn:Er; cbn [bind] in H; [|discriminate].
    injection H as <-. cbn [map r_storage r_offsets fst snd].
    pose proof (Forall_inv Hr) as [Hlen Hal]. pose proof (Forall_inv_tail Hr) as Hr'.
    f_equal; [rewrite <- Hlen; now apply row_roundtrip_lemma|].
    now apply (IH (S idx)).
Qed.

Lemma encode_rows_index : forall rows idx ris, encode_rows idx rows = Ok ris ->
  map tile_row_index ris = seq idx (length rows).
Proof.
  induction rows as [|cs r IH]; intros idx ris H; cbn [encode_rows] in H.
  - injection H as <-. reflexivity.
  - destruct (pack_row cs) as [[offs st]|e]; cbn [bind] in H; [|discriminate].
    destruct (encode_rows (S idx) r) as [rest|e] eqn:Er; cbn [bind] in H; [|discriminate].
    injection H as <-. cbn [map tile_row_index length seq]. f_equal. now apply IH.
Qed.

Lemma rect_split ncols n rows : rect ncols rows -> rect ncols (firstn n rows) /\ rect ncols (skipn n rows).
Proof. unfold rect. intros H. rewrite <- (firstn_skipn n rows) in H. now apply Forall_app in H. Qed.

Lemma encode_tiles_decode ncols : forall fuel rows tiles, rect ncols rows ->
  encode_tiles (chunks fuel rows) = Ok tiles -> decode_table ncols tiles = concat (chunks fuel rows).
Proof.
  induction fuel as [|f IH]; intros rows tiles Hr H; cbn [chunks encode_tiles] in *.
  - injection H as <-. reflexivity.
  - destruct (encode_rows 0 (firstn 256 rows)) as [a|e] eqn:Ea; cbn [bind] in H; [|discriminate].
    destruct (encode_tiles (chunks f (skipn 256 rows))) as [b|e] eqn:Eb; cbn [bind] in H; [|discriminate].
    injection H as <-. unfold decode_table. cbn [map concat].
    destruct (rect_split ncols 256 rows Hr) as [H1 H2].
    rewrite (encode_rows_decode ncols _ _ _ H1 Ea). f_equal.
    exact (IH (skipn 256 rows) b H2 Eb).
Qed.

(* the whole table: any number of rows (any number of tiles), any number of columns *)
Theorem table_storage_roundtrip_lemma ncols rows tiles : rect ncols rows ->
  encode_table rows = Ok tiles -> decode_table ncols tiles = rows.
Proof.
  intros Hr H. unfold encode_table in H.
  rewrite (encode_tiles_decode ncols _ _ _ Hr H). apply tiles_concat.
Qed.

(* encoding succeeds whenever each row's storage stays below 2^17 bytes (e.g. 1000 columns x 76 bytes) *)
Lemma encode_rows_ok : forall rows idx, Forall (fun cs => (length (row_storage cs) < N.to_nat 131072)%nat) rows ->
  exists ris, encode_rows idx rows = Ok ris.
Proof.
  induction rows as [|cs r IH]; intros idx H; cbn [encode_rows]; [eauto|].
  destruct (pack_row_ok cs (Forall_inv H)) as [offs Ep]. rewrite Ep. cbn [bind].
  destruct (IH (S idx) (Forall_inv_tail H)) as [rest Er]. rewrite Er. cbn [bind]. eauto.
Qed.

Lemma encode_tiles_ok : forall fuel rows, Forall (fun cs => (length (row_storage cs) < N.to_nat 131072)%nat) rows ->
  exists ts, encode_tiles (chunks fuel rows) = Ok ts.
Proof.
  induction fuel as [|f IH]; intros rows H; cbn [chunks encode_tiles]; [eauto|].
  rewrite <- (firstn_skipn 256 rows) in H. apply Forall_app in H as [H1 H2].
  destruct (encode_rows_ok _ 0 H1) as [a Ea]. rewrite Ea. cbn [bind].
  destruct (IH _ H2) as [b Eb]. rewrite Eb. cbn [bind]. eauto.
Qed.

Theorem encode_table_ok rows : Forall (fun cs => (length (row_storage cs) < N.to_nat 131072)%nat) rows ->
  exists ts, encode_table rows = Ok ts.
Proof. apply encode_tiles_ok. Qed.

(* tile structure: row counts <= 256 each, sum = number of rows, tile_row_index = 0,1,2.. within the tile *)
Lemma tiles_wf_gen : forall fuel rows tiles, encode_tiles (chunks fuel rows) = Ok tiles ->
     length tiles = fuel /\
     Forall (fun t => (length t <= 256)%nat /\ map tile_row_index t = seq 0 (length t)) tiles /\
     length (concat tiles) = length (concat (chunks fuel rows)).
Proof.
  induction fuel as [|f IH]; intros rows tiles H; cbn [chunks encode_tiles] in H.
  - injection H as <-. repeat split; constructor.
  - destruct (encode_rows 0 (firstn 256 rows)) as [a|e] eqn:Ea; cbn [bind] in H; [|discriminate].
    destruct (encode_tiles (chunks f (skipn 256 rows))) as [b|e] eqn:Eb; cbn [bind] in H; [|discriminate].
    injection H as <-. destruct (IH _ _ Eb) as (L1 & L2 & L3).
    pose proof (encode_rows_index _ _ _ Ea) as Hi.
    assert (La : length a = length (firstn 256 rows)).
    { apply (f_equal (@length nat)) in Hi. now rewrite map_length, seq_length in Hi. }
    split; [cbn [length]; lia|]. split.
    + constructor; [|assumption]. split; [rewrite La; apply firstn_le_length|now rewrite La].
    + cbn [chunks concat]. rewrite !app_length, L3, La. reflexivity.
Qed.

(* tile structure: (rows >> 8) + 1 tiles, each <= 256 rows, tile_row_index = 0,1,2.. within the tile,
   and the tiles account for exactly the table's rows *)
Theorem tiles_wf_lemma rows tiles : encode_table rows = Ok tiles ->
  length tiles = S (length rows / 256) /\
  Forall (fun t => (length t <= 256)%nat /\ map tile_row_index t = seq 0 (length t)) tiles /\
  length (concat tiles) = length rows.
Proof.
  intros H. destruct (tiles_wf_gen _ _ _ H) as (G1 & G2 & G3).
  split; [assumption|]. split; [assumption|].
  rewrite G3. fold (tiles_of rows). now rewrite tiles_concat.
Qed.
