(* The rejection behind the open findings of C18, as a universal statement about the model:
   a quote character that directly follows pending operand characters is always rejected
   (parse_string's assert_empty_token).  `Table 1::'a+b'` and `it'''s`, both printed by the
   reader, are instances. *)
From Coq Require Import List Arith NArith Bool Lia.
From NP Require Import Model.PyBase Model.Tokenizer Proofs.TokenizerP.
Import ListNotations.
Open Scope N_scope.

(* characters that the dispatcher appends to the pending operand *)
Definition plain (c : N) : bool := negb (mem c enders) && negb (mem c [DQ; SQ; HASH; LB; LP]).

Section Generic.
  Variable isnum : list N -> bool.
  Variable pop_exn : pyexn.

  Lemma step_plain s c rest : plain c = true ->
    step isnum pop_exn s (c :: rest) = Ok ({| items := items s; stack := stack s; tokbuf := c :: tokbuf s |}, 1).
  Proof.
    unfold plain. rewrite andb_true_iff, !negb_true_iff. intros [He Hq].
    assert (Hpm : mem c [PLUS; MINUS] = false).
    { destruct (mem c [PLUS; MINUS]) eqn:E; auto. apply mem_In in E.
      assert (X : mem c enders = true); [|congruence].
      apply mem_In. cbn in E. destruct E as [<-|[<-|[]]]; cbn; auto 20. }
    assert (Hop : mem c operators = false).
    { destruct (mem c operators) eqn:E; auto. apply operators_flush in E. congruence. }
    cbn [mem] in Hq. rewrite !orb_false_iff in Hq. destruct Hq as (Q1 & Q2 & Q3 & Q4 & Q5 & _).
    assert (NE : forall x, In x enders -> (c =? x) = false).
    { intros x Hx. destruct (c =? x) eqn:E; auto. apply N.eqb_eq in E. subst x.
      apply mem_In in Hx. congruence. }
    assert (Hcl : (c =? RP) || (c =? RB) = false /\ (c =? SEMI) = false /\ (c =? COMMA) = false).
    { rewrite orb_false_iff. repeat split; apply NE; cbn; auto 20. }
    destruct Hcl as (C1 & C2 & C3).
    unfold step. rewrite Hpm. cbn [andb]. rewrite He, Q1, Q2, Q3, Hop, Q4, Q5, C1, C2, C3. reflexivity.
  Qed.

  Lemma run_plain p : Forall (fun c => plain c = true) p -> forall fuel s x,
    (length (p ++ x) < fuel)%nat ->
    run isnum pop_exn fuel s (p ++ x) =
    run isnum pop_exn (fuel - length p) {| items := items s; stack := stack s; tokbuf := rev p ++ tokbuf s |} x.
  Proof.
    induction 1 as [|c p Hc Hp IH]; intros fuel s x Hf.
    - cbn [app length rev]. rewrite Nat.sub_0_r. destruct s; reflexivity.
    - destruct fuel as [|f]; [cbn in Hf; lia|]. cbn [app]. rewrite run_S, step_plain by auto.
      change (dropN (N.to_nat 1) (c :: p ++ x)) with (p ++ x).
      rewrite IH by (cbn [app length] in Hf; lia). cbn [items stack tokbuf length rev]. rewrite <- app_assoc. reflexivity.
  Qed.

  Theorem quote_after_operand_rejected_gen p q rest :
    p <> [] -> Forall (fun c => plain c = true) p -> q = DQ \/ q = SQ ->
    tokenize_gen isnum pop_exn (p ++ q :: rest) = Err TokenizerError.
  Proof.
    intros Hne Hp Hq. unfold tokenize_gen. rewrite run_plain by (auto; lia).
    rewrite app_length. cbn [length].
    replace (S (length p + S (length rest)) - length p)%nat with (S (S (length rest))) by lia.
    rewrite run_S. cbn [items stack tokbuf st0]. rewrite app_nil_r.
    assert (Hb : exists b0 b, rev p = b0 :: b).
    { destruct (rev p) as [|b0 b] eqn:E; eauto. exfalso. apply Hne. rewrite <- (rev_involutive p), E. reflexivity. }
    destruct Hb as (b0 & b & Eb). rewrite Eb.
    unfold step. destruct Hq as [-> | ->]; reflexivity.
  Qed.
End Generic.

Theorem quote_after_operand_rejected_lemma p q rest :
  p <> [] -> Forall (fun c => plain c = true) p -> q = DQ \/ q = SQ ->
  tokenize (p ++ q :: rest) = Err TokenizerError.
Proof. apply quote_after_operand_rejected_gen. Qed.

(* Table 1::'a+b'   and   it'''s *)
Lemma reader_forms_rejected :
  tokenize [84;97;98;108;101;32;49;58;58;39;97;43;98;39] = Err TokenizerError /\
  tokenize [105;116;39;39;39;115] = Err TokenizerError.
Proof. split; vm_compute; reflexivity. Qed.
