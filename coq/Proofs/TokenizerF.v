(* The rejection behind the open findings of C18, as a universal statement about the model:
   a quote character that directly follows pending operand characters is always rejected
   (parse_string's assert_empty_token).  `Table 1::'a+b'` and `it'''s`, both printed by the
   reader, are instances. *)
From Coq Require Import List Arith NArith Bool Lia.
From NP Require Import Model.PyBase Model.Tokenizer Proofs.TokenizerP Proofs.TokenizerR.
Import ListNotations.
Open Scope N_scope.

(* characters that the dispatcher appends to the pending operand *)
Definition plain (c : N) : bool := negb (mem c enders) && negb (mem c [DQ; SQ; HASH; LB; LP]).

Section Generic.
  Variable isnum : list N -> bool.
  Variable pop_exn : pyexn.

  Lemma step_plain s c rest : plain c = true ->
    step isnum pop_exn s (c :: rest) = Ok ({| items := items s; stack := stack s; tokbuf := c :: tokbuf s |}, 1).
  Proof.
    unfold plain. rewrite andb_true_iff, !negb_true_iff. intros [He Hq].
    assert (Hpm : mem c [PLUS; MINUS] = false).
    { destruct (mem c [PLUS; MINUS]) eqn:E; auto. apply mem_In in E.
      assert (X : mem c enders = true); [|congruence].
      apply mem_In. cbn in E. destruct E as [<-|[<-|[]]]; cbn; auto 20. }
    assert (Hop : mem c operators = false).
    { destruct (mem c operators) eqn:E; auto. apply operators_flush in E. congruence. }
    cbn [mem] in Hq. rewrite !orb_false_iff in Hq. destruct Hq as (Q1 & Q2 & Q3 & Q4 & Q5 & _).
    assert (NE : forall x, In x enders -> (c =? x) = false).
    { intros x Hx. destruct (c =? x) eqn:E; auto. apply N.eqb_eq in E. subst x.
      apply mem_In in Hx. congruence. }
    assert (Hcl : (c =? RP) || (c =? RB) = false /\ (c =? SEMI) = false /\ (c =? COMMA) = false).
    { rewrite orb_false_iff. repeat split; apply NE; cbn; auto 20. }
    destruct Hcl as (C1 & C2 & C3).
    unfold step. rewrite Hpm. cbn [andb]. rewrite He, Q1, Q2, Q3, Hop, Q4, Q5, C1, C2, C3. reflexivity.
  Qed.

  Lemma run_plain p : Forall (fun c => plain c = true) p -> forall fuel s x,
    (length (p ++ x) < fuel)%nat ->
    run isnum pop_exn fuel s (p ++ x) =
    run isnum pop_exn (fuel - length p) {| items := items s; stack := stack s; tokbuf := rev p ++ tokbuf s |} x.
  Proof.
    induction 1 as [|c p Hc Hp IH]; intros fuel s x Hf.
    - cbn [app length rev]. rewrite Nat.sub_0_r. destruct s; reflexivity.
    - destruct fuel as [|f]; [cbn in Hf; lia|]. cbn [app]. rewrite run_S, step_plain by auto.
      change (dropN (N.to_nat 1) (c :: p ++ x)) with (p ++ x).
      rewrite IH by (cbn [app length] in Hf; lia). cbn [items stack tokbuf length rev]. rewrite <- app_assoc. reflexivity.
  Qed.

  Theorem quote_after_operand_rejected_gen p q rest :
    p <> [] -> Forall (fun c => plain c = true) p -> q = DQ \/ q = SQ ->
    tokenize_gen isnum pop_exn (p ++ q :: rest) = Err TokenizerError.
  Proof.
    intros Hne Hp Hq. unfold tokenize_gen. rewrite run_plain by (auto; lia).
    rewrite app_length. cbn [length].
    replace (S (length p + S (length rest)) - length p)%nat with (S (S (length rest))) by lia.
    rewrite run_S. cbn [items stack tokbuf st0]. rewrite app_nil_r.
    assert (Hb : exists b0 b, rev p = b0 :: b).
    { destruct (rev p) as [|b0 b] eqn:E; eauto. exfalso. apply Hne. rewrite <- (rev_involutive p), E. reflexivity. }
    destruct Hb as (b0 & b & Eb). rewrite Eb.
    unfold step. destruct Hq as [-> | ->]; reflexivity.
  Qed.
End Generic.

Theorem quote_after_operand_rejected_lemma p q rest :
  p <> [] -> Forall (fun c => plain c = true) p -> q = DQ \/ q = SQ ->
  tokenize (p ++ q :: rest) = Err TokenizerError.
Proof. apply quote_after_operand_rejected_gen. Qed.

(* Table 1::'a+b'   and   it'''s *)
Lemma reader_forms_rejected :
  tokenize [84;97;98;108;101;32;49;58;58;39;97;43;98;39] = Err TokenizerError /\
  tokenize [105;116;39;39;39;115] = Err TokenizerError.
Proof. split; vm_compute; reflexivity. Qed.

(* ------------------------------------------------------------------ what is accepted: reference texts standing alone *)
(* a bare name of plain characters is one operand *)
Theorem plain_reference_accepted_lemma p :
  p <> [] -> Forall (fun c => plain c = true) p -> tokenize p = Ok [make_operand py_float_ok p].
Proof.
  intros Hne Hp. unfold tokenize, tokenize_gen.
  rewrite <- (app_nil_r p) at 2. rewrite run_plain by (auto; rewrite app_nil_r; lia).
  rewrite run_nil. unfold save_token. cbn [tokbuf st0 items stack]. rewrite app_nil_r.
  destruct (rev p) as [|b0 b] eqn:E.
  { exfalso. apply Hne. rewrite <- (rev_involutive p), E. reflexivity. }
  cbn [items]. rewrite <- E, rev_involutive. reflexivity.
Qed.

Lemma first_step_quoted c rest m :
  (c = DQ /\ match_dq (c :: rest) = Some m) \/ (c = SQ /\ match_sq (c :: rest) = Some m) ->
  m = N.of_nat (length (c :: rest)) ->
  tokenize (c :: rest) = Ok [make_operand py_float_ok (c :: rest)].
Proof.
  intros H ->. unfold tokenize, tokenize_gen. rewrite run_S.
  assert (E : step py_float_ok TokenizerError st0 (c :: rest) =
              Ok (push_item st0 (make_operand py_float_ok (c :: rest)), N.of_nat (length (c :: rest)))).
  { unfold step. destruct H as [[-> H]|[-> H]].
    - replace (mem DQ [PLUS; MINUS]) with false by reflexivity. cbn [andb].
      replace (mem DQ enders) with false by reflexivity.
      replace ((DQ =? DQ) || (DQ =? SQ)) with true by reflexivity. cbn [tokbuf st0].
      replace (DQ =? DQ) with true by reflexivity. rewrite H, Nnat.Nat2N.id, firstn_all. reflexivity.
    - replace (mem SQ [PLUS; MINUS]) with false by reflexivity. cbn [andb].
      replace (mem SQ enders) with false by reflexivity.
      replace ((SQ =? DQ) || (SQ =? SQ)) with true by reflexivity. cbn [tokbuf st0].
      replace (SQ =? DQ) with false by reflexivity. rewrite H, Nnat.Nat2N.id, firstn_all. reflexivity. }
  rewrite E. rewrite Nnat.Nat2N.id, dropN_skipn, skipn_all, run_nil. reflexivity.
Qed.

(* a quoted reference  'a+b'  /  'a+b':'c d'  standing alone is one operand *)
Theorem quoted_reference_accepted_lemma w :
  sq_lang w -> tokenize w = Ok [make_operand py_float_ok w].
Proof.
  intros Hw. assert (Hh : exists r, w = SQ :: r).
  { destruct Hw as [n0 conts Hn _]. destruct (name_lang_head _ Hn) as (r & ->). cbn. eauto. }
  destruct Hh as (r & ->).
  destruct (match_sq (SQ :: r)) as [m|] eqn:Em.
  - apply first_step_quoted with (m := m); [right; auto|].
    pose proof (sq_scanner_longest_lemma _ _ Em (SQ :: r) [] (eq_sym (app_nil_r _)) Hw) as L.
    destruct (sq_scanner_sound_lemma _ _ Em) as (w' & rest & E & _ & ->).
    apply (f_equal (@length N)) in E. rewrite app_length in E. lia.
  - exfalso. exact (sq_scanner_complete_lemma _ Em (SQ :: r) [] (eq_sym (app_nil_r _)) Hw).
Qed.

(* a string literal standing alone is one TEXT operand *)
Theorem string_literal_accepted_lemma w :
  dq_lang w -> tokenize w = Ok [{| tval := w; tty := OPERAND; tsub := S_TEXT |}].
Proof.
  intros Hw. assert (Hh : exists r, w = DQ :: r) by (destruct Hw; eauto). destruct Hh as (r & ->).
  assert (Em : match_dq (DQ :: r) = Some (N.of_nat (length (DQ :: r)))).
  { apply dq_scanner_is_regex_lemma. exists (DQ :: r), []. rewrite app_nil_r. repeat split; auto. }
  rewrite (first_step_quoted DQ r _ (or_introl (conj eq_refl Em)) eq_refl). reflexivity.
Qed.
